"""C11 — StandardFlexibleScaler standardises w.r.t. the weighted training distribution.

Real functions: StandardFlexibleScaler.fit / transform / inverse_transform (skmatter/preprocessing/_data.py), all with_mean/with_std/column_wise
combinations, with and without sample weights.  Weighted averages are a normalised non-negative linear functional WAVG(w, .) of each column
(external contract of np.average), so every statement holds for every weight vector."""
from pyvc.api import *
from pyvc import veclayer as VL, skstubs
from pyvc.veclayer import Vec, comp, vsubs, vscale, vsq, WAVG
from pyvc.engine import ExtNS, ExtClass

SC = 'skmatter.preprocessing._data.StandardFlexibleScaler'
i_, j_ = Int('i'), Int('j')

def extend_ext(ext):
    VL.install(ext); skstubs.install(ext); VL.install_stats(ext)
    ext['names']['sklearn.utils.validation._check_sample_weight'] = lambda I, w, X, **kw: w
    ext['names']['sklearn.preprocessing._data.KernelCenterer'] = ExtClass('KernelCenterer')
    ext['names']['sklearn.preprocessing.KernelCenterer'] = ExtClass('KernelCenterer')
    ext['names']['sklearn.utils.validation._check_sample_weight'] = lambda I, w, X, **kw: w
    def np_sum(I, a, axis=None, **kw):
        r = I.fresh('sum', RealS)
        I.cur.setdefault('sums', []).append((a, r))
        return r
    ext['modules']['np'].sum = np_sum
    ext['arr_attrs'] = dict(ext['arr_attrs']); ext['arr_attrs']['sum'] = lambda I, a: (lambda I2, *x, **k: np_sum(I2, a, *x, **k))

def u_scaler(wm, ws, cw, weighted):
    def body(I):
        n, m = I.fresh('n', IntS), I.fresh('m', IntS); I.assume(And(n >= 2, m >= 1))
        I.use_axioms('stats', VL.axioms() + VL.stats_axioms())
        I.cur = {}
        X = I.fresh_arr('X', (n, m), layout=1); col = I.A(X).vecs[1]
        w = I.fresh_arr('w', (n,)) if weighted else None
        rtol, atol = I.fresh('rtol', RealS), I.fresh('atol', RealS); I.assume(And(rtol >= 0, atol > 0))
        cls = I.repo.get(SC)
        me = I.instantiate(cls, [], dict(with_mean=wm, with_std=ws, column_wise=cw, rtol=rtol, atol=atol))
        r = I.call_func(I.find_method(cls, 'fit'), [me, X], dict(sample_weight=w))
        I.ob('post[C09]:fit-returns-self', BoolVal(isinstance(r, ObjRef) and r.id == me.id), kind='post')
        o = I.O(me)
        tok = VL.weight_token(I, w)
        # every weighted average taken by fit uses the given weights (or none)
        sample_avgs = [(aa, ww, ax) for (aa, ww, ax) in I.cur.get('avg_calls', []) if I.A(aa).ndim == 2]      # averages over the sample axis
        I.ob('post[C11]:all-averages-use-the-sample-weights', BoolVal(all(z3.eq(VL.weight_token(I, ww), tok) and ax == 0 for (aa, ww, ax) in sample_avgs)), kind='post')
        mu = lambda j: WAVG(tok, col(j))
        var = lambda j: WAVG(tok, vsq(vsubs(col(j), mu(j))))
        mean_ = I.A(o.attrs['mean_'])
        I.ob('post[C11]:mean-is-the-weighted-column-mean-or-zero', And(tz(mean_.shape[0]) == m, ForAll([j_], Implies(And(0 <= j_, j_ < m), mean_.elem(j_) == (mu(j_) if wm else RealVal(0))))), kind='post')
        sc = o.attrs['scale_']
        if not ws:
            I.ob('post[C11]:scaling-off-means-scale-one', BoolVal(not isinstance(sc, ArrRef) and conc(sc) == 1.0), kind='post')
            scale = lambda j: RealVal(1)
        elif cw:
            S = I.A(sc)
            I.ob('post[C11]:scale-is-the-square-root-of-the-weighted-column-variance', And(tz(S.shape[0]) == m, ForAll([j_], Implies(And(0 <= j_, j_ < m), And(S.elem(j_) == npstubs.SQRT(var(j_)), S.elem(j_) > 0)))), kind='post')
            I.ob('reject[C11]:accepted-data-has-every-column-variance-at-or-above-the-tolerance', ForAll([j_], Implies(And(0 <= j_, j_ < m), var(j_) >= atol + If(mu(j_) >= 0, mu(j_), -mu(j_)) * rtol)), kind='post')
            scale = lambda j: S.elem(j)
        else:
            sums = I.cur.get('sums', [])
            summed = [a for a, r_ in sums if z3.eq(r_ * r_ if False else r_, r_)]
            va, vs = None, None
            for a, r_ in sums:
                A = I.A(a)
                if A.ndim == 1: va, vs = A, r_
            I.ob('post[C11]:scale-is-the-square-root-of-the-summed-column-variances', BoolVal(va is not None) if va is None else
                 And(tz(sc) == npstubs.SQRT(vs), tz(sc) > 0, tz(va.shape[0]) == m, ForAll([j_], Implies(And(0 <= j_, j_ < m), va.elem(j_) == var(j_)))), kind='post')
            scale = lambda j: tz(sc)
            I.cur['S'] = vs
        # transformed training data
        Tt = I.A(I.call_func(I.find_method(cls, 'transform'), [me, X], {}))
        tcol = Tt.vecs[1] if Tt.vecs is not None else None
        I.ob('post[C11]:transform-keeps-the-column-structure', BoolVal(tcol is not None), kind='post')
        if tcol is not None:
            if wm:
                I.ob('post[C11]:weighted-column-means-of-the-transformed-training-data-vanish', ForAll([j_], Implies(And(0 <= j_, j_ < m), WAVG(tok, tcol(j_)) == 0)), kind='post')
            if ws and wm:
                tvar = lambda j: WAVG(tok, vsq(vsubs(tcol(j), WAVG(tok, tcol(j)))))
                if cw:
                    I.ob('post[C11]:weighted-variance-of-each-transformed-column-is-one', ForAll([j_], Implies(And(0 <= j_, j_ < m), tvar(j_) == 1)), kind='post')
                else:
                    I.ob('post[C11]:weighted-variance-of-each-transformed-column-is-its-share-of-the-summed-variance', ForAll([j_], Implies(And(0 <= j_, j_ < m), tvar(j_) * I.cur['S'] == var(j_))), kind='post')
        # new data: formula and round trip
        nn = I.fresh('n_new', IntS); I.assume(nn >= 1)
        Xn = I.fresh_arr('Xnew', (nn, m), layout=1)
        Tn = I.A(I.call_func(I.find_method(cls, 'transform'), [me, Xn], {}))
        I.ob('post[C11]:transform-is-(X-mean)/scale', And(tz(Tn.shape[0]) == nn, tz(Tn.shape[1]) == m,
             ForAll([i_, j_], Implies(And(0 <= i_, i_ < nn, 0 <= j_, j_ < m), Tn.elem(i_, j_) == (I.A(Xn).elem(i_, j_) - mean_.elem(j_)) / scale(j_)))), kind='post')
        Tn_ref = I.new_arr(Tn)
        Xb = I.A(I.call_func(I.find_method(cls, 'inverse_transform'), [me, Tn_ref], {}))
        I.ob('post[C11]:inverse-transform-undoes-transform', ForAll([i_, j_], Implies(And(0 <= i_, i_ < nn, 0 <= j_, j_ < m), Xb.elem(i_, j_) == I.A(Xn).elem(i_, j_))), kind='post')
    name = f"StandardFlexibleScaler[mean={wm},std={ws},column_wise={cw},{'weighted' if weighted else 'unweighted'}]"
    return Unit(name, body, functions=[SC + '.fit', SC + '.transform', SC + '.inverse_transform'])

def lemmas():
    """consequences stated over the contract (uninterpreted normalised functional E): shift and scale invariance of the standardised data"""
    v = z3.Const('v', Vec); a, c = z3.Reals('a c'); w = Int('w')
    ax = VL.axioms() + VL.stats_axioms()
    mu = WAVG(w, v); var = WAVG(w, vsq(vsubs(v, mu)))
    sh = vsubs(v, -a)                                     # column shifted by +a
    mu2 = WAVG(w, sh); 
    items = [('shifted-column-has-the-shifted-mean-and-the-same-variance', ax, And(mu2 == mu + a, WAVG(w, vsq(vsubs(sh, mu2))) == var)),
             ('centred-shifted-column-equals-the-centred-column', ax, vsubs(sh, mu2) == vsubs(v, mu)),
             ('rescaled-column-has-the-rescaled-mean-and-variance-times-c-squared', ax, And(WAVG(w, vscale(v, c)) == c * mu,
                                                                                              WAVG(w, vsq(vsubs(vscale(v, c), c * mu))) == c * c * var))]
    return Lemma('invariance[C11]', items)

UNITS = [(lambda a, b, c, d: (lambda: u_scaler(a, b, c, d)))(a, b, c, d) for a in (True, False) for b in (True, False) for c in (True, False) for d in (True, False)] + [lemmas]
RT = True
TRUSTED = ["external contract of np.average: for every weight vector (or none) a normalised non-negative linear functional of each column, unchanged by positive rescaling of the weights: WAVG(w, v - c) = WAVG(w, v) - c, WAVG(w, c v) = c WAVG(w, v), WAVG(w, v^2) >= 0",
           "finite-sum step for the non-column-wise mode: sum_j var_j / S = 1 when S = sum_j var_j (the per-column identity tvar_j * S = var_j is proved; the summation is arithmetic)",
           "integer weights = repeated rows and equality with sklearn StandardScaler: bounded (runtime side)"]
