"""C11 — bounded stand-in for now (runtime contracts); deductive obligations are added in contracts/c11_proof when available."""
BOUNDED_ONLY = True
RT = True
UNITS = []
TRUSTED = ["reference: explicit weighted moments / explicit feature-space computation with numpy"]
