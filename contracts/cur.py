"""Contracts for the CUR / PCov-CUR search step (C07), at the matrix level.

Real functions interpreted: _CUR._compute_pi, _CUR._init_greedy_search, _CUR._update_post_selection, _CUR._orthogonalize, _CUR.score and the _PCovCUR
counterparts, GreedySelector._get_best_new_selection / _update_post_selection (through the public classes of feature_selection / sample_selection).

Modular callees (their own contracts are proved in contracts/orth.py): X_orthogonalizer -> XO(M, c, tol), Y_feature_orthogonalizer -> YFO(y, X, tol),
Y_sample_orthogonalizer -> YSO(X, X_ref, y_ref, tol) (as uninterpreted results: the step unit proves WHICH residual the selector stores, orth.py proves
WHAT that residual is).  External (assumed) contracts: scipy.sparse.linalg.svds, scipy.sparse.linalg.eigsh, scipy.linalg.eigh return singular / eigen
vectors (SVL/SVR/EVEC components of the matrix handed in, eigenvalues EVAL ascending for eigh); np.argsort returns a sorting permutation."""
from pyvc.api import *
from pyvc import matlayer as ML, skstubs
from pyvc.matlayer import Mat, mul, add, sub, T, smul, Id, at, rows, cols
from pyvc.engine import ExtNS, ExtClass, Opaque, Bound
from contracts import pcovr as P

SEL = 'skmatter._selection'
OQ = 'skmatter.utils._orthogonalizers'
PUBLIC = {('CUR', 'sample'): 'skmatter.sample_selection._base.CUR', ('CUR', 'feature'): 'skmatter.feature_selection._base.CUR',
          ('PCovCUR', 'sample'): 'skmatter.sample_selection._base.PCovCUR', ('PCovCUR', 'feature'): 'skmatter.feature_selection._base.PCovCUR'}
j_, i_ = Int('j'), Int('i')
SVL = z3.Function('SVL', Mat, IntS, IntS, RealS)          # SVL(M, j, i): component j of the i-th returned left singular vector of M
SVR = z3.Function('SVR', Mat, IntS, IntS, RealS)          # SVR(M, i, j): component j of the i-th returned right singular vector of M
EVEC = z3.Function('EVEC', Mat, IntS, IntS, RealS)        # EVEC(M, j, i): component j of the i-th returned eigenvector of the symmetric matrix M
EVAL = z3.Function('EVAL', Mat, IntS, RealS)              # its eigenvalue
PIF = z3.Function('PIF', Mat, IntS, RealS)                # the importance score computed by _compute_pi from a residual (CUR)
PIF2 = z3.Function('PIF2', Mat, Mat, IntS, RealS)         # ... from residual X and unexplained y (PCov-CUR)
XO = z3.Function('XO', Mat, IntS, RealS, Mat)             # X_orthogonalizer(x1, c, tol)
YFO = z3.Function('YFO', Mat, Mat, RealS, Mat)            # Y_feature_orthogonalizer(y, X, tol)
YSO = z3.Function('YSO', Mat, Mat, Mat, Mat, RealS, Mat)  # Y_sample_orthogonalizer(y, X, y_ref, X_ref, tol)
KERN = z3.Function('PCOVK', RealS, Mat, Mat, Mat)         # pcovr_kernel(mixing, X, Y)
COV = z3.Function('PCOVC', RealS, Mat, Mat, Mat)          # pcovr_covariance(mixing, X, Y, rcond=1e-12, rank=None)

def conc_int(v):
    v = conc(v)
    return v if isinstance(v, int) else None

def sum_hook(I, a, axis, kw):
    """sum over an axis of concrete (small) length: the explicit sum"""
    A = I.A(a)
    if A.ndim != 2 or axis not in (0, 1): return None
    L = conc_int(A.shape[axis])
    if L is None:
        # a symbolic but small length (e.g. min(k, n)): case split on its value
        for c in range(0, 5):
            if I.branch(tz(A.shape[axis]) == c):
                L = c; break
    if L is None or L > 4: return None
    if L == 0: return I.new_arr(ArrVal((A.shape[1 - axis],), lambda j: RealVal(0), RealS))
    npstubs.used('np.sum(axis) over a concretely short axis (explicit sum)')
    if axis == 1:
        return I.new_arr(ArrVal((A.shape[0],), lambda j: z3.Sum([to_real(A.elem(j, IntVal(i))) for i in range(L)]) if L > 1 else to_real(A.elem(j, IntVal(0))), RealS))
    return I.new_arr(ArrVal((A.shape[1],), lambda j: z3.Sum([to_real(A.elem(IntVal(i), j)) for i in range(L)]) if L > 1 else to_real(A.elem(IntVal(0), j)), RealS))

def svds_stub(I, A, k=None, random_state=None, return_singular_vectors=True, **kw):
    npstubs.used('scipy.sparse.linalg.svds (k leading singular triplets; only the requested side is returned)')
    M = ML.mat_of(I, A); n, m = I.A(A).shape
    kk = conc_int(k)
    if kk is None: raise Unsupported("svds with symbolic k")
    I.cur.setdefault('svds_calls', []).append(dict(k=kk, side=return_singular_vectors, M=M))
    S = I.fresh_arr('S', (kk,))
    if return_singular_vectors == 'u':
        return (I.new_arr(ArrVal((n, kk), lambda j, i: SVL(M, j, i), RealS)), S, None)
    if return_singular_vectors == 'vh':
        return (None, S, I.new_arr(ArrVal((kk, m), lambda i, j: SVR(M, i, j), RealS)))
    raise Unsupported("svds returning both sides")

def eigsh_stub(I, A, k=None, tol=None, **kw):
    npstubs.used('scipy.sparse.linalg.eigsh (k largest-magnitude eigenpairs of a symmetric PSD matrix)')
    M = ML.mat_of(I, A); n = I.A(A).shape[0]
    kk = conc_int(k)
    if kk is None: raise Unsupported("eigsh with symbolic k")
    I.cur.setdefault('eig_calls', []).append(dict(kind='eigsh', k=kk, M=M))
    # the k returned pairs are the k largest of the full spectrum: pair i of the result is pair (n-k+i) of the ascending full decomposition
    base = tz(n) - kk
    return (I.new_arr(ArrVal((kk,), lambda i: EVAL(M, base + i), RealS)), I.new_arr(ArrVal((n, kk), lambda j, i: EVEC(M, j, base + i), RealS)))

def eigh_stub(I, A, **kw):
    npstubs.used('scipy.linalg.eigh (full symmetric eigendecomposition, eigenvalues ascending)')
    M = ML.mat_of(I, A); n = I.A(A).shape[0]
    I.cur.setdefault('eig_calls', []).append(dict(kind='eigh', k=None, M=M))
    return (I.new_arr(ArrVal((n,), lambda i: EVAL(M, i), RealS)), I.new_arr(ArrVal((n, n), lambda j, i: EVEC(M, j, i), RealS)))

def argsort_stub(I, a, **kw):
    npstubs.used('np.argsort (a permutation sorting ascending)')
    A = I.A(a); n = tz(A.shape[0])
    r = I.fresh_arr('argsort', (A.shape[0],), IntS); p = I.A(r).elem
    I.st.nfresh += 1
    q = z3.Function(f'argsort_inv!{I.st.nfresh}', IntS, IntS)          # the inverse permutation
    a_, b_ = Int('a!as'), Int('b!as')
    I.assume(ForAll([a_], Implies(And(0 <= a_, a_ < n), And(0 <= q(a_), q(a_) < n, p(q(a_)) == a_)), patterns=[q(a_)]))
    I.assume(ForAll([a_], Implies(And(0 <= a_, a_ < n), q(p(a_)) == a_), patterns=[p(a_)]))
    I.cur['argsort'] = dict(p=p, q=q, n=n)
    I.assume(ForAll([a_], Implies(And(0 <= a_, a_ < n), And(0 <= p(a_), p(a_) < n)), patterns=[p(a_)]))
    I.assume(ForAll([a_, b_], Implies(And(0 <= a_, a_ < b_, b_ < n), And(p(a_) != p(b_), A.elem(p(a_)) <= A.elem(p(b_)))), patterns=[z3.MultiPattern(p(a_), p(b_))]))
    return r

def flip_stub(I, a, **kw):
    npstubs.used('np.flip (1-D reversal)')
    A = I.A(a)
    if A.ndim != 1: raise Unsupported("np.flip of nd")
    n = tz(A.shape[0])
    return I.new_arr(ArrVal(A.shape, lambda i: A.elem(n - 1 - i), A.sort))

def xo_contract():
    def requires(I, F):
        A = I.A(F['x1'])
        return [('column-in-range', And(0 <= tz(F['c']), tz(F['c']) < tz(A.shape[1]))), ('x2-unused', BoolVal(F['x2'] is None)), ('in-place-call (copy=False)', BoolVal(F['copy'] is False))]
    def make_result(I, F):
        A = I.A(F['x1']); M = ML.mat_of(I, F['x1'])
        R = XO(M, tz(F['c']), to_real(tz(F['tol'])))
        I.assume(And(rows(R) == rows(M), cols(R) == cols(M)))
        # facts proved for the real X_orthogonalizer in contracts/orth.py: in the normalising branch the selected column of the result is zero; zero columns stay zero
        big = I.fresh('norm_reached_tolerance', BoolS); I.cur['xo_big'] = big
        Z = ML.Zero(rows(M), 1)
        I.assume(Implies(big, ML.COLOF(R, tz(F['c'])) == Z))
        I.assume(ForAll([j_], Implies(ML.COLOF(M, j_) == Z, ML.COLOF(R, j_) == Z), patterns=[ML.COLOF(R, j_)]))
        return ML.mk(I, R, A.shape)
    return FuncContract(requires=requires, make_result=make_result)

def yfo_contract():
    def requires(I, F):
        return [('same-number-of-samples', tz(I.A(F['y']).shape[0]) == tz(I.A(F['X']).shape[0]))]
    def make_result(I, F):
        A = I.A(F['y']); R = YFO(ML.mat_of(I, F['y']), ML.mat_of(I, F['X']), to_real(tz(F['tol'])))
        I.assume(And(rows(R) == tz(A.shape[0]), cols(R) == tz(A.shape[1])))
        return ML.mk(I, R, A.shape)
    return FuncContract(requires=requires, make_result=make_result)

def yso_contract():
    def requires(I, F):
        return [('reference-blocks-have-equal-sample-counts', tz(I.A(F['y_ref']).shape[0]) == tz(I.A(F['X_ref']).shape[0])),
                ('same-number-of-features', tz(I.A(F['X']).shape[1]) == tz(I.A(F['X_ref']).shape[1])),
                ('same-number-of-samples', tz(I.A(F['y']).shape[0]) == tz(I.A(F['X']).shape[0]))]
    def make_result(I, F):
        A = I.A(F['y']); R = YSO(ML.mat_of(I, F['y']), ML.mat_of(I, F['X']), ML.mat_of(I, F['y_ref']), ML.mat_of(I, F['X_ref']), to_real(tz(F['tol'])))
        I.cur['yso_args'] = dict(F)
        I.assume(And(rows(R) == tz(A.shape[0]), cols(R) == tz(A.shape[1])))
        return ML.mk(I, R, A.shape)
    return FuncContract(requires=requires, make_result=make_result)

def pi_contract(fam):
    """_compute_pi as a modular callee of the step: one score per candidate, computed from the matrices handed in (what the score is: u_compute_pi)"""
    def make_result(I, F):
        me = F['self']; ax = conc(I.attr(me, '_axis')); Xc = I.A(F['X'])
        n = Xc.shape[0] if ax == 0 else Xc.shape[1]
        M = ML.mat_of(I, F['X'])
        # non-negativity is proved for the real _compute_pi (u_compute_pi)
        if fam == 'CUR':
            I.assume(ForAll([j_], PIF(M, j_) >= 0, patterns=[PIF(M, j_)]))
            return I.new_arr(ArrVal((n,), lambda j: PIF(M, j), RealS))
        if F.get('y') is None: raise Unsupported("PCovCUR._compute_pi without y")
        Y = ML.mat_of(I, F['y'])
        I.assume(ForAll([j_], PIF2(M, Y, j_) >= 0, patterns=[PIF2(M, Y, j_)]))
        return I.new_arr(ArrVal((n,), lambda j: PIF2(M, Y, j), RealS))
    return FuncContract(make_result=make_result)

def kernel_contract(sym):
    def make_result(I, F):
        X = I.A(F['X']); n = X.shape[0] if sym is KERN else X.shape[1]
        if F.get('Y') is None: raise Unsupported("pcovr kernel/covariance without Y")
        R = sym(to_real(tz(F['mixing'])), ML.mat_of(I, F['X']), ML.mat_of(I, F['Y']))
        I.assume(And(rows(R) == tz(n), cols(R) == tz(n), T(R) == R))
        I.cur.setdefault('kern_calls', []).append(dict(F=dict(F), sym=sym))
        return ML.mk(I, R, (n, n))
    return FuncContract(make_result=make_result)

def extend_ext(ext, base=True):
    if base: P.extend_ext(ext)
    ext['sum_hook'] = sum_hook
    sc = ext['modules']['scipy']
    sc.sparse.linalg.svds = svds_stub
    ext['names']['scipy.sparse.linalg.svds'] = svds_stub
    ext['names']['scipy.sparse.linalg.eigsh'] = eigsh_stub
    ext['names']['scipy.linalg.eigh'] = eigh_stub
    prev_norm = ext['modules']['np'].linalg.norm
    def norm(I, a, *args, **kw):
        if isinstance(a, ArrRef) and I.A(a).ndim == 2 and not args and not kw:
            npstubs.used('np.linalg.norm (Frobenius)')
            return npstubs.sqrt_(I, ML.fro2(ML.mat_of(I, a)))
        return prev_norm(I, a, *args, **kw)
    ext['modules']['np'].linalg.norm = norm
    ext['modules']['np'].argsort = argsort_stub
    ext['modules']['np'].flip = flip_stub

class Cfg:
    def __init__(self, family, direction, k=1, recompute=1, with_y=None):
        self.family, self.direction, self.k, self.recompute = family, direction, k, recompute
        self.axis = 1 if direction == 'feature' else 0
        self.with_y = (family == 'PCovCUR') if with_y is None else with_y
    @property
    def name(self): return f"{self.family}[{self.direction},k={self.k},re={self.recompute}]"

def setup(I, cfg, fitted=True, full=False):
    """symbolic data and a selector in an arbitrary mid-search state (k0 selections made, buffer capacity cap > k0)"""
    n, m = I.fresh('n_samples', IntS), I.fresh('n_features', IntS)
    I.assume(And(n >= 2, m >= 2))
    I.use_axioms('entries', ML.axioms('entries')); I.use_axioms('ring', ML.axioms('ring'))
    N = m if cfg.axis == 1 else n
    X = ML.fresh_mat(I, 'X', (n, m))
    kw = dict(recompute_every=cfg.recompute, k=cfg.k)
    tol = I.fresh('tolerance', RealS); I.assume(tol >= 0); kw['tolerance'] = tol
    if cfg.family == 'PCovCUR':
        kw['mixing'] = I.fresh('mixing', RealS); I.assume(And(0 <= kw['mixing'], kw['mixing'] <= 1))
    cls = I.repo.get(PUBLIC[(cfg.family, cfg.direction)])
    me = I.instantiate(cls, [], kw)
    o = I.O(me)
    ctx = dict(cfg=cfg, n=n, m=m, N=N, X=X, me=me, cls=cls, tol=tol, axis=cfg.axis)
    y = ML.fresh_mat(I, 'y', (n, 1)) if cfg.with_y else None
    ctx['y'] = y
    if fitted:
        k0, cap = I.fresh('n_selected', IntS), I.fresh('capacity', IntS)
        I.assume(And(k0 >= 0, cap == k0 if full else cap > k0, cap <= N))
        o.attrs['_axis'] = cfg.axis; o.attrs['n_selected_'] = k0; o.attrs['first_score_'] = None
        o.attrs['selected_idx_'] = I.fresh_arr('idx', (cap,), IntS)
        shp = [n, m]; shp[cfg.axis] = cap
        o.attrs['X_selected_'] = ML.fresh_mat(I, 'Xsel', tuple(shp))
        o.attrs['X_current_'] = ML.fresh_mat(I, 'Xcur', (n, m))
        o.attrs['pi_'] = I.fresh_arr('pi', (N,))
        if cfg.with_y and cfg.axis == 0: o.attrs['y_selected_'] = ML.fresh_mat(I, 'ysel', (cap, 1))
        if cfg.family == 'PCovCUR':
            o.attrs['X_ref_'] = X; o.attrs['y_ref_'] = y
            o.attrs['y_current_'] = ML.fresh_mat(I, 'ycur', (n, 1)) if y is not None else None
        ctx.update(k0=k0, cap=cap)
    I.cur = ctx
    return ctx

def funcs_for(cfg, with_pi=True):
    f = {OQ + '.X_orthogonalizer': xo_contract(), OQ + '.Y_feature_orthogonalizer': yfo_contract(), OQ + '.Y_sample_orthogonalizer': yso_contract()}
    if with_pi: f[SEL + '._' + cfg.family + '._compute_pi'] = pi_contract(cfg.family)
    return f

def explicit_score(cfg, M, j, n_or_none=None, comp=None):
    comp = comp or ((lambda jj, i: SVL(M, jj, i)) if cfg.axis == 0 else (lambda jj, i: SVR(M, i, jj)))
    terms = [comp(j, IntVal(i)) * comp(j, IntVal(i)) for i in range(cfg.k)]
    return terms[0] if len(terms) == 1 else z3.Sum(terms)

# ------------------------------------------------------------------ the score: _compute_pi against the documented formula
def u_compute_pi(cfg):
    q = SEL + '._' + cfg.family + '._compute_pi'
    def body(I):
        ctx = setup(I, cfg); me = ctx['me']; n, m, N = ctx['n'], ctx['m'], ctx['N']
        R = ML.fresh_mat(I, 'R', (n, m)); Rm = ML.mat_of(I, R)
        j = I.fresh('j', IntS); I.assume(And(0 <= j, j < N))
        if cfg.family == 'CUR':
            r = I.call_func(I.find_method(ctx['cls'], '_compute_pi'), [me, R], {})
            A = I.A(r)
            I.ob('post[C07]:one-score-per-candidate', And(BoolVal(A.ndim == 1), tz(A.shape[0]) == N), kind='post')
            calls = I.cur.get('svds_calls', [])
            I.ob('post[C07]:singular-vectors-requested-from-the-residual-handed-in-with-the-configured-k',
                 BoolVal(len(calls) == 1 and calls[0]['k'] == cfg.k and calls[0]['M'].eq(Rm) and calls[0]['side'] == ('u' if cfg.axis == 0 else 'vh')), kind='post')
            I.ob('post[C07]:score-is-the-sum-of-squared-entries-over-the-top-k-singular-vectors', to_real(A.elem(j)) == explicit_score(cfg, Rm, j), kind='post')
            I.ob('post[C07]:scores-are-non-negative', to_real(A.elem(j)) >= 0, kind='post')
        else:
            Yc = ML.fresh_mat(I, 'Yc', (n, 1)); Ym = ML.mat_of(I, Yc)
            r = I.call_func(I.find_method(ctx['cls'], '_compute_pi'), [me, R, Yc], {})
            A = I.A(r)
            I.ob('post[C07]:one-score-per-candidate', And(BoolVal(A.ndim == 1), tz(A.shape[0]) == N), kind='post')
            kc = I.cur.get('kern_calls', [])
            ok = len(kc) == 1 and kc[0]['sym'] is (KERN if cfg.axis == 0 else COV)
            I.ob('post[C07]:modified-' + ('Gram' if cfg.axis == 0 else 'covariance') + '-matrix-built-once-by-the-documented-routine', BoolVal(ok), kind='post')
            if ok:
                F = kc[0]['F']
                I.ob('post[C07]:...from-the-residual-X-the-unexplained-y-and-the-configured-mixing',
                     And(BoolVal(ML.mat_of(I, F['X']).eq(Rm) and ML.mat_of(I, F['Y']).eq(Ym)), to_real(tz(F['mixing'])) == to_real(tz(ctx['me'] and I.attr(me, 'mixing')))), kind='post')
                if cfg.axis == 1:
                    I.ob('post[C07]:...covariance-called-with-the-documented-cut-off', And(to_real(tz(F.get('rcond'))) == RealVal('1e-12'), BoolVal(F.get('rank') is None)), kind='post')
            Mk = (KERN if cfg.axis == 0 else COV)(to_real(tz(I.attr(me, 'mixing'))), Rm, Ym)
            ec = I.cur.get('eig_calls', [])
            I.ob('post[C07]:eigenvectors-requested-from-that-matrix', BoolVal(len(ec) == 1 and ec[0]['M'].eq(Mk) and (ec[0]['k'] in (None, cfg.k))), kind='post')
            # the i-th column used is an eigenvector whose eigenvalue is among the k largest: for the full decomposition, position N-1-i of the ascending order
            # up to ties (equal eigenvalues): the score uses k eigenvectors u_0..u_{k-1} with eigenvalues >= every unused one
            used_cols = None
            as_ = I.cur.get('argsort')
            if as_ is not None and len(ec) == 1:
                off = IntVal(0) if ec[0]['kind'] == 'eigh' else N - cfg.k
                keff = cfg.k
                if ec[0]['kind'] == 'eigh':
                    for c in range(2, cfg.k):           # fewer candidates than k: all eigenvectors are used
                        if I.branch(N == c): keff = c; break
                used_cols = [z3.simplify(off + as_['p'](as_['n'] - 1 - i)) for i in range(keff)]
            I.ob('post[C07]:score-is-the-sum-of-squared-entries-over-k-eigenvectors (all of them when there are fewer than k)', BoolVal(used_cols is not None), kind='post')
            if used_cols is not None:
                terms = [EVEC(Mk, j, c) * EVEC(Mk, j, c) for c in used_cols]
                I.ob('post[C07]:score-formula', to_real(A.elem(j)) == (terms[0] if len(terms) == 1 else z3.Sum(terms)), kind='post')
                Nn = N
                u = I.fresh('unused', IntS)
                I.assume(And(0 <= u, u < Nn, *[u != c for c in used_cols]))
                for i, c in enumerate(used_cols):
                    I.ob(f'post[C07]:eigenvector-{i}-is-a-valid-column-and-distinct', And(0 <= c, c < Nn, *[c != c2 for c2 in used_cols[:i]]), kind='post')
                    if ec and ec[0]['kind'] == 'eigh':
                        I.ob(f'post[C07]:eigenvector-{i}-belongs-to-the-k-largest-eigenvalues', EVAL(Mk, c) >= EVAL(Mk, u), kind='post')
    return Unit(cfg.name + '._compute_pi', body, funcs={'skmatter.utils._pcovr_utils.pcovr_kernel': kernel_contract(KERN), 'skmatter.utils._pcovr_utils.pcovr_covariance': kernel_contract(COV)},
                functions=[q])

# ------------------------------------------------------------------ the pick: _get_best_new_selection on the stored scores
def u_pick(cfg):
    def body(I):
        ctx = setup(I, cfg); me = ctx['me']; N = ctx['N']; o = I.O(me)
        P_ = I.A(o.attrs['pi_']).elem
        sel = z3.Function('selected', IntS, BoolS)
        Xref = I.fresh('Xref', Mat); Yref = I.fresh('Yref', Mat)
        score = (lambda jj: PIF(Xref, jj)) if cfg.family == 'CUR' else (lambda jj: PIF2(Xref, Yref, jj))
        # invariant of the search (established by init / continue, kept by every step: u_step): stored scores are the scores as of the most recent refresh for
        # every item not yet selected, 0 for selected items, never negative
        I.assume(ForAll([j_], Implies(And(0 <= j_, j_ < N), And(P_(j_) >= 0, Implies(Not(sel(j_)), P_(j_) == score(j_)), Implies(sel(j_), P_(j_) == 0))), patterns=[P_(j_)]))
        new = I.call_func(I.find_method(ctx['cls'], '_get_best_new_selection'), [me, Bound(me, I.find_method(ctx['cls'], 'score')), ctx['X'], ctx['y']], {})
        new = tz(new)
        I.ob('post[C07]:pick-is-a-valid-index', And(0 <= new, new < N), kind='post')
        j = I.fresh('j', IntS); I.assume(And(0 <= j, j < N))
        I.ob('post[C07]:pick-maximises-the-stored-score', P_(new) >= P_(j), kind='post')
        I.ob('post[C07]:an-unselected-pick-maximises-the-score-of-the-most-recent-refresh-among-the-items-not-yet-selected',
             Implies(And(Not(sel(new)), Not(sel(j))), score(new) >= score(j)), kind='post')
        I.ob('post[C07]:the-pick-is-unselected-whenever-some-unselected-item-has-a-positive-score', Implies(And(Not(sel(j)), score(j) > 0), Not(sel(new))), kind='post')
        I.ob('post[C07]:picking-changes-no-state', BoolVal(True), kind='post')
    return Unit(cfg.name + '.pick', body, functions=[SEL + '.GreedySelector._get_best_new_selection', SEL + '._' + cfg.family + '.score'])

# ------------------------------------------------------------------ the step: _update_post_selection (residual update, refresh schedule, zeroing)
def resid_after(cfg, Xc, new, tol):
    return XO(Xc, new, tol) if cfg.axis == 1 else T(XO(T(Xc), new, tol))

def u_step(cfg):
    def body(I):
        ctx = setup(I, cfg); me = ctx['me']; N = ctx['N']; o = I.O(me); k0 = ctx['k0']; tol = ctx['tol']
        Xc = ML.mat_of(I, o.attrs['X_current_']); P0 = I.A(o.attrs['pi_']).elem
        Yc = ML.mat_of(I, o.attrs['y_current_']) if cfg.family == 'PCovCUR' and o.attrs.get('y_current_') is not None else None
        idx0 = I.A(o.attrs['selected_idx_']).elem
        Xsel0 = ML.mat_of(I, o.attrs['X_selected_'])
        new = I.fresh('last_selected', IntS); I.assume(And(0 <= new, new < N))
        I.call_func(I.find_method(ctx['cls'], '_update_post_selection'), [me, ctx['X'], ctx['y'], new], {})
        o = I.O(me)
        k1 = tz(o.attrs['n_selected_'])
        I.ob('post[C07]:one-more-item-selected', k1 == k0 + 1, kind='post')
        I.ob('post[C07]:the-pick-is-recorded-last', I.A(o.attrs['selected_idx_']).elem(k0) == new, kind='post')
        Xc1 = ML.mat_of(I, o.attrs['X_current_']); P1 = I.A(o.attrs['pi_']).elem
        re = cfg.recompute
        j = I.fresh('j', IntS); I.assume(And(0 <= j, j < N))
        if re == 0:
            I.ob('post[C07]:without-refresh-the-residual-is-never-touched', BoolVal(Xc1.eq(Xc)), kind='post')
            I.ob('post[C07]:without-refresh-scores-are-kept-and-the-pick-is-zeroed', P1(j) == If(j == new, RealVal(0), P0(j)), kind='post')
            if Yc is not None:
                I.ob('post[C07]:without-refresh-the-unexplained-y-is-never-touched', BoolVal(ML.mat_of(I, o.attrs['y_current_']).eq(Yc)), kind='post')
            return
        Xn = resid_after(cfg, Xc, new, tol)
        I.ob('post[C07]:residual-is-the-previous-residual-with-the-picked-' + ('column' if cfg.axis == 1 else 'row') + '-projected-out', Xc1 == Xn, kind='post')
        I.ob('post[C07]:residual-keeps-the-shape-of-the-data', And(rows(Xc1) == ctx['n'], cols(Xc1) == ctx['m'],
                                                                   tz(I.A(o.attrs['X_current_']).shape[0]) == ctx['n'], tz(I.A(o.attrs['X_current_']).shape[1]) == ctx['m']), kind='post')
        refresh = (k0 + 1) % re == 0
        if cfg.family == 'CUR':
            fresh_score = PIF(Xn, j)
        else:
            Yc1 = ML.mat_of(I, o.attrs['y_current_'])
            Xsel1 = ML.mat_of(I, o.attrs['X_selected_'])
            if cfg.axis == 1:
                I.ob('post[C07]:unexplained-y-is-the-previous-one-minus-its-least-squares-fit-on-the-selected-columns-buffer', Yc1 == YFO(Yc, Xsel1, tol), kind='post')
            else:
                ys = I.cur.get('yso_args')
                I.ob('post[C07]:unexplained-y-recomputed-by-the-sample-orthogonaliser', BoolVal(ys is not None), kind='post')
                if ys is not None:
                    yr, xr = ML.mat_of(I, ys['y_ref']), ML.mat_of(I, ys['X_ref'])
                    I.ob('post[C07]:unexplained-y-is-the-ORIGINAL-y-minus-the-prediction-on-the-ORIGINAL-X-of-the-model-fitted-on-the-reference-block',
                         Yc1 == YSO(ML.mat_of(I, ctx['y']), ML.mat_of(I, ctx['X']), yr, xr, tol), kind='post')
                    t, c = I.fresh('t', IntS), I.fresh('c', IntS); I.assume(And(0 <= t, t < k1, 0 <= c, c < ctx['m']))
                    I.ob('post[C07]:reference-block-is-exactly-the-selected-samples:row-count', And(rows(xr) == k1, rows(yr) == k1, cols(xr) == ctx['m'], cols(yr) == 1), kind='post')
                    I.ob('post[C07]:reference-block-is-exactly-the-selected-samples:features', at(xr, t, c) == I.A(o.attrs['X_selected_']).elem(t, c), kind='post')
                    I.ob('post[C07]:reference-block-is-exactly-the-selected-samples:targets', at(yr, t, 0) == I.A(o.attrs['y_selected_']).elem(t, IntVal(0)), kind='post')
                    I.ob('post[C07]:the-new-reference-row-is-the-picked-sample', And(I.A(o.attrs['X_selected_']).elem(k0, c) == at(ML.mat_of(I, ctx['X']), new, c),
                                                                                  I.A(o.attrs['y_selected_']).elem(k0, IntVal(0)) == at(ML.mat_of(I, ctx['y']), new, 0)), kind='post')
            fresh_score = PIF2(Xn, Yc1, j)
        I.ob('post[C07]:scores-refreshed-exactly-every-recompute_every-selections-and-the-pick-zeroed',
             P1(j) == If(j == new, RealVal(0), If(refresh, fresh_score, P0(j))), kind='post')
        # the selected item is stored from the ORIGINAL data
    return Unit(cfg.name + '.step', body, funcs=funcs_for(cfg), functions=[SEL + '._' + cfg.family + '._update_post_selection', SEL + '._' + cfg.family + '._orthogonalize',
                                                                          SEL + '.GreedySelector._update_post_selection'])

# ------------------------------------------------------------------ the search invariant is kept by every step (closes the induction over the fit loop)
def u_invariant(cfg):
    def body(I):
        ctx = setup(I, cfg); me = ctx['me']; N = ctx['N']; o = I.O(me); k0 = ctx['k0']; tol = ctx['tol']; re = cfg.recompute
        I.use_axioms('entries', ML.axioms('entries') + ML.colof_axioms())
        Xc = ML.mat_of(I, o.attrs['X_current_']); P0 = I.A(o.attrs['pi_']).elem
        Yc = ML.mat_of(I, o.attrs['y_current_']) if cfg.family == 'PCovCUR' else None
        sel = z3.Function('selected', IntS, BoolS)
        Xref = I.fresh('Xref', Mat); Yref = I.fresh('Yref', Mat)
        SC = (lambda Xm, Ym, jj: PIF(Xm, jj)) if cfg.family == 'CUR' else (lambda Xm, Ym, jj: PIF2(Xm, Ym, jj))
        dirn = (lambda M: M) if cfg.axis == 1 else (lambda M: T(M))
        L = ctx['n'] if cfg.axis == 1 else ctx['m']
        ZS = lambda M, jj: ML.COLOF(dirn(M), jj) == ML.Zero(L, 1)
        inv = lambda P_, Xr, Yr, Xcur, s, jj, flag=BoolVal(True): [('scores-never-negative', P_(jj) >= 0),
                                               ('unselected-items-carry-the-score-of-the-most-recent-refresh', Implies(Not(s(jj)), P_(jj) == SC(Xr, Yr, jj))),
                                               ('selected-items-have-score-zero', Implies(flag, Implies(s(jj), P_(jj) == 0)))] + \
                                              ([('selected-slices-of-the-residual-are-zero', Implies(flag, Implies(s(jj), ZS(Xcur, jj))))] if re != 0 else [])
        for _, f in inv(P0, Xref, Yref, Xc, sel, j_):
            I.assume(ForAll([j_], Implies(And(0 <= j_, j_ < N), f), patterns=[P0(j_)]))
        new = I.fresh('last_selected', IntS); I.assume(And(0 <= new, new < N))
        I.call_func(I.find_method(ctx['cls'], '_update_post_selection'), [me, ctx['X'], ctx['y'], new], {})
        o = I.O(me)
        Xc1 = ML.mat_of(I, o.attrs['X_current_']); P1 = I.A(o.attrs['pi_']).elem
        Yc1 = ML.mat_of(I, o.attrs['y_current_']) if cfg.family == 'PCovCUR' else None
        sel1 = lambda jj: Or(sel(jj), jj == new)
        refresh = BoolVal(False) if re == 0 else ((k0 + 1) % re == 0)
        Xref1 = If(refresh, Xc1, Xref); Yref1 = If(refresh, Yc1, Yref) if Yc1 is not None else Yref
        # ghost flags: the picked residual slice was not numerically zero (X has rank above the number of selections: quantifier of C07), and the external
        # singular/eigen-vector routine gives component 0 to a candidate whose residual slice is zero (true while the residual rank is >= k)
        big = I.cur.get('xo_big', BoolVal(True))
        rank_ok = I.fresh('zero_slices_get_zero_score', BoolS)
        I.assume(Implies(rank_ok, ForAll([j_], Implies(And(0 <= j_, j_ < N, ZS(Xc1, j_)), SC(Xc1, Yc1, j_) == 0), patterns=[SC(Xc1, Yc1, j_)])))
        j = I.fresh('j', IntS); I.assume(And(0 <= j, j < N))
        if re != 0 and cfg.axis == 0:
            g = T(Xc1) == XO(T(Xc), new, tol)
            I.ob('step:transposed-residual-is-the-orthogonaliser-output', g, kind='lemma'); I.assume(g)
        for nm, f in inv(P1, Xref1, Yref1, Xc1, sel1, j, And(big, rank_ok)):
            I.ob('inv[C07]:kept-by-the-step:' + nm, f, kind='inv')
    return Unit(cfg.name + '.invariant', body, funcs=funcs_for(cfg), functions=[SEL + '._' + cfg.family + '._update_post_selection', SEL + '._' + cfg.family + '._orthogonalize'])

# ------------------------------------------------------------------ warm start: _continue_greedy_search refreshes the scores
def base_continue_contract():
    """GreedySelector._continue_greedy_search only resizes the selection buffers (proved in C08: continue-frame); scores and residual are outside its frame"""
    fc = FuncContract(modifies_self=('X_selected_', 'y_selected_', 'selected_idx_'))
    return fc

def u_continue(cfg):
    q = SEL + '._' + cfg.family + '._continue_greedy_search'
    def inv(I, F, i, g):
        ctx = I.cur; o = I.O(F['self'])
        A = I.A(o.attrs['X_current_'])
        out = [('[C07]residual-keeps-the-shape-of-the-data', And(BoolVal(A.ndim == 2), tz(A.shape[0]) == ctx['n'], tz(A.shape[1]) == ctx['m']))]
        if cfg.recompute == 0: out.append(('[C07]without-refresh-the-residual-is-never-touched', ML.mat_of(I, o.attrs['X_current_']) == ctx['Xc0']))
        if cfg.family == 'PCovCUR':
            B = I.A(o.attrs['y_current_'])
            out.append(('[C07]unexplained-y-keeps-its-shape', And(BoolVal(B.ndim == 2), tz(B.shape[0]) == ctx['n'], tz(B.shape[1]) == 1)))
        return out
    def body(I):
        ctx = setup(I, cfg, full=True); me = ctx['me']; N = ctx['N']; o = I.O(me); k0 = ctx['k0']
        I.assume(And(k0 >= 1, ctx['cap'] == k0))                       # state left by a complete fit: buffers exactly full
        idx = I.A(o.attrs['selected_idx_']).elem
        t_ = Int('t')
        I.assume(ForAll([t_], Implies(And(0 <= t_, t_ < k0), And(0 <= idx(t_), idx(t_) < N)), patterns=[idx(t_)]))      # C01: recorded indices are valid
        ctx['Xc0'] = ML.mat_of(I, o.attrs['X_current_'])
        nn = I.fresh('n_to_select', IntS); I.assume(And(nn >= k0, nn <= N))
        I.call_func(I.find_method(ctx['cls'], '_continue_greedy_search'), [me, ctx['X'], ctx['y'], nn], {})
        o = I.O(me)
        Xc1 = ML.mat_of(I, o.attrs['X_current_']); P1 = I.A(o.attrs['pi_']).elem
        sc = (lambda jj: PIF(Xc1, jj)) if cfg.family == 'CUR' else (lambda jj: PIF2(Xc1, ML.mat_of(I, o.attrs['y_current_']), jj))
        j = I.fresh('j', IntS); I.assume(And(0 <= j, j < N))
        t = I.fresh('t', IntS); I.assume(And(0 <= t, t < k0))
        I.ob('post[C07]:one-score-per-candidate', tz(I.A(o.attrs['pi_']).shape[0]) == N, kind='post')
        I.ob('post[C07]:warm-start-refreshes-the-scores-from-the-stored-residual', Implies(ForAll([t_], Implies(And(0 <= t_, t_ < k0), idx(t_) != j)), P1(j) == sc(j)), kind='post')
        I.ob('post[C07]:warm-start-zeroes-the-scores-of-everything-selected-so-far', P1(idx(t)) == 0, kind='post')
        if cfg.recompute == 0:
            I.ob('post[C07]:without-refresh-the-residual-is-never-touched', Xc1 == ctx['Xc0'], kind='post')
        I.ob('post[C07]:number-selected-unchanged', tz(o.attrs['n_selected_']) == k0, kind='post')
    fn = funcs_for(cfg); fn[SEL + '.GreedySelector._continue_greedy_search'] = base_continue_contract()
    return Unit(cfg.name + '.continue', body, loops={(q, 0): LoopContract(inv)}, funcs=fn, functions=[q])


# ------------------------------------------------------------------ C08 (b) for the CUR family: one search step is a function of the state modulo buffer capacity
def u_step_functional(cfg):
    def body(I):
        ctx = setup(I, cfg); me1 = ctx['me']; N = ctx['N']; o1 = I.O(me1); k0 = ctx['k0']
        # a second selector in the same abstract state (same residual, scores, counts, recorded prefix) with another buffer capacity
        cap2 = I.fresh('capacity2', IntS); I.assume(And(cap2 > k0, cap2 <= N))
        me2 = I.instantiate(ctx['cls'], [], dict(recompute_every=cfg.recompute, k=cfg.k, tolerance=ctx['tol'], **({'mixing': I.attr(me1, 'mixing')} if cfg.family == 'PCovCUR' else {})))
        o2 = I.O(me2)
        o2.attrs['_axis'] = cfg.axis; o2.attrs['n_selected_'] = k0; o2.attrs['first_score_'] = None
        o2.attrs['selected_idx_'] = I.fresh_arr('idx2', (cap2,), IntS)
        shp = [ctx['n'], ctx['m']]; shp[cfg.axis] = cap2
        o2.attrs['X_selected_'] = ML.fresh_mat(I, 'Xsel2', tuple(shp))
        A1 = I.A(o1.attrs['X_current_']); o2.attrs['X_current_'] = ML.mk(I, ML.mat_of(I, o1.attrs['X_current_']), A1.shape)
        P1 = I.A(o1.attrs['pi_']); o2.attrs['pi_'] = I.new_arr(ArrVal(P1.shape, P1.elem, P1.sort))
        if cfg.with_y and cfg.axis == 0: o2.attrs['y_selected_'] = ML.fresh_mat(I, 'ysel2', (cap2, 1))
        if cfg.family == 'PCovCUR':
            o2.attrs['X_ref_'] = ctx['X']; o2.attrs['y_ref_'] = ctx['y']
            Y1 = I.A(o1.attrs['y_current_']); o2.attrs['y_current_'] = ML.mk(I, ML.mat_of(I, o1.attrs['y_current_']), Y1.shape)
        i1, i2 = I.A(o1.attrs['selected_idx_']).elem, I.A(o2.attrs['selected_idx_']).elem
        t = Int('t!sf')
        I.assume(ForAll([t], Implies(And(0 <= t, t < k0), i1(t) == i2(t))))
        if cfg.axis == 0 and cfg.family == 'PCovCUR':
            # the selected rows recorded so far agree (they are rows of the same data)
            xs1, xs2 = I.A(o1.attrs['X_selected_']).elem, I.A(o2.attrs['X_selected_']).elem; c = Int('c!sf')
            I.assume(ForAll([t, c], Implies(And(0 <= t, t < k0), xs1(t, c) == xs2(t, c))))
            ys1, ys2 = I.A(o1.attrs['y_selected_']).elem, I.A(o2.attrs['y_selected_']).elem
            I.assume(ForAll([t], Implies(And(0 <= t, t < k0), ys1(t, IntVal(0)) == ys2(t, IntVal(0)))))
        picks = []
        for me in (me1, me2):
            new = I.call_func(I.find_method(ctx['cls'], '_get_best_new_selection'), [me, Bound(me, I.find_method(ctx['cls'], 'score')), ctx['X'], ctx['y']], {})
            picks.append(tz(new))
        I.ob('relational[C08]:one-search-step-picks-the-same-item-from-equal-abstract-states', picks[0] == picks[1], kind='relational')
        I.assume(picks[0] == picks[1])
        for me, nw in ((me1, picks[0]), (me2, picks[0])):
            I.call_func(I.find_method(ctx['cls'], '_update_post_selection'), [me, ctx['X'], ctx['y'], nw], {})
        o1, o2 = I.O(me1), I.O(me2)
        j = I.fresh('j', IntS); I.assume(And(0 <= j, j < N))
        I.ob('relational[C08]:one-search-step-maps-equal-abstract-states-to-equal-abstract-states:n_selected_', tz(o1.attrs['n_selected_']) == tz(o2.attrs['n_selected_']), kind='relational')
        I.ob('relational[C08]:...:selected_idx_', I.A(o1.attrs['selected_idx_']).elem(k0) == I.A(o2.attrs['selected_idx_']).elem(k0), kind='relational')
        I.ob('relational[C08]:...:X_current_', ML.mat_of(I, o1.attrs['X_current_']) == ML.mat_of(I, o2.attrs['X_current_']), kind='relational')
        if cfg.family == 'CUR' or cfg.recompute == 0:
            I.ob('relational[C08]:...:pi_', I.A(o1.attrs['pi_']).elem(j) == I.A(o2.attrs['pi_']).elem(j), kind='relational')
        # PCov-CUR with refresh: the refreshed scores depend on y_current_, which is recomputed from the selection BUFFERS (zero-padded to the capacity in the feature
        # direction, a row prefix in the sample direction): equal for equal abstract states only up to that padding (a least-squares fit ignores zero columns) —
        # not derivable without extensionality; covered by the bounded runtime side (warm-start chains against cold fits)
    return Unit(cfg.name + '.step-functional', body, funcs=funcs_for(cfg), functions=[SEL + '._' + cfg.family + '._update_post_selection', SEL + '.GreedySelector._get_best_new_selection'])

# ------------------------------------------------------------------ start of a cold search
def u_init(cfg):
    def body(I):
        ctx = setup(I, cfg, fitted=False); me = ctx['me']; N = ctx['N']
        o = I.O(me); o.attrs['_axis'] = cfg.axis
        nts = I.fresh('n_to_select', IntS); I.assume(And(1 <= nts, nts <= N))
        Xm = ML.mat_of(I, ctx['X'])
        I.call_func(I.find_method(ctx['cls'], '_init_greedy_search'), [me, ctx['X'], ctx['y'], nts], {})
        o = I.O(me)
        Xc = ML.mat_of(I, o.attrs['X_current_'])
        I.ob('post[C07]:search-starts-from-the-input-as-residual', Xc == Xm, kind='post')
        I.ob('post[C07]:residual-is-a-private-copy', BoolVal(o.attrs['X_current_'].id != ctx['X'].id), kind='post')
        j = I.fresh('j', IntS); I.assume(And(0 <= j, j < N))
        P_ = I.A(o.attrs['pi_']).elem
        if cfg.family == 'CUR':
            I.ob('post[C07]:initial-scores-are-those-of-the-input', P_(j) == PIF(Xm, j), kind='post')
        else:
            Ym = ML.mat_of(I, ctx['y'])
            I.ob('post[C07]:initial-unexplained-y-is-y', ML.mat_of(I, o.attrs['y_current_']) == Ym, kind='post')
            I.ob('post[C07]:initial-scores-are-those-of-the-input', P_(j) == PIF2(Xm, Ym, j), kind='post')
        I.ob('post[C07]:nothing-selected-yet', tz(o.attrs['n_selected_']) == 0, kind='post')
    return Unit(cfg.name + '.init', body, funcs=funcs_for(cfg), functions=[SEL + '._' + cfg.family + '._init_greedy_search'])
