"""Contracts for PCovR (C03, C04, C14): both fitting routes against the documented projectors, over the matrix layer.

Modular (assumed, conformance-tested at run time): _decompose_full/_decompose_truncated return the leading-k part of the spectral
decomposition of a symmetric PSD matrix M:  Vt Vt^T = I_k,  M Vt^T = Vt^T diag(S),  U = Vt^T,  S non-increasing and >= 0."""
from pyvc.api import *
from pyvc import matlayer as ML, skstubs
from pyvc.matlayer import Mat, mul, add, sub, T, smul, Id, at, rows, cols, isdiag, tr, fro2
from pyvc.engine import ExtNS, ExtClass, Opaque

PC = 'skmatter.decomposition._pcovr.PCovR'
i_, j_ = Int('i'), Int('j')

def extend_ext(ext):
    ML.install(ext); skstubs.install(ext)
    ext['modules']['np'].linalg.lstsq = lstsq_stub
    ext['modules']['np'].real = lambda I, a: a
    ext['super_methods']['transform'] = base_pca_transform
    rc = ExtClass('Ridge'); rc.ctor = lambda I, **kw: skstubs.StubObj(kind='Ridge', **kw)
    ext['names']['sklearn.linear_model.Ridge'] = rc
    ext['modules']['scipy'] = ExtNS('scipy', linalg=ExtNS('scipy.linalg'), sparse=ExtNS('scipy.sparse', linalg=ExtNS('scipy.sparse.linalg')))
    for k in ('numpy.linalg.LinAlgError', 'scipy.linalg.sqrtm', 'scipy.sparse.linalg.svds', 'sklearn.decomposition._base._BasePCA', 'sklearn.decomposition._pca._infer_dimension',
              'sklearn.linear_model.LinearRegression', 'sklearn.linear_model.Ridge', 'sklearn.linear_model.RidgeCV', 'sklearn.linear_model._base.LinearModel',
              'sklearn.utils._arpack._init_arpack_v0', 'sklearn.utils.extmath.randomized_svd', 'sklearn.utils.extmath.stable_cumsum', 'sklearn.utils.extmath.svd_flip',
              'sklearn.utils.check_array', 'sklearn.utils.validation.check_X_y', 'sklearn.utils.validation.check_is_fitted'):
        ext['names'].setdefault(k, ExtClass(k.split('.')[-1]))
    ext['names']['scipy.linalg'] = ext['modules']['scipy'].linalg

def decompose_contract():
    """leading-k spectral decomposition of the symmetric PSD matrix handed in (assumed contract of LAPACK svd + svd_flip / ARPACK / randomized SVD)"""
    def requires(I, F):
        M = ML.mat_of(I, F['mat'])
        return [('matrix-is-symmetric', T(M) == M), ('matrix-is-square', rows(M) == cols(M))]
    def make_result(I, F):
        me = F['self']; k = tz(I.attr(me, 'n_components_')); M = ML.mat_of(I, F['mat']); n = I.A(F['mat']).shape[0]
        Vt = ML.fresh_mat(I, 'Vt', (conc(k), n)); V = ML.mat_of(I, Vt)
        S = I.fresh_arr('S', (conc(k),)); Sf = I.A(S).elem
        I.st.nfresh += 1
        DS = z3.Const(f"DS!{I.st.nfresh}", Mat)
        I.assume(And(rows(DS) == k, cols(DS) == k, isdiag(DS), ForAll([i_], at(DS, i_, i_) == Sf(i_), patterns=[at(DS, i_, i_)])))
        I.assume(mul(V, T(V)) == Id(k))
        I.assume(mul(M, T(V)) == mul(T(V), DS))
        I.assume(ForAll([i_, j_], Implies(And(0 <= i_, i_ <= j_, j_ < k), And(Sf(i_) >= Sf(j_), Sf(j_) >= 0))))
        U = ML.mk(I, T(V), (n, conc(k)))
        I.cur['DS'] = DS; I.cur['S'] = Sf; I.cur['V'] = V; I.cur['Mdec'] = M
        return (U, S, Vt)
    return FuncContract(requires=requires, make_result=make_result)

def base_inputs(I):
    n, m, p, k = I.fresh('n', IntS), I.fresh('m', IntS), I.fresh('p', IntS), I.fresh('k', IntS)
    I.assume(And(n >= 2, m >= 1, p >= 1, k >= 1, k <= n, k <= m))
    I.use_axioms('entries', ML.axioms('entries')); I.use_axioms('ring', ML.axioms('ring'))
    X = ML.fresh_mat(I, 'X', (n, m)); Y = ML.fresh_mat(I, 'Y', (n, p)); W = ML.fresh_mat(I, 'W', (m, p))
    alpha = I.fresh('mixing', RealS); tol = I.fresh('tol', RealS)
    I.assume(And(0 <= alpha, alpha <= 1, tol >= 0))
    return n, m, p, k, X, Y, W, alpha, tol

def u_sample_space():
    def body(I):
        n, m, p, k, X, Y, W, alpha, tol = base_inputs(I)
        I.cur = {}
        Xm, Ym, Wm = ML.mat_of(I, X), ML.mat_of(I, Y), ML.mat_of(I, W)
        # regressor without intercept (C14 quantifier): the approximated targets are X W
        Yhat = ML.mk(I, mul(Xm, Wm), (n, p)); Yh = mul(Xm, Wm)
        cls = I.repo.get(PC)
        me = I.new_obj(cls, dict(mixing=alpha, tol=tol, fit_svd_solver_='full', n_components_=k, n_samples_in_=n, n_features_in_=m, svd_solver='full'))
        I.call_func(I.find_method(cls, '_fit_sample_space'), [me, X, Y, Yhat, W], {})
        o = I.O(me)
        pxt, ptx, pty = (ML.mat_of(I, o.attrs[a]) for a in ('pxt_', 'ptx_', 'pty_'))
        DS, Sf, V = I.cur['DS'], I.cur['S'], I.cur['V']
        Kt = add(smul(alpha, mul(Xm, T(Xm))), smul(1 - alpha, mul(Yh, T(Yh))))
        I.ob('post[C03]:decomposed-matrix-is-the-modified-gram-matrix-alpha-XXt-plus-(1-alpha)-YhatYhatt', I.cur['Mdec'] == Kt, kind='post')
        I.ob('post[C04]:at-mixing-one-the-decomposed-matrix-is-the-plain-gram-matrix-XXt', Implies(alpha == 1, I.cur['Mdec'] == mul(Xm, T(Xm))), kind='post')
        I.ob('post[C04]:at-mixing-zero-the-decomposed-matrix-is-the-gram-matrix-of-the-approximated-targets', Implies(alpha == 0, I.cur['Mdec'] == mul(Yh, T(Yh))), kind='post')
        D = I.cur['diags'][-1]
        I.ob('post[C03]:scaling-matrix-is-S^-1/2-with-the-tolerance-cut', ForAll([i_], Implies(And(0 <= i_, i_ < k), at(D, i_, i_) == If(Sf(i_) > tol, 1 / npstubs.SQRT(Sf(i_)), RealVal(0)))), kind='post')
        P = add(smul(alpha, T(Xm)), smul(1 - alpha, mul(Wm, T(Yh))))
        Tm = mul(T(V), D)
        I.ob('post[C03]:projector-X-to-latent-is-(alpha-Xt+(1-alpha)-W-Yhatt)-V-S^-1/2', pxt == mul(P, Tm), kind='post')
        I.ob('post[C03]:projector-latent-to-X-is-S^-1/2-Vt-X', ptx == mul(T(Tm), Xm), kind='post')
        I.ob('post[C03]:projector-latent-to-Y-is-S^-1/2-Vt-Y', pty == mul(T(Tm), Ym), kind='post')
        # retained eigenvalues above the tolerance (C14 quantifier: non-degenerate retained spectrum)
        I.assume(ForAll([i_], Implies(And(0 <= i_, i_ < k), Sf(i_) > tol)))
        ML.mat_ext(I, 'S^-1/2-S-S^-1/2-is-the-identity', mul(D, mul(DS, D)), Id(k), k, k)
        ML.mat_ext(I, 'S^-1/2-S-is-S^1/2-and-squares-to-S', mul(mul(DS, D), mul(D, DS)), DS, k, k)
        I.ob('post[C14]:latent-to-X-after-X-to-latent-is-the-identity-on-the-latent-space', mul(ptx, pxt) == Id(k), kind='post')
        Tl = mul(Xm, pxt)
        I.ob('post[C14]:training-projections-are-eigenvectors-of-the-modified-gram-matrix', mul(Kt, Tl) == mul(Tl, DS), kind='post')
        I.ob('post[C14]:training-projections-are-orthogonal-with-squared-norms-the-retained-eigenvalues', mul(T(Tl), Tl) == DS, kind='post')
    return Unit('PCovR._fit_sample_space', body, funcs={PC + '._decompose_full': decompose_contract(), PC + '._decompose_truncated': decompose_contract()},
                functions=[PC + '._fit_sample_space', 'skmatter.utils._pcovr_utils.pcovr_kernel'])

def lstsq_stub(I, A, B, rcond=None, **kw):
    """np.linalg.lstsq(A, B)[0] = pinv(A) B (minimum-norm least squares; assumed contract of LAPACK gelsd)"""
    npstubs.used('np.linalg.lstsq (= pinv(A) B)')
    Am, Bm = ML.mat_of(I, A), ML.mat_of(I, B)
    ML.shape_eq(I, I.A(A).shape[0], I.A(B).shape[0], 'np.linalg.lstsq')
    R = ML.mk(I, mul(ML.pinv(Am), Bm), (I.A(A).shape[1], I.A(B).shape[1]))
    return (R, Opaque('residuals'), Opaque('rank'), Opaque('sv'))

def pinv_axioms():
    A = z3.Const('A!pi', Mat)
    return [ForAll([A], And(rows(ML.pinv(A)) == cols(A), cols(ML.pinv(A)) == rows(A)), patterns=[ML.pinv(A)]),
            ForAll([A], mul(A, mul(ML.pinv(A), A)) == A, patterns=[ML.pinv(A)]),
            ForAll([A], Implies(T(A) == A, And(T(ML.pinv(A)) == ML.pinv(A), mul(ML.pinv(A), A) == mul(A, ML.pinv(A)))), patterns=[ML.pinv(A)])]

def covariance_contract():
    """pcovr_covariance(mixing, X, Y, return_isqrt=True) -> (C~, C^-1/2): modular contract (its body — eigh, rank cut, C^-1/2 — is conformance-tested at run time)
    C^-1/2 symmetric; P = pinv(C^-1/2) C^-1/2 is the projector on range(X^T X): P X^T X = X^T X, P C^-1/2 = C^-1/2;
    C~ = alpha X^T X + (1 - alpha) C^-1/2 X^T Y Y^T X C^-1/2"""
    def requires(I, F):
        return [('isqrt-requested', BoolVal(F['return_isqrt'] is True))]
    def make_result(I, F):
        Xm, Ym = ML.mat_of(I, F['X']), ML.mat_of(I, F['Y']); m = I.A(F['X']).shape[1]
        al = to_real(tz(F['mixing']))
        iC = ML.fresh_mat(I, 'iCsqrt', (m, m)); iCm = ML.mat_of(I, iC)
        C = mul(T(Xm), Xm)
        Pj = mul(ML.pinv(iCm), iCm)
        I.assume(And(T(iCm) == iCm, mul(Pj, C) == C, mul(Pj, iCm) == iCm, mul(C, Pj) == C, mul(iCm, Pj) == iCm))
        G = mul(iCm, mul(T(Xm), Ym))
        Ct = add(smul(al, C), smul(1 - al, mul(G, T(G))))
        I.cur['iC'] = iCm; I.cur['Ct'] = Ct; I.cur['cov_args'] = (F['mixing'], F['X'], F['Y'], F['rcond'])
        return (ML.mk(I, Ct, (m, m)), iC)
    return FuncContract(requires=requires, make_result=make_result)

def u_feature_space():
    def body(I):
        n, m, p, k, X, Y, W, alpha, tol = base_inputs(I)
        I.use_axioms('ring', ML.axioms('ring') + pinv_axioms())
        I.cur = {}
        Xm, Ym, Wm = ML.mat_of(I, X), ML.mat_of(I, Y), ML.mat_of(I, W)
        Yhat = ML.mk(I, mul(Xm, Wm), (n, p)); Yh = mul(Xm, Wm)
        cls = I.repo.get(PC)
        me = I.new_obj(cls, dict(mixing=alpha, tol=tol, fit_svd_solver_='full', n_components_=k, n_samples_in_=n, n_features_in_=m, svd_solver='full'))
        I.call_func(I.find_method(cls, '_fit_feature_space'), [me, X, Y, Yhat], {})
        o = I.O(me)
        pxt, ptx, pty = (ML.mat_of(I, o.attrs[a]) for a in ('pxt_', 'ptx_', 'pty_'))
        DS, Sf, V, iC, Ct = I.cur['DS'], I.cur['S'], I.cur['V'], I.cur['iC'], I.cur['Ct']
        mx, Xa, Ya, rc = I.cur['cov_args']
        I.ob('post[C03]:modified-covariance-built-from-the-configured-mixing-the-data-and-the-approximated-targets',
             And(BoolVal(is_sym(mx) and z3.eq(mx, alpha)), BoolVal(Xa.id == X.id), ML.mat_of(I, Ya) == Yh, BoolVal(is_sym(rc) and z3.eq(rc, tol))), kind='post')
        I.ob('post[C03]:decomposed-matrix-is-the-modified-covariance', I.cur['Mdec'] == Ct, kind='post')
        Dsq, Dinv = I.cur['diags'][-2], I.cur['diags'][-1]
        I.ob('post[C03]:scaling-matrices-are-S^1/2-and-S^-1/2-with-the-tolerance-cut',
             ForAll([i_], Implies(And(0 <= i_, i_ < k), And(at(Dsq, i_, i_) == If(Sf(i_) > tol, npstubs.SQRT(Sf(i_)), RealVal(0)), at(Dinv, i_, i_) == If(Sf(i_) > tol, 1 / npstubs.SQRT(Sf(i_)), RealVal(0))))), kind='post')
        Cs = ML.pinv(iC)
        I.ob('post[C03]:projector-X-to-latent-is-C^-1/2-V-S^1/2', pxt == mul(iC, mul(T(V), Dsq)), kind='post')
        I.ob('post[C03]:projector-latent-to-X-is-S^-1/2-Vt-C^1/2', ptx == mul(Dinv, mul(V, Cs)), kind='post')
        I.ob('post[C03]:projector-latent-to-Y-is-S^-1/2-Vt-C^-1/2-Xt-Y', pty == mul(Dinv, mul(V, mul(iC, mul(T(Xm), Ym)))), kind='post')
        I.assume(ForAll([i_], Implies(And(0 <= i_, i_ < k), Sf(i_) > tol)))
        # proof steps: diagonal algebra by extensionality, then the retained eigenvectors lie in the range of C^-1/2
        I.st.nfresh += 1
        DSinv = z3.Const(f"DSinv!{I.st.nfresh}", Mat)
        I.assume(And(rows(DSinv) == k, cols(DSinv) == k, isdiag(DSinv), ForAll([i_], Implies(And(0 <= i_, i_ < k), at(DSinv, i_, i_) * Sf(i_) == 1), patterns=[at(DSinv, i_, i_)])))
        ML.mat_ext(I, 'S-times-S^-1-is-the-identity', mul(DS, DSinv), Id(k), k, k)
        ML.mat_ext(I, 'S^-1/2-times-S^1/2-is-the-identity', mul(Dinv, Dsq), Id(k), k, k)
        ML.mat_ext(I, 'S^1/2-times-S^1/2-is-S', mul(Dsq, Dsq), DS, k, k)
        Pj = mul(Cs, iC)
        I.ob('step:projector-on-range-fixes-the-modified-covariance', mul(Pj, Ct) == Ct, kind='lemma'); I.assume(mul(Pj, Ct) == Ct)
        st1 = mul(mul(Ct, T(V)), DSinv) == T(V)
        I.ob('step:eigenvectors-are-images-under-the-modified-covariance', st1, kind='lemma'); I.assume(st1)
        st2 = mul(Pj, mul(mul(Ct, T(V)), DSinv)) == mul(mul(Ct, T(V)), DSinv)
        I.ob('step:projector-fixes-images-of-the-modified-covariance', st2, kind='lemma'); I.assume(st2)
        I.ob('step:retained-eigenvectors-are-in-the-range-of-C^-1/2', mul(Pj, T(V)) == T(V), kind='lemma'); I.assume(mul(Pj, T(V)) == T(V))
        I.ob('post[C14]:latent-to-X-after-X-to-latent-is-the-identity-on-the-latent-space', mul(ptx, pxt) == Id(k), kind='post')
    return Unit('PCovR._fit_feature_space', body, funcs={PC + '._decompose_full': decompose_contract(), PC + '._decompose_truncated': decompose_contract(),
                                                          'skmatter.utils._pcovr_utils.pcovr_covariance': covariance_contract()},
                functions=[PC + '._fit_feature_space'])

class RegStub:
    """a fitted linear regressor without intercept: coef_ = W^T, predict(X) = X W (contract of sklearn Ridge/LinearRegression(fit_intercept=False))"""
    def __init__(self, I, Wm, m, p, y1d):
        self.I, self.Wm, self.m, self.p, self.y1d = I, Wm, m, p, y1d
        coef = ML.mk(I, T(Wm), (conc(p), conc(m)))
        if y1d:
            C = I.A(coef); coef = I.new_arr(ArrVal((conc(m),), lambda j: at(Wm, tz(j), 0), RealS))
        def predict(I2, X):
            Xm = ML.mat_of(I2, X)
            I2.cur['predict_arg'] = X
            R = ML.mk(I2, mul(Xm, Wm), (I2.A(X).shape[0], conc(p)))
            if y1d:
                n = I2.A(X).shape[0]; Mx = mul(Xm, Wm)
                return I2.new_arr(ArrVal((n,), lambda i: at(Mx, tz(i), 0), RealS))
            return R
        self._pyvc_attrs = dict(coef_=coef, predict=predict)

def check_lr_fit_contract():
    def make_result(I, F):
        I.cur['lr_args'] = (F['regressor'], F['X'], F['y'])
        return I.cur['regstub']
    return FuncContract(make_result=make_result)

def base_pca_transform(I, me):
    """sklearn _BasePCA.transform (whiten=False): (X - mean_) @ components_.T   [assumed contract of the external base class]"""
    def f(I2, X):
        npstubs.used('sklearn _BasePCA.transform = (X - mean_) components_^T')
        o = I2.O(me)
        if o.attrs.get('whiten'): raise Unsupported('whiten=True')
        Xm = ML.mat_of(I2, X); Cm = ML.mat_of(I2, o.attrs['components_'])
        I2.cur['transform_used_mean'] = True
        ML.shape_eq(I2, I2.A(X).shape[1], I2.A(o.attrs['components_']).shape[1], '_BasePCA.transform')
        # centred training data (C14 quantifier): mean_ is (numerically) zero, the subtraction is the identity
        return ML.mk(I2, mul(Xm, T(Cm)), (I2.A(X).shape[0], I2.A(o.attrs['components_']).shape[0]))
    return f

def u_fit(space, y1d=False, precomputed=False):
    def body(I):
        n, m, p, k, X, Y, W, alpha, tol = base_inputs(I)
        I.use_axioms('ring', ML.axioms('ring') + pinv_axioms())
        I.cur = {}
        if y1d: I.assume(p == 1)
        Xm, Wm = ML.mat_of(I, X), ML.mat_of(I, W)
        Yin = Y
        if y1d:
            Ym0 = ML.mat_of(I, Y); Yin = I.new_arr(ArrVal((n,), lambda i: at(Ym0, tz(i), 0), RealS))
        I.cur['regstub'] = RegStub(I, Wm, m, p, y1d)
        cls = I.repo.get(PC)
        kw = dict(mixing=alpha, n_components=k, tol=tol, space=space, svd_solver='full')
        if precomputed: kw['regressor'] = 'precomputed'
        me = I.instantiate(cls, [], kw)
        # quantifier of the property: explicit space must be usable; 'auto' decides by shape
        r = I.call_func(I.find_method(cls, 'fit'), [me, X, Yin], {})
        o = I.O(me)
        I.ob('post[C09]:fit-returns-self', BoolVal(isinstance(r, ObjRef) and r.id == me.id), kind='post')
        sp = o.attrs['space_']
        exp_feature = (space == 'feature') or (space == 'auto' and I.cur.get('auto_feature'))
        I.ob('post[C03]:space-is-the-requested-one-or-feature-space-exactly-when-samples-outnumber-features', BoolVal(sp in ('feature', 'sample') and (space == 'auto' or sp == space)), kind='post')
        if space == 'auto':
            I.ob('post[C03]:auto-space-follows-the-shape', (n > m) if sp == 'feature' else (n <= m), kind='post')
        pxt, pty = ML.mat_of(I, o.attrs['pxt_']), None
        # end to end: which matrices fit hands to the route it takes (the roles of X, the true targets Y and the approximated targets Yhat = X W must not be mixed up)
        Ym_ = ML.mat_of(I, Y); V_ = I.cur.get('V'); dg_ = list(I.cur.get('diags', []))
        Yh_ = Ym_ if precomputed else mul(Xm, Wm)          # regressor='precomputed': the targets handed in ARE the approximated targets
        if y1d: pass
        elif sp == 'feature':
            ca = I.cur.get('cov_args')
            I.ob('post[C03]:fit-builds-the-modified-covariance-from-the-configured-mixing-the-data-and-the-regressor-predictions',
                 BoolVal(False) if ca is None else And(BoolVal(is_sym(ca[0]) and z3.eq(ca[0], alpha)), BoolVal(ca[1].id == X.id), ML.mat_of(I, ca[2]) == Yh_, BoolVal(is_sym(ca[3]) and z3.eq(ca[3], tol))), kind='post')
            if not y1d:
                I.ob('post[C03]:fit-computes-the-latent-to-Y-projector-from-the-true-targets',
                     BoolVal(False) if (V_ is None or not dg_ or 'iC' not in I.cur) else ML.mat_of(I, o.attrs['pty_']) == mul(dg_[-1], mul(V_, mul(I.cur['iC'], mul(T(Xm), Ym_)))), kind='post')
        elif sp == 'sample':
            Kt_ = add(smul(alpha, mul(Xm, T(Xm))), smul(1 - alpha, mul(Yh_, T(Yh_))))
            I.ob('post[C03]:fit-decomposes-the-modified-gram-matrix-of-the-data-and-the-regressor-predictions', BoolVal(False) if 'Mdec' not in I.cur else I.cur['Mdec'] == Kt_, kind='post')
            if not y1d:
                I.ob('post[C03]:fit-computes-the-latent-to-Y-projector-from-the-true-targets',
                     BoolVal(False) if (V_ is None or not dg_) else ML.mat_of(I, o.attrs['pty_']) == mul(T(mul(T(V_), dg_[-1])), Ym_), kind='post')
        PXY = I.A(o.attrs['pxy_']); PTY = I.A(o.attrs['pty_'])
        if y1d:
            I.ob('post[C14]:one-dimensional-targets-give-one-dimensional-coefficient-vectors', BoolVal(PXY.ndim == 1 and PTY.ndim == 1) if not (PXY.ndim == 1 and PTY.ndim == 1) else And(tz(PXY.shape[0]) == m, tz(PTY.shape[0]) == k), kind='post')
        else:
            ptym = ML.mat_of(I, o.attrs['pty_']); pxym = ML.mat_of(I, o.attrs['pxy_'])
            I.ob('post[C14]:X-to-Y-projector-is-X-to-latent-times-latent-to-Y', pxym == mul(pxt, ptym), kind='post')
            Xn = ML.fresh_mat(I, 'Xnew', (I.fresh('n_new', IntS), m)); Xnm = ML.mat_of(I, Xn)
            I.ob('post[C14]:predicting-from-X-equals-predicting-from-its-latent-projection', mul(Xnm, pxym) == mul(mul(Xnm, pxt), ptym), kind='post')
        I.ob('post[C14]:components-are-the-transposed-X-to-latent-projector', ML.mat_of(I, o.attrs['components_']) == T(pxt), kind='post')
        if not precomputed:
            rg, Xa, ya = I.cur['lr_args']
            I.ob('post[C03]:regressor-is-fitted-on-the-data-and-targets', BoolVal(Xa.id == X.id and ya.id == Yin.id), kind='post')
            I.ob('post[C03]:approximated-targets-are-the-regressor-predictions-on-the-training-data', BoolVal(I.cur.get('predict_arg') is not None and I.cur['predict_arg'].id == X.id), kind='post')
        # derived methods on the fitted estimator
        nn = I.fresh('n_test', IntS); I.assume(nn >= 1)
        Xt = ML.fresh_mat(I, 'Xtest', (nn, m)); Xtm = ML.mat_of(I, Xt)
        Tt = I.call_func(I.find_method(cls, 'transform'), [me, Xt], {})
        I.ob('post[C14]:transform-is-X-times-the-X-to-latent-projector', ML.mat_of(I, Tt) == mul(Xtm, pxt), kind='post')
        ptx = ML.mat_of(I, o.attrs['ptx_'])
        Xr = I.call_func(I.find_method(cls, 'inverse_transform'), [me, Tt], {})
        I.ob('post[C14]:inverse-transform-is-T-times-the-latent-to-X-projector', ML.mat_of(I, Xr) == mul(mul(Xtm, pxt), ptx), kind='post')
        if not y1d:
            Yp = I.call_func(I.find_method(cls, 'predict'), [me], dict(X=Xt))
            Yp2 = I.call_func(I.find_method(cls, 'predict'), [me], dict(T=Tt))
            I.ob('post[C14]:predict-from-X-and-from-its-projection-agree', ML.mat_of(I, Yp) == ML.mat_of(I, Yp2), kind='post')
            Yt = ML.fresh_mat(I, 'Ytest', (nn, p)); Ytm = ML.mat_of(I, Yt)
            sc = I.call_func(I.find_method(cls, 'score'), [me, Xt, Yt], {})
            Tm_ = mul(Xtm, pxt)
            # the reconstructions used by score are the ones proved above (assumed here as equalities of the code's terms with the spec terms)
            e1 = ML.mat_of(I, Xr) == mul(Tm_, ptx); e2 = ML.mat_of(I, Yp2) == mul(Tm_, ptym)
            I.ob('step:reconstructions-used-by-score', And(e1, e2), kind='lemma'); I.assume(e1); I.assume(e2)
            lx = ML.fro2(sub(Xtm, mul(Tm_, ptx))); ly = ML.fro2(sub(Ytm, mul(Tm_, ptym)))
            I.ob('post[C14]:score-is-minus-the-sum-of-the-two-relative-reconstruction-losses',
                 Implies(And(ML.fro2(Xtm) > 0, ML.fro2(Ytm) > 0), tz(sc) == -(lx / ML.fro2(Xtm) + ly / ML.fro2(Ytm))), kind='post')
    funcs = {PC + '._decompose_full': decompose_contract(), PC + '._decompose_truncated': decompose_contract(),
             'skmatter.utils._pcovr_utils.pcovr_covariance': covariance_contract(), 'skmatter.utils._pcovr_utils.check_lr_fit': check_lr_fit_contract()}
    return Unit(f"PCovR.fit[{space},{'y1d' if y1d else 'y2d'}{',precomputed' if precomputed else ''}]", body, funcs=funcs,
                functions=[PC + '.fit', PC + '.transform', PC + '.inverse_transform', PC + '.predict', PC + '.score'])

def objective_lemma():
    """C04: for any orthonormal basis Q of a k-dimensional subspace of sample space, the mixed reconstruction loss is a constant minus
    tr(Q^T K~ Q); hence (Ky Fan, cited) it is minimised by the leading eigenvectors of K~, which is what PCovR retains."""
    X, Yh, Q = z3.Consts('X!l Yh!l Q!l', Mat); al = Real('alpha!l'); k = Int('k!l')
    P = mul(Q, T(Q))
    hyp = ML.axioms() + [mul(T(Q), Q) == Id(k), cols(Q) == k, rows(Q) == rows(X), rows(Yh) == rows(X), 0 <= al, al <= 1]
    Kt = add(smul(al, mul(X, T(X))), smul(1 - al, mul(Yh, T(Yh))))
    lossX = fro2(sub(X, mul(P, X))); lossY = fro2(sub(Yh, mul(P, Yh)))
    steps = [('projector-is-idempotent-and-symmetric', hyp, And(mul(P, P) == P, T(P) == P))]
    h2 = hyp + [mul(P, P) == P, T(P) == P]
    steps.append(('loss-of-a-projection-is-norm-minus-captured-part[X]', h2, lossX == tr(mul(T(X), X)) - tr(mul(T(X), mul(P, X)))))
    steps.append(('loss-of-a-projection-is-norm-minus-captured-part[Y]', h2, lossY == tr(mul(T(Yh), Yh)) - tr(mul(T(Yh), mul(P, Yh)))))
    h3 = h2 + [lossX == tr(mul(T(X), X)) - tr(mul(T(X), mul(P, X))), lossY == tr(mul(T(Yh), Yh)) - tr(mul(T(Yh), mul(P, Yh)))]
    steps.append(('captured-part-is-the-trace-of-the-compressed-gram-matrix', h3, And(tr(mul(T(X), mul(P, X))) == tr(mul(T(Q), mul(mul(X, T(X)), Q))),
                                                                                     tr(mul(T(Yh), mul(P, Yh))) == tr(mul(T(Q), mul(mul(Yh, T(Yh)), Q))))))
    h4 = h3 + [tr(mul(T(X), mul(P, X))) == tr(mul(T(Q), mul(mul(X, T(X)), Q))), tr(mul(T(Yh), mul(P, Yh))) == tr(mul(T(Q), mul(mul(Yh, T(Yh)), Q)))]
    steps.append(('mixed-loss-is-a-constant-minus-the-trace-of-Qt-K~-Q', h4,
                  al * lossX + (1 - al) * lossY == al * tr(mul(T(X), X)) + (1 - al) * tr(mul(T(Yh), Yh)) - tr(mul(T(Q), mul(Kt, Q)))))
    return Lemma('objective[C04]', steps)

UNITS = [u_sample_space, u_feature_space, objective_lemma, lambda: u_fit('sample'), lambda: u_fit('feature'), lambda: u_fit('auto'), lambda: u_fit('sample', y1d=True), lambda: u_fit('feature', y1d=True),
         lambda: u_fit('sample', precomputed=True)]
RT = False
