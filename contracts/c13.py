"""C13 — reconstruction measures: what is computed from what (data flow of the real functions as terms over uninterpreted scaler / estimator functions).

Real functions: pointwise_global_reconstruction_error, global_reconstruction_error, pointwise_global_reconstruction_distortion,
global_reconstruction_distortion, pointwise_local_reconstruction_error (with its nested per-point closure evaluated through the joblib generator, for every test point),
local_reconstruction_error (the rms step), check_global_reconstruction_measures_input, check_local_reconstruction_measures_input
(skmatter/metrics/_reconstruction_measures.py).

Whole arrays are terms of an uninterpreted sort: ROWS(A, idx) (row selection), SCALE(F, A) (the scaler fitted on F applied to A), PRED(Fx, Fy, A) (the estimator
fitted on (Fx, Fy) predicting A), OPRED(Fx, Fy, A) (OrthogonalRegression(use_orthogonal_projector=False) fitted on (Fx, Fy) predicting A, in the zero-padded space
of max(n_x, n_y) columns: proved under C18), SUBT, PADR (zero padding on the right), ROWNORM (Euclidean norm of every row), NORM.  The contract of each function is
that its result is the documented term for EVERY scaler and estimator (user-supplied or default): the scaler is fitted on the TRAINING rows of the space it
transforms, the estimator on the scaled training rows, errors are taken on the scaled TEST rows, global values are norm / sqrt(number of test points), the narrower
prediction is zero-padded to the wider one whichever space is wider.  Semantic consequences that depend on the estimator (zero error on contained information,
invariances, GRE <= 1 on the training set) are NOT derived here: bounded runtime checks."""
from pyvc.api import *
from pyvc import skstubs
from pyvc.engine import ExtNS, ExtClass, Opaque

RM = 'skmatter.metrics._reconstruction_measures'
OR = 'skmatter.linear_model._base.OrthogonalRegression'
TA = z3.DeclareSort('TArr'); TI = z3.DeclareSort('TIdx')
ROWS = z3.Function('ROWS', TA, TI, TA)
SCALE = z3.Function('SCALE', TA, TA, TA)
PRED = z3.Function('PRED', TA, TA, TA, TA)
OPRED = z3.Function('OPRED', TA, TA, TA, TA)
SUBT = z3.Function('SUBT', TA, TA, TA)
PADR = z3.Function('PADR', TA, IntS, TA)
ROWNORM = z3.Function('ROWNORM', TA, TA)
NORM = z3.Function('NORM', TA, RealS)
COMPL = z3.Function('COMPL', IntS, TI, TI)             # np.setdiff1d(np.arange(n), idx)
ALLIDX = z3.Function('ALLIDX', IntS, TI)                # np.arange(n)
SQRT = npstubs.SQRT
# operators used by the local (LRE) measure
SQ = z3.Function('SQ', TA, TA); ROWSUM = z3.Function('ROWSUM', TA, TA); COLV = z3.Function('COLV', TA, TA); OUTERADD = z3.Function('OUTERADD', TA, TA, TA)
SMULT = z3.Function('SMULT', RealS, TA, TA); TRT = z3.Function('TRT', TA, TA); MM = z3.Function('MM', TA, TA, TA)
ROWV = z3.Function('ROWV', TA, IntS, TA)                 # row i of a matrix, as a vector
ASROW = z3.Function('ASROW', TA, TA)                     # a vector as a 1 x d matrix
MEAN0 = z3.Function('MEAN0', TA, TA)                     # column means
SUBR = z3.Function('SUBR', TA, TA, TA); ADDR = z3.Function('ADDR', TA, TA, TA)       # matrix -/+ row vector (broadcast over the rows)
ARGSORT = z3.Function('ARGSORT', TA, TI)                 # np.argsort of a vector (ascending)
PREFIX = z3.Function('PREFIX', TI, IntS, TI)             # the first k entries of an index list

def mk(I, term, shape):
    r = I.fresh_arr('t', shape)
    A = I.A(r)
    I.st.heap[r.id] = ArrVal(A.shape, A.elem, RealS, ('T', term))
    return r
def mk_idx(I, term, n):
    r = I.fresh_arr('idx', (n,), IntS)
    A = I.A(r)
    I.st.heap[r.id] = ArrVal(A.shape, A.elem, IntS, ('TI', term))
    return r
def T_(I, a):
    A = I.A(a)
    if A.tag and A.tag[0] == 'T': return A.tag[1]
    raise Unsupported("array without a data-flow term")
def TI_(I, a):
    A = I.A(a)
    if A.tag and A.tag[0] == 'TI': return A.tag[1]
    if A.tag and A.tag[0] == 'arange': return ALLIDX(A.tag[1])
    raise Unsupported("index array without a data-flow term")

def is_T(I, a): return isinstance(a, ArrRef) and I.A(a).tag is not None and I.A(a).tag[0] == 'T' and z3.is_expr(I.A(a).tag[1])
def is_scalar_index(x): return not isinstance(x, (tuple, slice, ArrRef, list)) and x is not None and x is not Ellipsis
def getitem_hook(I, b, ix):
    A = I.A(b)
    if A.tag and A.tag[0] == 'T' and A.ndim == 2 and isinstance(ix, ArrRef) and I.A(ix).tag and I.A(ix).tag[0] in ('TI', 'arange'):
        return mk(I, ROWS(A.tag[1], TI_(I, ix)), (I.A(ix).shape[0], A.shape[1]))
    if is_T(I, b) and A.ndim == 2 and (is_scalar_index(ix) or (isinstance(ix, tuple) and len(ix) == 2 and is_scalar_index(ix[0]) and ix[1] == slice(None))):
        i = tz(ix if is_scalar_index(ix) else ix[0])
        I.ob('index:row-within-the-matrix', And(0 <= i, i < tz(A.shape[0])), kind='index')
        return mk(I, ROWV(A.tag[1], i), (A.shape[1],))
    if is_T(I, b) and A.ndim == 1 and isinstance(ix, tuple) and len(ix) == 2 and ix[0] == slice(None) and ix[1] is None:
        return mk(I, COLV(A.tag[1]), (A.shape[0], 1))
    if is_T(I, b) and A.ndim == 1 and isinstance(ix, tuple) and len(ix) == 2 and ix[0] is None and ix[1] == slice(None):
        return mk(I, ASROW(A.tag[1]), (1, A.shape[0]))
    if A.tag and A.tag[0] == 'TI' and A.ndim == 1 and isinstance(ix, slice) and ix.start is None and ix.step is None and ix.stop is not None:
        k = tz(ix.stop)
        I.ob('pre:prefix-not-longer-than-the-index-list', And(0 <= k, k <= tz(A.shape[0])), kind='pre')
        return mk_idx(I, PREFIX(A.tag[1], k), conc(k))
    return None

def binop_hook(I, op, a, b, what):
    if is_T(I, a) and not isinstance(b, ArrRef) and op is ast.Pow and not is_sym(b) and b == 2:
        return mk(I, SQ(T_(I, a)), I.A(a).shape)
    if is_T(I, b) and not isinstance(a, ArrRef) and op is ast.Mult:
        return mk(I, SMULT(to_real(tz(a)), T_(I, b)), I.A(b).shape)
    if is_T(I, a) and is_T(I, b):
        A, B = I.A(a), I.A(b)
        if op is ast.Add and A.ndim == 1 and B.ndim == 2 and conc(B.shape[1]) == 1:         # (n,) + (m,1): outer sum, an m x n matrix
            return mk(I, OUTERADD(A.tag[1], B.tag[1]), (B.shape[0], A.shape[0]))
        if op in (ast.Sub, ast.Add) and ((A.ndim == 2 and B.ndim == 1) or (A.ndim == 1 and B.ndim == 2 and op is ast.Add)):
            M, v = (A, B) if A.ndim == 2 else (B, A)
            sd = npstubs.same_dim(M.shape[1], v.shape[0])
            if sd is False: raise RaiseEx('ValueError')
            if sd is None: I.ob(f'shape:{what}', tz(M.shape[1]) == tz(v.shape[0]), kind='shape')
            return mk(I, (SUBR if op is ast.Sub else ADDR)(M.tag[1], v.tag[1]), M.shape)
    if isinstance(a, ArrRef) and isinstance(b, ArrRef):
        A, B = I.A(a), I.A(b)
        if A.tag and B.tag and A.tag[0] == 'T' and B.tag[0] == 'T' and op is ast.Sub:
            for x, y in zip(A.shape, B.shape):
                sd = npstubs.same_dim(x, y)
                if sd is False: raise RaiseEx('ValueError')
                if sd is None: I.ob(f'shape:{what}', tz(x) == tz(y), kind='shape')
            return mk(I, SUBT(A.tag[1], B.tag[1]), A.shape)
    return None
import ast

def np_norm(I, a, axis=None, **kw):
    A = I.A(a)
    if A.tag and A.tag[0] == 'T':
        if A.ndim == 2 and axis == 1: return mk(I, ROWNORM(A.tag[1]), (A.shape[0],))
        if axis is None: return NORM(A.tag[1])
    raise Unsupported("np.linalg.norm form")

def np_pad(I, a, pad_width, *args, **kw):
    A = I.A(a)
    pw = [tuple(x) for x in pad_width]
    isz = lambda v: (not is_sym(conc(v))) and conc(v) == 0
    if not (A.tag and A.tag[0] == 'T') or len(pw) != 2 or not isz(pw[0][0]) or not isz(pw[0][1]) or not isz(pw[1][0]) or args or kw: raise Unsupported("np.pad form")
    extra = tz(pw[1][1])
    I.ob('pre:np.pad:non-negative-width', extra >= 0, kind='pre')
    return mk(I, PADR(A.tag[1], extra), (A.shape[0], conc(z3.simplify(tz(A.shape[1]) + extra))))

def np_setdiff1d(I, a, b, **kw):
    npstubs.used('np.setdiff1d(np.arange(n), idx) (complement of an index set)')
    rng_ = I.A(a)
    if not (rng_.tag and rng_.tag[0] == 'arange'): raise Unsupported("setdiff1d form")
    n = rng_.shape[0]
    m = I.fresh('n_complement', IntS); I.assume(And(m >= 0, m <= tz(n)))
    return mk_idx(I, COMPL(tz(n), TI_(I, b)), m)

def np_arange(I, n, *a, **kw):
    if a or kw: raise Unsupported("arange form")
    r = I.fresh_arr('arange', (n,), IntS); A = I.A(r)
    I.st.heap[r.id] = ArrVal(A.shape, lambda i: tz(i), IntS, ('arange', tz(n)))
    return r

def make_scaler(I):
    st = dict(fit=None, calls=[])
    def fit(I2, A, *a, **k):
        st['fit'] = T_(I2, A); st['calls'].append(('fit', st['fit'])); return obj
    def transform(I2, A, *a, **k):
        if st['fit'] is None: raise RaiseEx('NotFittedError')
        st['calls'].append(('transform', T_(I2, A)))
        return mk(I2, SCALE(st['fit'], T_(I2, A)), I2.A(A).shape)
    obj = skstubs.StubObj(kind='Scaler', fit=fit, transform=transform)
    obj._st = st
    return obj

def make_estimator(I):
    st = dict(fit=None, ncols=None, calls=[])
    def fit(I2, A, B, *a, **k):
        st['fit'] = (T_(I2, A), T_(I2, B)); st['ncols'] = I2.A(B).shape[1]; st['calls'].append(('fit',) + st['fit']); return obj
    def predict(I2, A, *a, **k):
        if st['fit'] is None: raise RaiseEx('NotFittedError')
        return mk(I2, PRED(st['fit'][0], st['fit'][1], T_(I2, A)), (I2.A(A).shape[0], st['ncols']))
    obj = skstubs.StubObj(kind='Estimator', fit=fit, predict=predict)
    obj._st = st
    return obj

def or_fit_contract():
    def make_result(I, F):
        o = I.O(F['self'])
        o.attrs['_c13_fit'] = (T_(I, F['X']), T_(I, F['y']), I.A(F['X']).shape[1], I.A(F['y']).shape[1])
        I.cur.setdefault('or_ctor', []).append(dict(use_orthogonal_projector=o.attrs.get('use_orthogonal_projector'), linear_estimator=o.attrs.get('linear_estimator')))
        return F['self']
    return FuncContract(make_result=make_result)
def or_predict_contract():
    def make_result(I, F):
        o = I.O(F['self'])
        tx, ty, nx, ny = o.attrs['_c13_fit']
        w = z3.simplify(If(tz(nx) >= tz(ny), tz(nx), tz(ny)))
        return mk(I, OPRED(tx, ty, T_(I, F['X'])), (I.A(F['X']).shape[0], conc(w)))
    return FuncContract(make_result=make_result)

def extend_ext(ext):
    skstubs.install(ext)
    ext['mat_getitem'] = getitem_hook; ext['mat_binop'] = binop_hook
    np_ = ext['modules']['np']
    np_.linalg.norm = np_norm; np_.pad = np_pad; np_.setdiff1d = np_setdiff1d; np_.arange = np_arange
    par = ExtClass('Parallel'); par.ctor = lambda I, n_jobs=None, **kw: (lambda I2, gen: gen)
    ext['names']['joblib.Parallel'] = par
    ext['names']['joblib.delayed'] = lambda I, f: f
    def matmul_hook(I, a, b, what):
        if is_T(I, a) and is_T(I, b) and I.A(a).ndim == 2 and I.A(b).ndim == 2:
            sd = npstubs.same_dim(I.A(a).shape[1], I.A(b).shape[0])
            if sd is False: raise RaiseEx('ValueError')
            if sd is None: I.ob(f'shape:{what}', tz(I.A(a).shape[1]) == tz(I.A(b).shape[0]), kind='shape')
            return mk(I, MM(T_(I, a), T_(I, b)), (I.A(a).shape[0], I.A(b).shape[1]))
        return None
    if not any(getattr(h, '_c13', False) for h in npstubs.MATMUL_HOOKS):
        matmul_hook._c13 = True; npstubs.MATMUL_HOOKS.insert(0, matmul_hook)
    ext['mat_T'] = lambda I, a: mk(I, TRT(T_(I, a)), (I.A(a).shape[1], I.A(a).shape[0])) if is_T(I, a) and I.A(a).ndim == 2 else None
    def sum_hook(I, a, axis, kw):
        if is_T(I, a) and I.A(a).ndim == 2 and axis == 1: return mk(I, ROWSUM(T_(I, a)), (I.A(a).shape[0],))
        return None
    ext['sum_hook'] = sum_hook
    pmean = np_.mean
    def mean_(I, a, axis=None, **kw):
        if is_T(I, a) and I.A(a).ndim == 2 and axis == 0: return mk(I, MEAN0(T_(I, a)), (I.A(a).shape[1],))
        return pmean(I, a, axis=axis, **kw)
    np_.mean = mean_
    def argsort_(I, a, **kw):
        if is_T(I, a) and I.A(a).ndim == 1 and not kw:
            npstubs.used('np.argsort (ascending order of a vector)')
            return mk_idx(I, ARGSORT(T_(I, a)), I.A(a).shape[0])
        raise Unsupported("np.argsort form")
    np_.argsort = argsort_
    parr = np_.array
    def array_(I, a, dtype=None, **kw):
        if isinstance(a, ArrRef) and I.A(a).tag == ('gen',): A = I.A(a); return I.new_arr(ArrVal(A.shape, A.elem, A.sort))
        return parr(I, a, dtype=dtype, **kw)
    np_.array = array_
    ext['arr_attrs'] = dict(ext['arr_attrs'])
    pastype, pdtype = ext['arr_attrs']['astype'], ext['arr_attrs']['dtype']
    ext['arr_attrs']['astype'] = lambda I, a: ((lambda I2, dt, **k: a) if is_T(I, a) else pastype(I, a))
    ext['arr_attrs']['dtype'] = lambda I, a: (Opaque('dtype') if is_T(I, a) else pdtype(I, a))
    def comp_sym(I, e, g, it, F):
        # (f(i) for i in range(<symbolic n>)): the body is evaluated once on a bound index; the values form the result list
        from pyvc.engine import RangeV
        if not isinstance(it, RangeV) or g.ifs or not isinstance(g.target, ast.Name): raise Unsupported("comprehension over symbolic iterable")
        k = I.fresh('k!gen', IntS)
        G = dict(F); G[g.target.id] = k
        I.st.guards.append(And(tz(it.lo) <= k, k < tz(it.hi)))
        I.cur['gen_index'] = k
        try: body = I.ev(e.elt, G)
        finally: I.st.guards.pop()
        if isinstance(body, ArrRef) or not is_sym(body): raise Unsupported("generator body is not a scalar term")
        n = conc(z3.simplify(tz(it.hi) - tz(it.lo)))
        return I.new_arr(ArrVal((n,), (lambda body, k: lambda i: z3.substitute(body, (k, tz(i) + tz(it.lo))))(body, k), body.sort(), ('gen',), True))
    ext['comp_sym'] = comp_sym

FUNCS = {OR + '.fit': or_fit_contract(), OR + '.predict': or_predict_contract()}

def setup(I):
    n, nx, ny = I.fresh('n', IntS), I.fresh('nx', IntS), I.fresh('ny', IntS)
    ntr, nte = I.fresh('n_train', IntS), I.fresh('n_test', IntS)
    I.assume(And(n >= 2, nx >= 1, ny >= 1, ntr >= 1, nte >= 1))
    I.cur = {}
    Xt, Yt = z3.Const('X', TA), z3.Const('Y', TA); tr, te = z3.Const('train_idx', TI), z3.Const('test_idx', TI)
    X, Y = mk(I, Xt, (n, nx)), mk(I, Yt, (n, ny))
    train, test = mk_idx(I, tr, ntr), mk_idx(I, te, nte)
    sc, est = make_scaler(I), make_estimator(I)
    Xtr, Xte, Ytr, Yte = ROWS(Xt, tr), ROWS(Xt, te), ROWS(Yt, tr), ROWS(Yt, te)
    sX = lambda A: SCALE(Xtr, A); sY = lambda A: SCALE(Ytr, A)
    return dict(n=n, nx=nx, ny=ny, ntr=ntr, nte=nte, X=X, Y=Y, train=train, test=test, sc=sc, est=est, Xtr=Xtr, Xte=Xte, Ytr=Ytr, Yte=Yte, sX=sX, sY=sY,
                pred=lambda A: PRED(sX(Xtr), sY(Ytr), A))

def gre_term(s): return ROWNORM(SUBT(s['sY'](s['Yte']), s['pred'](s['sX'](s['Xte']))))
def grd_term(s, wide):
    pr = s['pred'](s['sX'](s['Xte']))
    op = OPRED(s['sX'](s['Xtr']), s['pred'](s['sX'](s['Xtr'])), s['sX'](s['Xte']))
    pad = If(s['nx'] >= s['ny'], s['nx'], s['ny']) - s['ny']
    return ROWNORM(SUBT(PADR(pr, pad), op))

def u_pointwise(which):
    q = RM + ('.pointwise_global_reconstruction_error' if which == 'gre' else '.pointwise_global_reconstruction_distortion')
    def body(I):
        s = setup(I)
        r = I.call_func(I.repo.get(q), [s['X'], s['Y']], dict(train_idx=s['train'], test_idx=s['test'], scaler=s['sc'], estimator=s['est']))
        R = I.A(r)
        I.ob('post[C13]:one-value-per-test-point', And(BoolVal(R.ndim == 1), tz(R.shape[0]) == s['nte']), kind='post')
        spec = gre_term(s) if which == 'gre' else grd_term(s, None)
        I.ob('post[C13]:' + ('pointwise-GRE-is-the-row-norm-of-scaled-test-targets-minus-the-prediction-of-the-estimator-fitted-on-the-scaled-training-rows' if which == 'gre' else
                            'pointwise-GRD-is-the-row-norm-of-the-zero-padded-prediction-minus-the-orthogonal-regression-of-the-training-predictions-applied-to-the-test-rows'),
             T_(I, r) == spec, kind='post')
        fits = [c for c in s['sc']._st['calls'] if c[0] == 'fit']
        I.ob('post[C13]:scaler-is-fitted-exactly-twice', BoolVal(len(fits) == 2), kind='post')
        if len(fits) == 2:
            I.ob('post[C13]:scaler-is-fitted-on-the-training-rows-of-X-then-on-the-training-rows-of-Y', And(fits[0][1] == s['Xtr'], fits[1][1] == s['Ytr']), kind='post')
        efits = [c for c in s['est']._st['calls'] if c[0] == 'fit']
        I.ob('post[C13]:estimator-is-fitted-once-on-the-scaled-training-rows', And(BoolVal(len(efits) == 1), *([efits[0][1] == s['sX'](s['Xtr']), efits[0][2] == s['sY'](s['Ytr'])] if len(efits) == 1 else [])), kind='post')
        if which == 'grd':
            oc = I.cur.get('or_ctor', [])
            I.ob('post[C13]:orthogonal-regression-runs-in-the-padded-space (use_orthogonal_projector=False)', BoolVal(len(oc) == 1 and oc[0]['use_orthogonal_projector'] is False), kind='post')
    return Unit(f'pointwise_{which}', body, funcs=FUNCS, functions=[q])

def u_global(which):
    q = RM + {'gre': '.global_reconstruction_error', 'grd': '.global_reconstruction_distortion'}[which]
    def body(I):
        s = setup(I)
        r = I.call_func(I.repo.get(q), [s['X'], s['Y']], dict(train_idx=s['train'], test_idx=s['test'], scaler=s['sc'], estimator=s['est']))
        spec = gre_term(s) if which == 'gre' else grd_term(s, None)
        I.ob('post[C13]:global-value-is-the-root-mean-square-of-the-pointwise-values (norm / sqrt(number of test points))',
             to_real(tz(r)) == NORM(spec) / SQRT(z3.ToReal(s['nte'])), kind='post')
    return Unit(f'global_{which}', body, funcs=FUNCS, functions=[q])

def u_defaults(given):
    """index defaults: a missing index set is the complement of the given one"""
    q = RM + '.check_global_reconstruction_measures_input'
    def body(I):
        s = setup(I)
        kw = dict(train_idx=s['train'] if given == 'train' else None, test_idx=s['test'] if given == 'test' else None)
        r = I.call_func(I.repo.get(q), [s['X'], s['Y'], kw['train_idx'], kw['test_idx'], s['sc'], s['est']], {})
        tr, te, sc, est = r
        g = s['train'] if given == 'train' else s['test']
        other = te if given == 'train' else tr
        I.ob('post[C13]:given-index-set-is-kept', BoolVal((tr if given == 'train' else te).id == g.id), kind='post')
        I.ob('post[C13]:missing-index-set-is-the-complement-of-the-given-one', TI_(I, other) == COMPL(s['n'], TI_(I, g)), kind='post')
        I.ob('post[C13]:user-scaler-and-estimator-are-kept', BoolVal(sc is s['sc'] and est is s['est']), kind='post')
    return Unit(f'check_input[{given}-given]', body, funcs=FUNCS, functions=[q])

LREP = z3.Function('LREP', TA, TA, IntS, TI, TI, TA)
def lre_pointwise_contract():
    def make_result(I, F):
        I.cur['lre_args'] = dict(F)
        return mk(I, LREP(T_(I, F['X']), T_(I, F['Y']), tz(F['n_local_points']), TI_(I, F['train_idx']), TI_(I, F['test_idx'])), (I.A(F['test_idx']).shape[0],))
    return FuncContract(make_result=make_result)

def u_global_lre():
    q = RM + '.local_reconstruction_error'
    def body(I):
        s = setup(I)
        k = I.fresh('n_local_points', IntS); I.assume(And(k >= 2, k <= s['ntr']))
        r = I.call_func(I.repo.get(q), [s['X'], s['Y'], k], dict(train_idx=s['train'], test_idx=s['test'], scaler=s['sc'], estimator=s['est'], n_jobs=1))
        F = I.cur.get('lre_args')
        I.ob('post[C13]:pointwise-values-computed-once-with-the-arguments-handed-in', BoolVal(F is not None and F['X'].id == s['X'].id and F['Y'].id == s['Y'].id and F['train_idx'].id == s['train'].id
                                                                                              and F['test_idx'].id == s['test'].id and F['scaler'] is s['sc'] and F['estimator'] is s['est'] and F['n_jobs'] == 1), kind='post')
        I.ob('post[C13]:same-number-of-neighbours', tz(F['n_local_points']) == k if F else BoolVal(False), kind='post')
        spec = LREP(T_(I, s['X']), T_(I, s['Y']), k, TI_(I, s['train']), TI_(I, s['test']))
        I.ob('post[C13]:global-value-is-the-root-mean-square-of-the-pointwise-values (norm / sqrt(number of test points))', to_real(tz(r)) == NORM(spec) / SQRT(z3.ToReal(s['nte'])), kind='post')
    fn = dict(FUNCS); fn[RM + '.pointwise_local_reconstruction_error'] = lre_pointwise_contract()
    return Unit('global_lre', body, funcs=fn, functions=[q])

def u_pointwise_lre():
    """pointwise_local_reconstruction_error: for EVERY test point j the value is the norm of (scaled test target j) - (local mean of the targets + prediction, for the locally
    centred test point, of the estimator fitted on the locally centred k nearest scaled training rows), the neighbours being the first k entries of the ascending order of the
    expanded squared Euclidean distances ||x_train||^2 + ||x_test||^2 - 2 x_test . x_train between the SCALED rows; the scaler is fitted on the training rows of each space."""
    q = RM + '.pointwise_local_reconstruction_error'
    def body(I):
        s = setup(I)
        k = I.fresh('n_local_points', IntS); I.assume(And(k >= 1, k <= s['ntr'], k <= s['n']))
        r = I.call_func(I.repo.get(q), [s['X'], s['Y'], k], dict(train_idx=s['train'], test_idx=s['test'], scaler=s['sc'], estimator=s['est'], n_jobs=None))
        R = I.A(r)
        I.ob('post[C13]:one-value-per-test-point', And(BoolVal(R.ndim == 1), tz(R.shape[0]) == s['nte']), kind='post')
        sXtr, sXte, sYtr, sYte = s['sX'](s['Xtr']), s['sX'](s['Xte']), s['sY'](s['Ytr']), s['sY'](s['Yte'])
        D2 = SUBT(OUTERADD(ROWSUM(SQ(sXtr)), COLV(ROWSUM(SQ(sXte)))), MM(SMULT(RealVal(2), sXte), TRT(sXtr)))
        j = I.fresh('j', IntS); I.assume(And(0 <= j, j < s['nte']))
        N = PREFIX(ARGSORT(ROWV(D2, j)), k)
        mx, my = MEAN0(ROWS(sXtr, N)), MEAN0(ROWS(sYtr, N))
        pred = PRED(SUBR(ROWS(sXtr, N), mx), SUBR(ROWS(sYtr, N), my), SUBR(ASROW(ROWV(sXte, j)), mx))
        spec = NORM(SUBT(ASROW(ROWV(sYte, j)), ADDR(pred, my)))
        I.ob('post[C13]:pointwise-LRE-is-the-error-of-the-locally-centred-fit-on-the-k-nearest-scaled-training-rows', to_real(R.elem(j)) == spec, kind='post')
        fits = [c for c in s['sc']._st['calls'] if c[0] == 'fit']
        I.ob('post[C13]:scaler-is-fitted-on-the-training-rows-of-X-then-on-the-training-rows-of-Y', BoolVal(len(fits) == 2) if len(fits) != 2 else And(fits[0][1] == s['Xtr'], fits[1][1] == s['Ytr']), kind='post')
    return Unit('pointwise_lre', body, funcs=FUNCS, functions=[q, RM + '.check_local_reconstruction_measures_input'])

UNITS = [lambda: u_pointwise_lre(), lambda: u_global_lre(), lambda: u_pointwise('gre'), lambda: u_pointwise('grd'), lambda: u_global('gre'), lambda: u_global('grd'), lambda: u_defaults('train'), lambda: u_defaults('test')]
RT = True
EVIDENCE_LEVEL = 'exploration'      # most clauses of C13 depend on what the estimator computes: the property as a whole stays at the bounded level
TRUSTED = ["data-flow terms: whole arrays as terms over uninterpreted scaler / estimator / orthogonal-regression functions (free term algebra: equal terms mean the same data flow)",
           "OrthogonalRegression(use_orthogonal_projector=False).predict works in the zero-padded space of max(n_x, n_y) columns (proved under C18)",
           "everything that depends on what the estimator computes (zero error on contained information, invariances under rotations / scalings / shifts, GRE <= 1 on the training set, LRE with all "
           "training points = pointwise GRE): bounded runtime checks only",
           "local measure: np.argsort = the ascending order of a vector (ARGSORT), a slice [:k] of it = its first k entries (PREFIX), joblib.Parallel evaluates the generator in order; the squared distances are stated in the expanded form the code uses (||a||^2 + ||b||^2 - 2 a.b over the scaled rows); that the first k entries of the ascending order are k nearest rows is the meaning of ARGSORT/PREFIX, not derived"]
