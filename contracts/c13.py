"""C13 — reconstruction measures: what is computed from what (data flow of the real functions as terms over uninterpreted scaler / estimator functions).

Real functions: pointwise_global_reconstruction_error, global_reconstruction_error, pointwise_global_reconstruction_distortion,
global_reconstruction_distortion, local_reconstruction_error (the rms step), check_global_reconstruction_measures_input
(skmatter/metrics/_reconstruction_measures.py).

Whole arrays are terms of an uninterpreted sort: ROWS(A, idx) (row selection), SCALE(F, A) (the scaler fitted on F applied to A), PRED(Fx, Fy, A) (the estimator
fitted on (Fx, Fy) predicting A), OPRED(Fx, Fy, A) (OrthogonalRegression(use_orthogonal_projector=False) fitted on (Fx, Fy) predicting A, in the zero-padded space
of max(n_x, n_y) columns: proved under C18), SUBT, PADR (zero padding on the right), ROWNORM (Euclidean norm of every row), NORM.  The contract of each function is
that its result is the documented term for EVERY scaler and estimator (user-supplied or default): the scaler is fitted on the TRAINING rows of the space it
transforms, the estimator on the scaled training rows, errors are taken on the scaled TEST rows, global values are norm / sqrt(number of test points), the narrower
prediction is zero-padded to the wider one whichever space is wider.  Semantic consequences that depend on the estimator (zero error on contained information,
invariances, GRE <= 1 on the training set) are NOT derived here: bounded runtime checks."""
from pyvc.api import *
from pyvc import skstubs
from pyvc.engine import ExtNS, ExtClass, Opaque

RM = 'skmatter.metrics._reconstruction_measures'
OR = 'skmatter.linear_model._base.OrthogonalRegression'
TA = z3.DeclareSort('TArr'); TI = z3.DeclareSort('TIdx')
ROWS = z3.Function('ROWS', TA, TI, TA)
SCALE = z3.Function('SCALE', TA, TA, TA)
PRED = z3.Function('PRED', TA, TA, TA, TA)
OPRED = z3.Function('OPRED', TA, TA, TA, TA)
SUBT = z3.Function('SUBT', TA, TA, TA)
PADR = z3.Function('PADR', TA, IntS, TA)
ROWNORM = z3.Function('ROWNORM', TA, TA)
NORM = z3.Function('NORM', TA, RealS)
COMPL = z3.Function('COMPL', IntS, TI, TI)             # np.setdiff1d(np.arange(n), idx)
ALLIDX = z3.Function('ALLIDX', IntS, TI)                # np.arange(n)
SQRT = npstubs.SQRT

def mk(I, term, shape):
    r = I.fresh_arr('t', shape)
    A = I.A(r)
    I.st.heap[r.id] = ArrVal(A.shape, A.elem, RealS, ('T', term))
    return r
def mk_idx(I, term, n):
    r = I.fresh_arr('idx', (n,), IntS)
    A = I.A(r)
    I.st.heap[r.id] = ArrVal(A.shape, A.elem, IntS, ('TI', term))
    return r
def T_(I, a):
    A = I.A(a)
    if A.tag and A.tag[0] == 'T': return A.tag[1]
    raise Unsupported("array without a data-flow term")
def TI_(I, a):
    A = I.A(a)
    if A.tag and A.tag[0] == 'TI': return A.tag[1]
    if A.tag and A.tag[0] == 'arange': return ALLIDX(A.tag[1])
    raise Unsupported("index array without a data-flow term")

def getitem_hook(I, b, ix):
    A = I.A(b)
    if A.tag and A.tag[0] == 'T' and A.ndim == 2 and isinstance(ix, ArrRef) and I.A(ix).tag and I.A(ix).tag[0] in ('TI', 'arange'):
        return mk(I, ROWS(A.tag[1], TI_(I, ix)), (I.A(ix).shape[0], A.shape[1]))
    return None

def binop_hook(I, op, a, b, what):
    if isinstance(a, ArrRef) and isinstance(b, ArrRef):
        A, B = I.A(a), I.A(b)
        if A.tag and B.tag and A.tag[0] == 'T' and B.tag[0] == 'T' and op is ast.Sub:
            for x, y in zip(A.shape, B.shape):
                sd = npstubs.same_dim(x, y)
                if sd is False: raise RaiseEx('ValueError')
                if sd is None: I.ob(f'shape:{what}', tz(x) == tz(y), kind='shape')
            return mk(I, SUBT(A.tag[1], B.tag[1]), A.shape)
    return None
import ast

def np_norm(I, a, axis=None, **kw):
    A = I.A(a)
    if A.tag and A.tag[0] == 'T':
        if A.ndim == 2 and axis == 1: return mk(I, ROWNORM(A.tag[1]), (A.shape[0],))
        if A.ndim == 1 and axis is None: return NORM(A.tag[1])
    raise Unsupported("np.linalg.norm form")

def np_pad(I, a, pad_width, *args, **kw):
    A = I.A(a)
    pw = [tuple(x) for x in pad_width]
    isz = lambda v: (not is_sym(conc(v))) and conc(v) == 0
    if not (A.tag and A.tag[0] == 'T') or len(pw) != 2 or not isz(pw[0][0]) or not isz(pw[0][1]) or not isz(pw[1][0]) or args or kw: raise Unsupported("np.pad form")
    extra = tz(pw[1][1])
    I.ob('pre:np.pad:non-negative-width', extra >= 0, kind='pre')
    return mk(I, PADR(A.tag[1], extra), (A.shape[0], conc(z3.simplify(tz(A.shape[1]) + extra))))

def np_setdiff1d(I, a, b, **kw):
    npstubs.used('np.setdiff1d(np.arange(n), idx) (complement of an index set)')
    rng_ = I.A(a)
    if not (rng_.tag and rng_.tag[0] == 'arange'): raise Unsupported("setdiff1d form")
    n = rng_.shape[0]
    m = I.fresh('n_complement', IntS); I.assume(And(m >= 0, m <= tz(n)))
    return mk_idx(I, COMPL(tz(n), TI_(I, b)), m)

def np_arange(I, n, *a, **kw):
    if a or kw: raise Unsupported("arange form")
    r = I.fresh_arr('arange', (n,), IntS); A = I.A(r)
    I.st.heap[r.id] = ArrVal(A.shape, lambda i: tz(i), IntS, ('arange', tz(n)))
    return r

def make_scaler(I):
    st = dict(fit=None, calls=[])
    def fit(I2, A, *a, **k):
        st['fit'] = T_(I2, A); st['calls'].append(('fit', st['fit'])); return obj
    def transform(I2, A, *a, **k):
        if st['fit'] is None: raise RaiseEx('NotFittedError')
        st['calls'].append(('transform', T_(I2, A)))
        return mk(I2, SCALE(st['fit'], T_(I2, A)), I2.A(A).shape)
    obj = skstubs.StubObj(kind='Scaler', fit=fit, transform=transform)
    obj._st = st
    return obj

def make_estimator(I):
    st = dict(fit=None, ncols=None, calls=[])
    def fit(I2, A, B, *a, **k):
        st['fit'] = (T_(I2, A), T_(I2, B)); st['ncols'] = I2.A(B).shape[1]; st['calls'].append(('fit',) + st['fit']); return obj
    def predict(I2, A, *a, **k):
        if st['fit'] is None: raise RaiseEx('NotFittedError')
        return mk(I2, PRED(st['fit'][0], st['fit'][1], T_(I2, A)), (I2.A(A).shape[0], st['ncols']))
    obj = skstubs.StubObj(kind='Estimator', fit=fit, predict=predict)
    obj._st = st
    return obj

def or_fit_contract():
    def make_result(I, F):
        o = I.O(F['self'])
        o.attrs['_c13_fit'] = (T_(I, F['X']), T_(I, F['y']), I.A(F['X']).shape[1], I.A(F['y']).shape[1])
        I.cur.setdefault('or_ctor', []).append(dict(use_orthogonal_projector=o.attrs.get('use_orthogonal_projector'), linear_estimator=o.attrs.get('linear_estimator')))
        return F['self']
    return FuncContract(make_result=make_result)
def or_predict_contract():
    def make_result(I, F):
        o = I.O(F['self'])
        tx, ty, nx, ny = o.attrs['_c13_fit']
        w = z3.simplify(If(tz(nx) >= tz(ny), tz(nx), tz(ny)))
        return mk(I, OPRED(tx, ty, T_(I, F['X'])), (I.A(F['X']).shape[0], conc(w)))
    return FuncContract(make_result=make_result)

def extend_ext(ext):
    skstubs.install(ext)
    ext['mat_getitem'] = getitem_hook; ext['mat_binop'] = binop_hook
    np_ = ext['modules']['np']
    np_.linalg.norm = np_norm; np_.pad = np_pad; np_.setdiff1d = np_setdiff1d; np_.arange = np_arange
    for k in ('joblib.Parallel', 'joblib.delayed'): ext['names'].setdefault(k, ExtClass(k.split('.')[-1]))

FUNCS = {OR + '.fit': or_fit_contract(), OR + '.predict': or_predict_contract()}

def setup(I):
    n, nx, ny = I.fresh('n', IntS), I.fresh('nx', IntS), I.fresh('ny', IntS)
    ntr, nte = I.fresh('n_train', IntS), I.fresh('n_test', IntS)
    I.assume(And(n >= 2, nx >= 1, ny >= 1, ntr >= 1, nte >= 1))
    I.cur = {}
    Xt, Yt = z3.Const('X', TA), z3.Const('Y', TA); tr, te = z3.Const('train_idx', TI), z3.Const('test_idx', TI)
    X, Y = mk(I, Xt, (n, nx)), mk(I, Yt, (n, ny))
    train, test = mk_idx(I, tr, ntr), mk_idx(I, te, nte)
    sc, est = make_scaler(I), make_estimator(I)
    Xtr, Xte, Ytr, Yte = ROWS(Xt, tr), ROWS(Xt, te), ROWS(Yt, tr), ROWS(Yt, te)
    sX = lambda A: SCALE(Xtr, A); sY = lambda A: SCALE(Ytr, A)
    return dict(n=n, nx=nx, ny=ny, ntr=ntr, nte=nte, X=X, Y=Y, train=train, test=test, sc=sc, est=est, Xtr=Xtr, Xte=Xte, Ytr=Ytr, Yte=Yte, sX=sX, sY=sY,
                pred=lambda A: PRED(sX(Xtr), sY(Ytr), A))

def gre_term(s): return ROWNORM(SUBT(s['sY'](s['Yte']), s['pred'](s['sX'](s['Xte']))))
def grd_term(s, wide):
    pr = s['pred'](s['sX'](s['Xte']))
    op = OPRED(s['sX'](s['Xtr']), s['pred'](s['sX'](s['Xtr'])), s['sX'](s['Xte']))
    pad = If(s['nx'] >= s['ny'], s['nx'], s['ny']) - s['ny']
    return ROWNORM(SUBT(PADR(pr, pad), op))

def u_pointwise(which):
    q = RM + ('.pointwise_global_reconstruction_error' if which == 'gre' else '.pointwise_global_reconstruction_distortion')
    def body(I):
        s = setup(I)
        r = I.call_func(I.repo.get(q), [s['X'], s['Y']], dict(train_idx=s['train'], test_idx=s['test'], scaler=s['sc'], estimator=s['est']))
        R = I.A(r)
        I.ob('post[C13]:one-value-per-test-point', And(BoolVal(R.ndim == 1), tz(R.shape[0]) == s['nte']), kind='post')
        spec = gre_term(s) if which == 'gre' else grd_term(s, None)
        I.ob('post[C13]:' + ('pointwise-GRE-is-the-row-norm-of-scaled-test-targets-minus-the-prediction-of-the-estimator-fitted-on-the-scaled-training-rows' if which == 'gre' else
                            'pointwise-GRD-is-the-row-norm-of-the-zero-padded-prediction-minus-the-orthogonal-regression-of-the-training-predictions-applied-to-the-test-rows'),
             T_(I, r) == spec, kind='post')
        fits = [c for c in s['sc']._st['calls'] if c[0] == 'fit']
        I.ob('post[C13]:scaler-is-fitted-exactly-twice', BoolVal(len(fits) == 2), kind='post')
        if len(fits) == 2:
            I.ob('post[C13]:scaler-is-fitted-on-the-training-rows-of-X-then-on-the-training-rows-of-Y', And(fits[0][1] == s['Xtr'], fits[1][1] == s['Ytr']), kind='post')
        efits = [c for c in s['est']._st['calls'] if c[0] == 'fit']
        I.ob('post[C13]:estimator-is-fitted-once-on-the-scaled-training-rows', And(BoolVal(len(efits) == 1), *([efits[0][1] == s['sX'](s['Xtr']), efits[0][2] == s['sY'](s['Ytr'])] if len(efits) == 1 else [])), kind='post')
        if which == 'grd':
            oc = I.cur.get('or_ctor', [])
            I.ob('post[C13]:orthogonal-regression-runs-in-the-padded-space (use_orthogonal_projector=False)', BoolVal(len(oc) == 1 and oc[0]['use_orthogonal_projector'] is False), kind='post')
    return Unit(f'pointwise_{which}', body, funcs=FUNCS, functions=[q])

def u_global(which):
    q = RM + {'gre': '.global_reconstruction_error', 'grd': '.global_reconstruction_distortion'}[which]
    def body(I):
        s = setup(I)
        r = I.call_func(I.repo.get(q), [s['X'], s['Y']], dict(train_idx=s['train'], test_idx=s['test'], scaler=s['sc'], estimator=s['est']))
        spec = gre_term(s) if which == 'gre' else grd_term(s, None)
        I.ob('post[C13]:global-value-is-the-root-mean-square-of-the-pointwise-values (norm / sqrt(number of test points))',
             to_real(tz(r)) == NORM(spec) / SQRT(z3.ToReal(s['nte'])), kind='post')
    return Unit(f'global_{which}', body, funcs=FUNCS, functions=[q])

def u_defaults(given):
    """index defaults: a missing index set is the complement of the given one"""
    q = RM + '.check_global_reconstruction_measures_input'
    def body(I):
        s = setup(I)
        kw = dict(train_idx=s['train'] if given == 'train' else None, test_idx=s['test'] if given == 'test' else None)
        r = I.call_func(I.repo.get(q), [s['X'], s['Y'], kw['train_idx'], kw['test_idx'], s['sc'], s['est']], {})
        tr, te, sc, est = r
        g = s['train'] if given == 'train' else s['test']
        other = te if given == 'train' else tr
        I.ob('post[C13]:given-index-set-is-kept', BoolVal((tr if given == 'train' else te).id == g.id), kind='post')
        I.ob('post[C13]:missing-index-set-is-the-complement-of-the-given-one', TI_(I, other) == COMPL(s['n'], TI_(I, g)), kind='post')
        I.ob('post[C13]:user-scaler-and-estimator-are-kept', BoolVal(sc is s['sc'] and est is s['est']), kind='post')
    return Unit(f'check_input[{given}-given]', body, funcs=FUNCS, functions=[q])

LREP = z3.Function('LREP', TA, TA, IntS, TI, TI, TA)
def lre_pointwise_contract():
    def make_result(I, F):
        I.cur['lre_args'] = dict(F)
        return mk(I, LREP(T_(I, F['X']), T_(I, F['Y']), tz(F['n_local_points']), TI_(I, F['train_idx']), TI_(I, F['test_idx'])), (I.A(F['test_idx']).shape[0],))
    return FuncContract(make_result=make_result)

def u_global_lre():
    q = RM + '.local_reconstruction_error'
    def body(I):
        s = setup(I)
        k = I.fresh('n_local_points', IntS); I.assume(And(k >= 2, k <= s['ntr']))
        r = I.call_func(I.repo.get(q), [s['X'], s['Y'], k], dict(train_idx=s['train'], test_idx=s['test'], scaler=s['sc'], estimator=s['est'], n_jobs=1))
        F = I.cur.get('lre_args')
        I.ob('post[C13]:pointwise-values-computed-once-with-the-arguments-handed-in', BoolVal(F is not None and F['X'].id == s['X'].id and F['Y'].id == s['Y'].id and F['train_idx'].id == s['train'].id
                                                                                              and F['test_idx'].id == s['test'].id and F['scaler'] is s['sc'] and F['estimator'] is s['est'] and F['n_jobs'] == 1), kind='post')
        I.ob('post[C13]:same-number-of-neighbours', tz(F['n_local_points']) == k if F else BoolVal(False), kind='post')
        spec = LREP(T_(I, s['X']), T_(I, s['Y']), k, TI_(I, s['train']), TI_(I, s['test']))
        I.ob('post[C13]:global-value-is-the-root-mean-square-of-the-pointwise-values (norm / sqrt(number of test points))', to_real(tz(r)) == NORM(spec) / SQRT(z3.ToReal(s['nte'])), kind='post')
    fn = dict(FUNCS); fn[RM + '.pointwise_local_reconstruction_error'] = lre_pointwise_contract()
    return Unit('global_lre', body, funcs=fn, functions=[q])

UNITS = [lambda: u_global_lre(), lambda: u_pointwise('gre'), lambda: u_pointwise('grd'), lambda: u_global('gre'), lambda: u_global('grd'), lambda: u_defaults('train'), lambda: u_defaults('test')]
RT = True
EVIDENCE_LEVEL = 'exploration'      # most clauses of C13 depend on what the estimator computes: the property as a whole stays at the bounded level
TRUSTED = ["data-flow terms: whole arrays as terms over uninterpreted scaler / estimator / orthogonal-regression functions (free term algebra: equal terms mean the same data flow)",
           "OrthogonalRegression(use_orthogonal_projector=False).predict works in the zero-padded space of max(n_x, n_y) columns (proved under C18)",
           "everything that depends on what the estimator computes (zero error on contained information, invariances under rotations / scalings / shifts, GRE <= 1 on the training set, LRE with all "
           "training points = pointwise GRE) and the local (LRE) neighbourhood construction: bounded runtime checks only"]
