"""C02 — FPS / PCov-FPS pick a farthest candidate each step and report true distances (contracts in contracts/selectors.py)."""
import os
from contracts import selectors as S
from contracts.selectors import extend_ext
C = S.Cfg
cfgs = [C('FPS', 'sample'), C('FPS', 'feature'), C('PCovFPS', 'sample'), C('PCovFPS', 'feature'),
        C('FPS', 'sample', init='list2'), C('FPS', 'feature', init='list2'), C('FPS', 'feature', init='random'), C('PCovFPS', 'sample', init='random'),
        C('FPS', 'sample', nsel='none'), C('FPS', 'feature', nsel='float'), C('PCovFPS', 'feature', nsel='none'),
        C('FPS', 'sample', warm=True), C('FPS', 'feature', warm=True), C('PCovFPS', 'sample', warm=True), C('PCovFPS', 'feature', warm=True),
        C('FPS', 'sample', thr='absolute'), C('PCovFPS', 'feature', thr='relative')]
UNITS = [(lambda c: (lambda: S.u_fit(c)))(c) for c in cfgs]
UNITS += [(lambda c: (lambda: S.u_views(c)))(c) for c in (C('FPS', 'feature'), C('FPS', 'sample'), C('PCovFPS', 'feature'), C('PCovFPS', 'sample'))]
RT = True
TRUSTED = ["vector layer (see C01); Lean theorem sqd_expand (lemmas/lean/Lemmas.lean, machine-checked by Lean 4 + Mathlib): ||u-v||^2 = <u,u> + <v,v> - 2<u,v>",
           "PCov-FPS: the distance is d(a,b) = D_aa + D_bb - 2 D_ab over the matrix D returned by pcovr_kernel/pcovr_covariance (called with the configured mixing on (X, y): call-site preconditions); that D is the documented modified Gram/covariance matrix is the subject of C03",
           "rounding and ties within rounding are not decided (proofs are over the reals); bounded runtime oracle with tie-aware acceptance only"]
LEAN_LEMMAS = "lemmas/lean/Lemmas.lean"
