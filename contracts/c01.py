"""C01 — every selector returns a consistent set of distinct, valid indices (contracts in contracts/selectors.py)."""
import os
from contracts import selectors as S
from contracts.selectors import extend_ext
C = S.Cfg
THOROUGH = os.environ.get('VERIF_TIER') == 'thorough' or os.environ.get('PYVC_TIER') == 'thorough'
def _cfgs():
    out = []
    fams = [('FPS', 'sample'), ('FPS', 'feature'), ('PCovFPS', 'sample'), ('PCovFPS', 'feature'), ('CUR', 'sample'), ('CUR', 'feature'),
            ('PCovCUR', 'sample'), ('PCovCUR', 'feature'), ('VoronoiFPS', 'sample')]
    # base configuration for every family and direction, then one dimension varied at a time (paths are independent: n_to_select
    # only feeds the size computation, the threshold only _get_best_new_selection, warm/cold only init/continue, initialize only _init)
    for f, d in fams:
        out.append(C(f, d))
        out.append(C(f, d, warm=True))
    var = [dict(nsel='none'), dict(nsel='float'), dict(thr='absolute'), dict(thr='relative'), dict(thr='relative', warm=True), dict(nsel='none', warm=True)]
    for k, (f, d) in enumerate(fams):
        for j, v in enumerate(var):
            if THOROUGH or (k + j) % 3 == 0: out.append(C(f, d, **v))
    out += [C('FPS', 'sample', init='list2'), C('FPS', 'feature', init='random'), C('PCovFPS', 'sample', init='random'), C('VoronoiFPS', 'sample', init='random'),
            C('FPS', 'sample', with_y=True), C('FPS', 'sample', with_y=True, warm=True), C('CUR', 'sample', with_y=True),
            C('CUR', 'feature', recompute=0), C('CUR', 'sample', recompute=2), C('PCovCUR', 'feature', recompute=0), C('PCovCUR', 'sample', recompute=0, warm=True),
            C('CUR', 'feature', recompute=0, warm=True)]
    return out
UNITS = [(lambda c: (lambda: S.u_fit(c)))(c) for c in _cfgs()]
UNITS += [(lambda c: (lambda: S.u_views(c)))(c) for c in (C('FPS', 'feature'), C('FPS', 'sample'), C('CUR', 'feature'), C('PCovCUR', 'sample'), C('VoronoiFPS', 'sample'), C('PCovFPS', 'feature'))]
UNITS += [lambda: S.u_voronoi_update()]
UNITS += [(lambda t, f: (lambda: S.u_pick_threshold(t, f)))(t, f) for t in ('absolute', 'relative') for f in (False, True)]
RT = True
TRUSTED = ["vector layer: rows/columns as terms of an uninterpreted sort with symmetric inner product, ||u-v||^2 >= 0, zero vector (no extensionality assumed)",
           "modular contracts: X_orthogonalizer zeroes the selected slice in its normalising branch and keeps zero slices zero, _compute_pi returns one non-negative score per candidate (both proved for the real functions under C07); a candidate with a zero residual slice has score 0 while the residual rank is >= k (property of the external singular-vector routine, assumed)",
           "modular contract: pcovr_kernel / pcovr_covariance return a symmetric matrix (called with the configured mixing on the validated data: checked as call-site preconditions)",
           "sklearn validation (check_array/check_X_y/_validate_data) returns the float input unchanged or raises; y must be 1-D for the selectors (2-D y is rejected by _validate_data)"]
