"""C17 — SparseKDE: the plumbing of fit / score that is plain code of this repository is under deductive contracts; the property as a whole (nearest-grid assignment loop
with per-grid member lists in a dict, bandwidth estimation, mixture evaluation, invariances) stays at the bounded level (runtime contracts against the mixture recomputed
from the fitted state).

Real functions: SparseKDE.__init__, fit, _assign_descriptors_to_grids, score, score_samples, _check_dimension, kdecut_squared (skmatter/neighbors/_sparsekde.py)."""
from pyvc.api import *
from pyvc import skstubs
from pyvc.engine import ExtNS, ExtClass, Opaque

KD = 'skmatter.neighbors._sparsekde.SparseKDE'
NG = 'skmatter.neighbors._sparsekde._NearestGridAssigner'
SQRT = npstubs.SQRT

def extend_ext(ext):
    skstubs.install(ext)
    for k in ('typing.Callable', 'typing.Optional', 'typing.Union', 'scipy.special.logsumexp', 'tqdm.tqdm', 'sklearn.base.BaseEstimator', 'sklearn.utils.validation._check_sample_weight',
              'sklearn.utils.validation.check_is_fitted', 'sklearn.utils.validation.check_random_state'):
        ext['names'].setdefault(k, ExtClass(k.split('.')[-1]))
    np_ = ext['modules']['np']
    def fill_diagonal(I, a, v, **kw):
        A = I.A(a)
        I.st.heap[a.id] = ArrVal(A.shape, lambda i, j: If(tz(i) == tz(j), npstubs.coerce(tz(v), A.sort), A.elem(i, j)), A.sort, ('filled-diagonal', A, v))
    np_.fill_diagonal = fill_diagonal
    pmin = np_.min
    def min_(I, a, axis=None, **kw):
        A = I.A(a)
        if A.ndim == 2 and axis == 1:
            npstubs.used('np.min(axis=1) (row minimum with a witness column)')
            n = tz(A.shape[1])
            r = I.fresh_fn('rowmin', IntS, RealS); w = I.fresh_fn('rowminwit', IntS, IntS); i, j = Int('i!m'), Int('j!m')
            I.assume(ForAll([i], Implies(And(0 <= i, i < tz(A.shape[0])), And(0 <= w(i), w(i) < n, r(i) == A.elem(i, w(i)))), patterns=[r(i)]))
            I.assume(ForAll([i, j], Implies(And(0 <= i, i < tz(A.shape[0]), 0 <= j, j < n), r(i) <= A.elem(i, j)), patterns=[z3.MultiPattern(r(i), A.elem(i, j))]))
            return I.new_arr(ArrVal((A.shape[0],), lambda t: r(tz(t)), RealS, ('rowmin', A)))
        return pmin(I, a, axis=axis, **kw)
    np_.min = min_
    psum = np_.sum
    def sum_(I, a, axis=None, **kw):
        r = psum(I, a, axis=axis, **kw)
        if isinstance(getattr(I, 'cur', None), dict) and 'sum_calls' in I.cur and isinstance(a, ArrRef): I.cur['sum_calls'].append((a, tz(r)))
        return r
    np_.sum = sum_
    assigner_ext(ext)

def assigner_contracts():
    def fit_res(I, F):
        I.cur.setdefault('assigner', {})['fit_on'] = F['X']; return None
    def pred_res(I, F):
        st = I.cur.setdefault('assigner', {}); st['predict_on'] = F['X']; st['weights'] = F.get('sample_weight')
        o = I.O(F['self'])
        g = I.A(st['fit_on']).shape[0]; n = I.A(F['X']).shape[0]
        o.attrs['grid_npoints'] = I.fresh_arr('grid_npoints', (g,), IntS); o.attrs['grid_weight'] = I.fresh_arr('grid_weight', (g,))
        o.attrs['grid_neighbour'] = Opaque('grid_neighbour')
        st['attrs'] = dict(grid_npoints=o.attrs['grid_npoints'], grid_weight=o.attrs['grid_weight'], grid_neighbour=o.attrs['grid_neighbour'])
        lab = I.fresh_arr('labels', (n,), IntS); st['labels'] = lab
        return lab
    return {NG + '.fit': FuncContract(make_result=fit_res), NG + '.predict': FuncContract(make_result=pred_res)}

def bw_contract():
    def res(I, F):
        I.cur['bw_args'] = dict(F); return None
    return FuncContract(make_result=res)

def kde_contract():
    def res(I, F):
        I.cur['kde_arg'] = F['X']
        r = I.fresh_arr('logdens', (I.A(F['X']).shape[0],)); I.cur['kde_res'] = r
        return r
    return FuncContract(make_result=res)

def make_metric(I):
    calls = []
    def metric(I2, X, Y, **kw):
        calls.append((X, Y, dict(kw)))
        return I2.fresh_arr('dist', (I2.A(X).shape[0], I2.A(Y).shape[0]))
    metric.calls = calls
    return metric

def u_fit(with_cell, with_weights):
    def body(I):
        n, g, d = I.fresh('n', IntS), I.fresh('g', IntS), I.fresh('d', IntS); I.assume(And(n >= 1, g >= 1, d >= 1))
        I.cur = {}
        D = I.fresh_arr('descriptors', (n, d)); G = I.fresh_arr('grid', (g, d))
        w = I.fresh_arr('w', (n,)) if with_weights else None
        cell = I.fresh_arr('cell', (d,)) if with_cell else None
        metric = make_metric(I)
        cls = I.repo.get(KD)
        me = I.instantiate(cls, [D], dict(weights=w, metric=metric, metric_params=({'cell_length': cell} if with_cell else None)))
        o = I.O(me)
        I.ob('post[C17]:descriptors-stored-untouched', BoolVal(o.attrs['descriptors'].id == D.id), kind='post')
        W = I.A(o.attrs['weights']); wi = I.fresh('i', IntS); I.assume(And(0 <= wi, wi < n))
        if with_weights:
            tot = I.cur.get('sum_w')
            I.ob('post[C17]:descriptor-weights-are-normalised-by-their-sum', BoolVal(W.tag is not None and W.tag[0] == 'divs' and W.tag[1].id == w.id), kind='post')
        o.attrs['_bandwidth_inv_'] = Opaque('stale'); o.attrs['_normkernels_'] = Opaque('stale')
        r = I.call_func(I.find_method(cls, 'fit'), [me, G], {})
        o = I.O(me)
        I.ob('post[C09]:fit-returns-self', BoolVal(isinstance(r, ObjRef) and r.id == me.id), kind='post')
        I.ob('post[C17]:cached-inverse-bandwidths-and-normalisations-are-reset-by-fit', BoolVal(o.attrs['_bandwidth_inv_'] is None and o.attrs['_normkernels_'] is None), kind='post')
        I.ob('post[C17]:grid-stored', BoolVal(o.attrs['_grids'].id == G.id), kind='post')
        st = I.cur.get('assigner', {})
        I.ob('post[C17]:assigner-is-fitted-on-the-grid-and-assigns-the-descriptors-with-the-normalised-descriptor-weights',
             BoolVal(st.get('fit_on') is not None and st['fit_on'].id == G.id and st.get('predict_on') is not None and st['predict_on'].id == o.attrs['descriptors'].id
                     and st.get('weights') is not None and st['weights'].id == o.attrs['weights'].id), kind='post')
        if st.get('attrs'):
            I.ob('post[C17]:labels-grid-weights-and-member-lists-are-those-of-the-assigner', BoolVal(o.attrs['_sample_labels_'].id == st['labels'].id and o.attrs['_sample_weights'].id == st['attrs']['grid_weight'].id
                                                                                                     and o.attrs['_grid_neighbour'] is st['attrs']['grid_neighbour']), kind='post')
        # metric: squared distances with the configured cell, grid against grid
        calls = metric.calls
        ok = len(calls) == 1 and calls[0][0].id == G.id and calls[0][1].id == G.id and calls[0][2].get('squared') is True and (calls[0][2].get('cell_length') is cell if with_cell else calls[0][2].get('cell_length') is None)
        I.ob('post[C17]:fit-measures-squared-grid-to-grid-distances-with-the-configured-cell', BoolVal(ok), kind='post')
        bw = I.cur.get('bw_args')
        I.ob('post[C17]:bandwidths-estimated-from-the-grid-the-grid-weights-and-the-distance-to-the-nearest-OTHER-grid-point', BoolVal(bw is not None and bw['X'].id == G.id and st.get('attrs') is not None
                                                                                                                                   and bw['sample_weights'].id == st['attrs']['grid_weight'].id), kind='post')
        if bw is not None:
            M = I.A(bw['mindist']); dist = I.A(calls[0][0]) if False else None
            gi, gj = I.fresh('gi', IntS), I.fresh('gj', IntS); I.assume(And(0 <= gi, gi < g, 0 <= gj, gj < g, gi != gj))
            ok2 = M.tag is not None and M.tag[0] == 'rowmin' and M.tag[1].tag is not None and M.tag[1].tag[0] == 'filled-diagonal'
            I.ob('post[C17]:nearest-grid-distance-is-the-row-minimum-of-the-distance-matrix-with-an-infinite-diagonal', BoolVal(ok2), kind='post')
            if ok2:
                base = M.tag[1].tag[1]
                I.ob('post[C17]:...taken-over-the-other-grid-points', And(M.elem(gi) <= base.elem(gi, gj), tz(M.tag[1].tag[2]) == INF), kind='post')
        I.ob('post[C17]:fitted-flag-set', BoolVal(o.attrs.get('fitted_') is True), kind='post')
    funcs = assigner_contracts(); funcs[KD + '._computes_localized_bandwidth'] = bw_contract()
    return Unit(f'SparseKDE.fit[{"cell" if with_cell else "free"},{"weights" if with_weights else "uniform"}]', body, funcs=funcs, functions=[KD + '.__init__', KD + '.fit', KD + '._assign_descriptors_to_grids'])

def u_score():
    def body(I):
        n, d, q = I.fresh('n', IntS), I.fresh('d', IntS), I.fresh('q', IntS); I.assume(And(n >= 1, d >= 1, q >= 1))
        I.cur = {}
        D = I.fresh_arr('descriptors', (n, d)); Q = I.fresh_arr('queries', (q, d))
        cls = I.repo.get(KD)
        me = I.instantiate(cls, [D], {})
        sums = []
        r = I.call_func(I.find_method(cls, 'score_samples'), [me, Q], {})
        I.ob('post[C17]:score_samples-is-the-kernel-density-estimate-of-the-queries', BoolVal(I.cur.get('kde_arg') is not None and I.cur['kde_arg'].id == Q.id and r.id == I.cur['kde_res'].id), kind='post')
        I.cur['sum_calls'] = []
        s = I.call_func(I.find_method(cls, 'score'), [me, Q], {})
        sc = I.cur.get('sum_calls', [])
        I.ob('post[C17]:score-is-the-sum-of-score_samples', BoolVal(len(sc) == 1 and sc[0][0].id == I.cur['kde_res'].id and tz(s).eq(sc[0][1])), kind='post')
        dd = I.call_func(I.find_method(cls, 'kdecut_squared'), [me], {}) if False else None
    return Unit('SparseKDE.score', body, funcs={KD + '._computes_kernel_density_estimation': kde_contract()}, functions=[KD + '.score', KD + '.score_samples'])

def u_reject():
    def body(I):
        n, d, dc = I.fresh('n', IntS), I.fresh('d', IntS), I.fresh('dc', IntS); I.assume(And(n >= 1, d >= 1, dc >= 0, dc != d))
        I.cur = {}
        D = I.fresh_arr('descriptors', (n, d)); cell = I.fresh_arr('cell', (dc,))
        cls = I.repo.get(KD)
        I.instantiate(cls, [D], dict(metric_params={'cell_length': cell}))
        I.ob('reject[C17]:mismatched-cell-dimension-is-rejected', BoolVal(False), kind='post')
    return Unit('SparseKDE[mismatched-cell]', body, functions=[KD + '.__init__', KD + '._check_dimension'], on_raise=lambda I, st, r: r.kind == 'ValueError', reject_name='reject[C17]:mismatched-cell-dimension-is-rejected')


# ------------------------------------------------------------------ the assignment loop: _NearestGridAssigner.fit / predict
DIST = z3.Function('DIST', IntS, IntS, RealS)          # metric(descriptor t, grid point j)
AI, AR = z3.ArraySort(IntS, IntS), z3.ArraySort(IntS, RealS)
SUMSEL = z3.Function('SUMSEL', AI, AR, IntS, IntS, RealS)   # SUMSEL(L, w, k, j) = sum of w[t] over t < k with L[t] = j
CNTSEL = z3.Function('CNTSEL', AI, IntS, IntS, IntS)        # CNTSEL(L, k, j)    = number of t < k with L[t] = j
t_, j_ = Int('t'), Int('j')

SUMARR = z3.Function('SUMARR', AR, IntS, RealS)            # SUMARR(f, n) = f[0] + ... + f[n-1]
PSUM = z3.Function('PSUM', AR, IntS, RealS)                # prefix sums: PSUM(w, k) = w[0] + ... + w[k-1]
def total_axioms():
    f, f2 = z3.Consts('f!t f2!t', AR); n, r, k = Int('n!t'), Int('r!t'), Int('k!t'); dl = z3.Real('d!t')
    return [ForAll([f], PSUM(f, 0) == 0, patterns=[PSUM(f, 0)]),
            ForAll([f, k], Implies(k >= 0, PSUM(f, k + 1) == PSUM(f, k) + f[k]), patterns=[PSUM(f, k + 1)]),
            ForAll([f, n], Implies(ForAll([t_], Implies(And(0 <= t_, t_ < n), f[t_] == 0)), SUMARR(f, n) == 0), patterns=[SUMARR(f, n)]),
            # a sum depends only on its first n entries; adding d to one entry adds d to the sum
            ForAll([f, f2, n], Implies(ForAll([t_], Implies(And(0 <= t_, t_ < n), f[t_] == f2[t_])), SUMARR(f, n) == SUMARR(f2, n)), patterns=[z3.MultiPattern(SUMARR(f, n), SUMARR(f2, n))]),
            ForAll([f, r, dl, n], Implies(And(0 <= r, r < n), SUMARR(z3.Lambda([t_], If(t_ == r, f[t_] + dl, f[t_])), n) == SUMARR(f, n) + dl), patterns=[SUMARR(z3.Lambda([t_], If(t_ == r, f[t_] + dl, f[t_])), n)])]

def sel_axioms():
    L, L2 = z3.Consts('L!s L2!s', AI); w = z3.Const('w!s', AR); k, j = Int('k!s'), Int('j!s')
    return [ForAll([L, w, j], SUMSEL(L, w, 0, j) == 0, patterns=[SUMSEL(L, w, 0, j)]),
            ForAll([L, j], CNTSEL(L, 0, j) == 0, patterns=[CNTSEL(L, 0, j)]),
            ForAll([L, w, k, j], Implies(k >= 0, SUMSEL(L, w, k + 1, j) == SUMSEL(L, w, k, j) + If(L[k] == j, w[k], RealVal(0))), patterns=[SUMSEL(L, w, k + 1, j)]),
            ForAll([L, k, j], Implies(k >= 0, CNTSEL(L, k + 1, j) == CNTSEL(L, k, j) + If(L[k] == j, 1, 0)), patterns=[CNTSEL(L, k + 1, j)]),
            # a sum over the first k entries depends only on the first k entries
            ForAll([L, L2, w, k, j], Implies(ForAll([t_], Implies(And(0 <= t_, t_ < k), L[t_] == L2[t_])), SUMSEL(L, w, k, j) == SUMSEL(L2, w, k, j)), patterns=[z3.MultiPattern(SUMSEL(L, w, k, j), SUMSEL(L2, w, k, j))]),
            ForAll([L, L2, k, j], Implies(ForAll([t_], Implies(And(0 <= t_, t_ < k), L[t_] == L2[t_])), CNTSEL(L, k, j) == CNTSEL(L2, k, j)), patterns=[z3.MultiPattern(CNTSEL(L, k, j), CNTSEL(L2, k, j))])]

class SymDictOfLists:
    """{i: [] for i in range(<symbolic n>)}: per-key member lists; appends are not tracked (nothing proved here depends on them), the final conversion loop is skipped"""
    def _pyvc_getitem(self, I, b, ix): return skstubs.StubObj(kind='symlist', append=lambda I2, v: None)
    def _pyvc_for(self, I, s, F): return None

def assigner_ext(ext):
    ext['dictcomp_sym'] = lambda I, e, g, it, F: SymDictOfLists()
    np_ = ext['modules']['np']
    pam = np_.argmin
    def argmin_(I, a, axis=None, **kw):
        A = I.A(a)
        if A.ndim == 2 and axis is None and conc(A.shape[0]) == 1:
            npstubs.used('np.argmin of a 1 x g array (first minimum)')
            g = tz(A.shape[1])
            I.ob('pre:np.argmin:non-empty', g >= 1, kind='pre')
            r = I.fresh('argmin', IntS); j = Int('j!am')
            I.assume(And(0 <= r, r < g, ForAll([j], Implies(And(0 <= j, j < g), A.elem(0, r) <= A.elem(0, j)), patterns=[A.elem(0, j)]),
                         ForAll([j], Implies(And(0 <= j, j < r), A.elem(0, j) > A.elem(0, r)), patterns=[A.elem(0, j)])))
            return r
        return pam(I, a, axis=axis, **kw)
    np_.argmin = argmin_
    pax = np_.argmax
    def argmax_(I, a, axis=None, **kw):
        A = I.A(a)
        if A.ndim == 2 and axis is None and conc(A.shape[0]) == 1:
            npstubs.used('np.argmax of a 1 x g array (first maximum)')
            g = tz(A.shape[1]); r = I.fresh('argmax', IntS); j = Int('j!ax')
            I.ob('pre:np.argmax:non-empty', g >= 1, kind='pre')
            I.assume(And(0 <= r, r < g, ForAll([j], Implies(And(0 <= j, j < g), A.elem(0, r) >= A.elem(0, j)), patterns=[A.elem(0, j)])))
            return r
        return pax(I, a, axis=axis, **kw)
    np_.argmax = argmax_

def u_assigner(weighted):
    q = NG + '.predict'
    def lam_int(A): return z3.Lambda([t_], A.elem(t_))
    def lam_real(A): return z3.Lambda([t_], to_real(A.elem(t_)))
    def inv(I, F, i, gh):
        c = I.cur; o = I.O(F['self']); g = c['g']
        Lst = o.attrs['labels_']
        L = I.A(Lst) if isinstance(Lst, ArrRef) else None
        W = I.A(F['sample_weight']); npnt = I.A(o.attrs['grid_npoints']); gw = I.A(o.attrs['grid_weight'])
        if L is None:      # before the first iteration the list is the empty python list
            return [('[C17]one-count-and-one-weight-per-grid-point', And(tz(npnt.shape[0]) == g, tz(gw.shape[0]) == g)),
                    ('[C17]labels-so-far', BoolVal(isinstance(Lst, list) and len(Lst) == 0 and z3.is_int_value(z3.simplify(tz(i))) and z3.simplify(tz(i)).as_long() == 0) if not is_sym(conc(i)) else BoolVal(False)),
                    ('[C17]grid-counts-are-the-numbers-of-assigned-descriptors', ForAll([j_], Implies(And(0 <= j_, j_ < g), npnt.elem(j_) == 0))),
                    ('[C17]grid-weights-are-the-sums-of-the-assigned-descriptor-weights', ForAll([j_], Implies(And(0 <= j_, j_ < g), gw.elem(j_) == 0))),
                    ] + ([('[C17]grid-weights-total-the-weights-of-the-descriptors-seen', SUMARR(lam_real(gw), g) == 0)] if weighted else [])
        LL, WW = lam_int(L), lam_real(W)
        return [('[C17]one-label-per-descriptor-seen', tz(L.shape[0]) == i),
                ('[C17]one-count-and-one-weight-per-grid-point', And(tz(npnt.shape[0]) == g, tz(gw.shape[0]) == g)),
                ('[C17]every-label-is-a-grid-point-nearest-to-its-descriptor', ForAll([t_, j_], Implies(And(0 <= t_, t_ < i, 0 <= j_, j_ < g), And(0 <= L.elem(t_), L.elem(t_) < g, DIST(t_, L.elem(t_)) <= DIST(t_, j_))), patterns=[z3.MultiPattern(L.elem(t_), DIST(t_, j_))])),
                ('[C17]grid-counts-are-the-numbers-of-assigned-descriptors', ForAll([j_], Implies(And(0 <= j_, j_ < g), npnt.elem(j_) == CNTSEL(LL, i, j_)), patterns=[npnt.elem(j_)])),
                ('[C17]grid-weights-are-the-sums-of-the-assigned-descriptor-weights', ForAll([j_], Implies(And(0 <= j_, j_ < g), gw.elem(j_) == SUMSEL(LL, WW, i, j_)), patterns=[gw.elem(j_)])),
                ] + ([('[C17]grid-weights-total-the-weights-of-the-descriptors-seen', _stash(I, i, gw, SUMARR(lam_real(gw), g) == PSUM(WW, i)))] if weighted else [])
    def _stash(I, i, gw, f):
        I.cur.setdefault('gw_at', []).append((tz(i), gw)); return f
    def hints(I, Fpre, Fpost, i, gpre, gpost):
        c = I.cur; g = c['g']; o = I.O(Fpost['self'])
        pre = [gwv for (ii, gwv) in c.get('gw_at', []) if z3.eq(ii, tz(i))]
        if not pre: return []
        gw0 = pre[-1]; gw1 = I.A(o.attrs['grid_weight']); L = I.A(o.attrs['labels_']); W = I.A(Fpost['sample_weight'])
        r = L.elem(tz(i)); dl = to_real(W.elem(tz(i)))
        canon = z3.Lambda([t_], If(t_ == r, lam_real(gw0)[t_] + dl, lam_real(gw0)[t_]))
        # instances of the two SUMARR axioms (total_axioms) for these concrete term functions
        I.assume(Implies(And(0 <= r, r < g), SUMARR(canon, g) == SUMARR(lam_real(gw0), g) + dl))
        I.assume(Implies(ForAll([t_], Implies(And(0 <= t_, t_ < g), lam_real(gw1)[t_] == canon[t_])), SUMARR(lam_real(gw1), g) == SUMARR(canon, g)))
        return [('updated-weights-are-the-old-ones-with-the-descriptor-weight-added-at-its-label', ForAll([t_], Implies(And(0 <= t_, t_ < g), lam_real(gw1)[t_] == canon[t_]))),
                ('...so-their-total-grows-by-that-weight', SUMARR(lam_real(gw1), g) == SUMARR(lam_real(gw0), g) + dl)]
    def body(I):
        n, g, d = I.fresh('n', IntS), I.fresh('g', IntS), I.fresh('d', IntS); I.assume(And(n >= 1, g >= 1, d >= 1))
        I.use_axioms('sel', sel_axioms() + (total_axioms() if weighted else []))
        I.cur = dict(g=g, n=n)
        X = I.fresh_arr('descriptors', (n, d)); G = I.fresh_arr('grid', (g, d)); w = I.fresh_arr('w', (n,))
        Xf = I.A(X).tag[1] if I.A(X).tag and I.A(X).tag[0] == 'base' else None
        def metric(I2, P, Gq, **kw):
            # squared distance of ONE descriptor (a 1 x d row of the descriptor matrix) to every grid point
            A = I2.A(P)
            c0 = Int('c!probe'); term = z3.simplify(A.elem(IntVal(0), c0))
            if not (z3.is_app(term) and term.num_args() == 2 and Gq.id == G.id): raise Unsupported("metric called on something else than one descriptor row and the grid")
            row = term.arg(0)
            I2.cur.setdefault('metric_rows', []).append(row)
            return I2.new_arr(ArrVal((1, I2.A(Gq).shape[0]), lambda a, b: DIST(row, tz(b)), RealS))
        cls = I.repo.get(NG)
        me = I.instantiate(cls, [metric, None, False], {})
        I.call_func(I.find_method(cls, 'fit'), [me, G], {})
        o = I.O(me)
        I.ob('post[C17]:fit-stores-the-grid-and-zeroes-counts-and-weights', And(BoolVal(o.attrs['grid_pos'].id == G.id), tz(I.A(o.attrs['grid_npoints']).shape[0]) == g, tz(I.A(o.attrs['grid_weight']).shape[0]) == g), kind='post')
        r = I.call_func(I.find_method(cls, 'predict'), [me, X], dict(sample_weight=w) if weighted else {})
        o = I.O(me)
        L = I.A(r); W = I.A(w)
        I.ob('post[C17]:returns-the-label-list', BoolVal(isinstance(r, ArrRef) and r.id == o.attrs['labels_'].id), kind='post')
        t, j = I.fresh('t', IntS), I.fresh('j', IntS); I.assume(And(0 <= t, t < n, 0 <= j, j < g))
        I.ob('post[C17]:one-label-per-descriptor', tz(L.shape[0]) == n, kind='post')
        I.ob('post[C17]:each-descriptor-is-assigned-to-a-nearest-grid-point', And(0 <= L.elem(t), L.elem(t) < g, DIST(t, L.elem(t)) <= DIST(t, j)), kind='post')
        if weighted:
            LL, WW = lam_int(L), lam_real(W)
            I.ob('post[C17]:grid-weights-are-the-sums-of-the-assigned-descriptor-weights', I.A(o.attrs['grid_weight']).elem(j) == SUMSEL(LL, WW, n, j), kind='post')
            I.ob('post[C17]:grid-counts-are-the-numbers-of-assigned-descriptors', I.A(o.attrs['grid_npoints']).elem(j) == CNTSEL(LL, n, j), kind='post')
            I.ob('post[C17]:grid-weights-total-the-sum-of-the-descriptor-weights (one, for the normalised weights SparseKDE hands in)', SUMARR(lam_real(I.A(o.attrs['grid_weight'])), g) == PSUM(WW, n), kind='post')
    return Unit(f'_NearestGridAssigner[{"weights" if weighted else "uniform"}]', body, loops={(q, 0): LoopContract(inv, hints=(hints if weighted else None))}, functions=[NG + '.fit', NG + '.predict'])

UNITS = [lambda: u_assigner(True), lambda: u_assigner(False), lambda: u_fit(True, True), lambda: u_fit(False, False), lambda: u_fit(False, True), lambda: u_score(), lambda: u_reject()]
RT = True
EXTRA_MODULES = ['c17b']      # _local_population: what it computes, for every number of grid points / dimensions / cell (own numpy model)
LEAN_LEMMAS = "lemmas/lean/Lemmas.lean"
EVIDENCE_LEVEL = 'exploration'
TRUSTED = ["the property as a whole is bounded (invariances, finite positive-definite bandwidths, effdim, the localisation bisection): independent numpy oracle (mixture recomputed from the fitted state, brute-force nearest-grid assignment and weight sums)",
           "proved part: the assignment loop (labels nearest, counts and weights = prefix sums, total preserved), _local_population (Gaussian of the minimum-image squared distance times the grid weight, population = their sum, caller arrays untouched), the local covariance (_covariance in free space: weighted outer products of the centred points with the unbiasing factor, symmetric), the OAS shrinkage (formula, keeps symmetry), the assembly of one bandwidth (Silverman factor times the shrunk local covariance, effective dimension from the unshrunk one; EVERY BANDWIDTH MATRIX IS SYMMETRIC), the per-grid-point localisation loop _computes_localized_bandwidth and the spread tuning (which population is measured where, which tuning is taken when, what is estimated from what and stored where), the cached properties _bandwidth_inv / _normkernels (entry j = inverse / d log 2pi + log|det| of the bandwidth of grid point j, computed once, served from the cache afterwards, unavailable before fit), and the plumbing (what fit passes to the assigner / the bandwidth estimation, cache reset, score = sum of score_samples, rejects); what LAPACK computes for the eigenvalues inside effdim (its formula over them IS proved), the TERMINATION of the bisection inside the tuning by the fraction of points (its partial correctness is proved; recorded finding), the periodic branch of _covariance, positive definiteness / finiteness of the bandwidths are NOT under deductive contracts; the mixture loop IS (score_samples = log of the documented mixture, for every input: contracts/c17b.py)",
           "finite-sum functionals SUMARR / PSUM / SUMSEL / CNTSEL with their recursion laws; two of the laws used are machine-checked as Lean theorems over Finset sums: sum_update_add (adding d to one entry adds d to the sum) and fibre_sums_total (the per-grid-point sums of the assigned weights total the descriptor weights)"]
