"""C17 — SparseKDE: the plumbing of fit / score that is plain code of this repository is under deductive contracts; the property as a whole (nearest-grid assignment loop
with per-grid member lists in a dict, bandwidth estimation, mixture evaluation, invariances) stays at the bounded level (runtime contracts against the mixture recomputed
from the fitted state).

Real functions: SparseKDE.__init__, fit, _assign_descriptors_to_grids, score, score_samples, _check_dimension, kdecut_squared (skmatter/neighbors/_sparsekde.py)."""
from pyvc.api import *
from pyvc import skstubs
from pyvc.engine import ExtNS, ExtClass, Opaque

KD = 'skmatter.neighbors._sparsekde.SparseKDE'
NG = 'skmatter.neighbors._sparsekde._NearestGridAssigner'
SQRT = npstubs.SQRT

def extend_ext(ext):
    skstubs.install(ext)
    for k in ('typing.Callable', 'typing.Optional', 'typing.Union', 'scipy.special.logsumexp', 'tqdm.tqdm', 'sklearn.base.BaseEstimator', 'sklearn.utils.validation._check_sample_weight',
              'sklearn.utils.validation.check_is_fitted', 'sklearn.utils.validation.check_random_state'):
        ext['names'].setdefault(k, ExtClass(k.split('.')[-1]))
    np_ = ext['modules']['np']
    def fill_diagonal(I, a, v, **kw):
        A = I.A(a)
        I.st.heap[a.id] = ArrVal(A.shape, lambda i, j: If(tz(i) == tz(j), npstubs.coerce(tz(v), A.sort), A.elem(i, j)), A.sort, ('filled-diagonal', A, v))
    np_.fill_diagonal = fill_diagonal
    pmin = np_.min
    def min_(I, a, axis=None, **kw):
        A = I.A(a)
        if A.ndim == 2 and axis == 1:
            npstubs.used('np.min(axis=1) (row minimum with a witness column)')
            n = tz(A.shape[1])
            r = I.fresh_fn('rowmin', IntS, RealS); w = I.fresh_fn('rowminwit', IntS, IntS); i, j = Int('i!m'), Int('j!m')
            I.assume(ForAll([i], Implies(And(0 <= i, i < tz(A.shape[0])), And(0 <= w(i), w(i) < n, r(i) == A.elem(i, w(i)))), patterns=[r(i)]))
            I.assume(ForAll([i, j], Implies(And(0 <= i, i < tz(A.shape[0]), 0 <= j, j < n), r(i) <= A.elem(i, j)), patterns=[z3.MultiPattern(r(i), A.elem(i, j))]))
            return I.new_arr(ArrVal((A.shape[0],), lambda t: r(tz(t)), RealS, ('rowmin', A)))
        return pmin(I, a, axis=axis, **kw)
    np_.min = min_
    psum = np_.sum
    def sum_(I, a, axis=None, **kw):
        r = psum(I, a, axis=axis, **kw)
        if isinstance(getattr(I, 'cur', None), dict) and 'sum_calls' in I.cur and isinstance(a, ArrRef): I.cur['sum_calls'].append((a, tz(r)))
        return r
    np_.sum = sum_

def assigner_contracts():
    def fit_res(I, F):
        I.cur.setdefault('assigner', {})['fit_on'] = F['X']; return None
    def pred_res(I, F):
        st = I.cur.setdefault('assigner', {}); st['predict_on'] = F['X']; st['weights'] = F.get('sample_weight')
        o = I.O(F['self'])
        g = I.A(st['fit_on']).shape[0]; n = I.A(F['X']).shape[0]
        o.attrs['grid_npoints'] = I.fresh_arr('grid_npoints', (g,), IntS); o.attrs['grid_weight'] = I.fresh_arr('grid_weight', (g,))
        o.attrs['grid_neighbour'] = Opaque('grid_neighbour')
        st['attrs'] = dict(grid_npoints=o.attrs['grid_npoints'], grid_weight=o.attrs['grid_weight'], grid_neighbour=o.attrs['grid_neighbour'])
        lab = I.fresh_arr('labels', (n,), IntS); st['labels'] = lab
        return lab
    return {NG + '.fit': FuncContract(make_result=fit_res), NG + '.predict': FuncContract(make_result=pred_res)}

def bw_contract():
    def res(I, F):
        I.cur['bw_args'] = dict(F); return None
    return FuncContract(make_result=res)

def kde_contract():
    def res(I, F):
        I.cur['kde_arg'] = F['X']
        r = I.fresh_arr('logdens', (I.A(F['X']).shape[0],)); I.cur['kde_res'] = r
        return r
    return FuncContract(make_result=res)

def make_metric(I):
    calls = []
    def metric(I2, X, Y, **kw):
        calls.append((X, Y, dict(kw)))
        return I2.fresh_arr('dist', (I2.A(X).shape[0], I2.A(Y).shape[0]))
    metric.calls = calls
    return metric

def u_fit(with_cell, with_weights):
    def body(I):
        n, g, d = I.fresh('n', IntS), I.fresh('g', IntS), I.fresh('d', IntS); I.assume(And(n >= 1, g >= 1, d >= 1))
        I.cur = {}
        D = I.fresh_arr('descriptors', (n, d)); G = I.fresh_arr('grid', (g, d))
        w = I.fresh_arr('w', (n,)) if with_weights else None
        cell = I.fresh_arr('cell', (d,)) if with_cell else None
        metric = make_metric(I)
        cls = I.repo.get(KD)
        me = I.instantiate(cls, [D], dict(weights=w, metric=metric, metric_params=({'cell_length': cell} if with_cell else None)))
        o = I.O(me)
        I.ob('post[C17]:descriptors-stored-untouched', BoolVal(o.attrs['descriptors'].id == D.id), kind='post')
        W = I.A(o.attrs['weights']); wi = I.fresh('i', IntS); I.assume(And(0 <= wi, wi < n))
        if with_weights:
            tot = I.cur.get('sum_w')
            I.ob('post[C17]:descriptor-weights-are-normalised-by-their-sum', BoolVal(W.tag is not None and W.tag[0] == 'divs' and W.tag[1].id == w.id), kind='post')
        o.attrs['_bandwidth_inv_'] = Opaque('stale'); o.attrs['_normkernels_'] = Opaque('stale')
        r = I.call_func(I.find_method(cls, 'fit'), [me, G], {})
        o = I.O(me)
        I.ob('post[C09]:fit-returns-self', BoolVal(isinstance(r, ObjRef) and r.id == me.id), kind='post')
        I.ob('post[C17]:cached-inverse-bandwidths-and-normalisations-are-reset-by-fit', BoolVal(o.attrs['_bandwidth_inv_'] is None and o.attrs['_normkernels_'] is None), kind='post')
        I.ob('post[C17]:grid-stored', BoolVal(o.attrs['_grids'].id == G.id), kind='post')
        st = I.cur.get('assigner', {})
        I.ob('post[C17]:assigner-is-fitted-on-the-grid-and-assigns-the-descriptors-with-the-normalised-descriptor-weights',
             BoolVal(st.get('fit_on') is not None and st['fit_on'].id == G.id and st.get('predict_on') is not None and st['predict_on'].id == o.attrs['descriptors'].id
                     and st.get('weights') is not None and st['weights'].id == o.attrs['weights'].id), kind='post')
        if st.get('attrs'):
            I.ob('post[C17]:labels-grid-weights-and-member-lists-are-those-of-the-assigner', BoolVal(o.attrs['_sample_labels_'].id == st['labels'].id and o.attrs['_sample_weights'].id == st['attrs']['grid_weight'].id
                                                                                                     and o.attrs['_grid_neighbour'] is st['attrs']['grid_neighbour']), kind='post')
        # metric: squared distances with the configured cell, grid against grid
        calls = metric.calls
        ok = len(calls) == 1 and calls[0][0].id == G.id and calls[0][1].id == G.id and calls[0][2].get('squared') is True and (calls[0][2].get('cell_length') is cell if with_cell else calls[0][2].get('cell_length') is None)
        I.ob('post[C17]:fit-measures-squared-grid-to-grid-distances-with-the-configured-cell', BoolVal(ok), kind='post')
        bw = I.cur.get('bw_args')
        I.ob('post[C17]:bandwidths-estimated-from-the-grid-the-grid-weights-and-the-distance-to-the-nearest-OTHER-grid-point', BoolVal(bw is not None and bw['X'].id == G.id and st.get('attrs') is not None
                                                                                                                                   and bw['sample_weights'].id == st['attrs']['grid_weight'].id), kind='post')
        if bw is not None:
            M = I.A(bw['mindist']); dist = I.A(calls[0][0]) if False else None
            gi, gj = I.fresh('gi', IntS), I.fresh('gj', IntS); I.assume(And(0 <= gi, gi < g, 0 <= gj, gj < g, gi != gj))
            ok2 = M.tag is not None and M.tag[0] == 'rowmin' and M.tag[1].tag is not None and M.tag[1].tag[0] == 'filled-diagonal'
            I.ob('post[C17]:nearest-grid-distance-is-the-row-minimum-of-the-distance-matrix-with-an-infinite-diagonal', BoolVal(ok2), kind='post')
            if ok2:
                base = M.tag[1].tag[1]
                I.ob('post[C17]:...taken-over-the-other-grid-points', And(M.elem(gi) <= base.elem(gi, gj), tz(M.tag[1].tag[2]) == INF), kind='post')
        I.ob('post[C17]:fitted-flag-set', BoolVal(o.attrs.get('fitted_') is True), kind='post')
    funcs = assigner_contracts(); funcs[KD + '._computes_localized_bandwidth'] = bw_contract()
    return Unit(f'SparseKDE.fit[{"cell" if with_cell else "free"},{"weights" if with_weights else "uniform"}]', body, funcs=funcs, functions=[KD + '.__init__', KD + '.fit', KD + '._assign_descriptors_to_grids'])

def u_score():
    def body(I):
        n, d, q = I.fresh('n', IntS), I.fresh('d', IntS), I.fresh('q', IntS); I.assume(And(n >= 1, d >= 1, q >= 1))
        I.cur = {}
        D = I.fresh_arr('descriptors', (n, d)); Q = I.fresh_arr('queries', (q, d))
        cls = I.repo.get(KD)
        me = I.instantiate(cls, [D], {})
        sums = []
        r = I.call_func(I.find_method(cls, 'score_samples'), [me, Q], {})
        I.ob('post[C17]:score_samples-is-the-kernel-density-estimate-of-the-queries', BoolVal(I.cur.get('kde_arg') is not None and I.cur['kde_arg'].id == Q.id and r.id == I.cur['kde_res'].id), kind='post')
        I.cur['sum_calls'] = []
        s = I.call_func(I.find_method(cls, 'score'), [me, Q], {})
        sc = I.cur.get('sum_calls', [])
        I.ob('post[C17]:score-is-the-sum-of-score_samples', BoolVal(len(sc) == 1 and sc[0][0].id == I.cur['kde_res'].id and tz(s).eq(sc[0][1])), kind='post')
        dd = I.call_func(I.find_method(cls, 'kdecut_squared'), [me], {}) if False else None
    return Unit('SparseKDE.score', body, funcs={KD + '._computes_kernel_density_estimation': kde_contract()}, functions=[KD + '.score', KD + '.score_samples'])

def u_reject():
    def body(I):
        n, d, dc = I.fresh('n', IntS), I.fresh('d', IntS), I.fresh('dc', IntS); I.assume(And(n >= 1, d >= 1, dc >= 0, dc != d))
        I.cur = {}
        D = I.fresh_arr('descriptors', (n, d)); cell = I.fresh_arr('cell', (dc,))
        cls = I.repo.get(KD)
        I.instantiate(cls, [D], dict(metric_params={'cell_length': cell}))
        I.ob('reject[C17]:mismatched-cell-dimension-is-rejected', BoolVal(False), kind='post')
    return Unit('SparseKDE[mismatched-cell]', body, functions=[KD + '.__init__', KD + '._check_dimension'], on_raise=lambda I, st, r: r.kind == 'ValueError')

UNITS = [lambda: u_fit(True, True), lambda: u_fit(False, False), lambda: u_fit(False, True), lambda: u_score(), lambda: u_reject()]
RT = True
EVIDENCE_LEVEL = 'exploration'
TRUSTED = ["the property as a whole is bounded: independent numpy oracle (mixture recomputed from the fitted state, brute-force nearest-grid assignment and weight sums)",
           "proved part: plumbing only (what fit passes to the assigner / the bandwidth estimation, cache reset, score = sum of score_samples, rejects); the assigner loop, the bandwidth estimation and the mixture loop are modular callees here"]
