"""C17 — bounded stand-in for now (runtime contracts on the real code against an independent oracle); see DESIGN.md."""
BOUNDED_ONLY = True
RT = True
UNITS = []
TRUSTED = ["independent numpy oracle (dense SVD/eigh on an independently computed projection residual; brute-force lower envelope; mixture recomputed from the fitted state)"]
