"""C08 — greedy selection is history independent: prefix, restart, warm start (contracts in contracts/selectors.py)."""
import os
from contracts import selectors as S
from contracts.selectors import extend_ext
C = S.Cfg
fps = [('FPS', 'sample'), ('FPS', 'feature'), ('PCovFPS', 'sample'), ('PCovFPS', 'feature'), ('VoronoiFPS', 'sample')]
cur = [('CUR', 'sample'), ('CUR', 'feature'), ('PCovCUR', 'sample'), ('PCovCUR', 'feature')]
UNITS = []
for f, d in fps:
    UNITS.append((lambda f, d: (lambda: S.u_step_functional(C(f, d))))(f, d))
    UNITS.append((lambda f, d: (lambda: S.u_continue_frame(C(f, d))))(f, d))
    UNITS.append((lambda f, d: (lambda: S.u_fit(C(f, d, warm=True))))(f, d))
    UNITS.append((lambda f, d: (lambda: S.u_reject_warm_unfitted(C(f, d))))(f, d))
for f, d in cur:
    for re_ in (0, 1):
        UNITS.append((lambda f, d, r: (lambda: S.u_continue_frame(C(f, d, recompute=r))))(f, d, re_))
        UNITS.append((lambda f, d, r: (lambda: S.u_fit(C(f, d, warm=True, recompute=r))))(f, d, re_))
    UNITS.append((lambda f, d: (lambda: S.u_reject_warm_unfitted(C(f, d))))(f, d))
UNITS += [lambda: S.u_fit(C('FPS', 'sample', warm=True, nsel='none')), lambda: S.u_fit(C('FPS', 'feature', warm=True, nsel='float')),
          lambda: S.u_fit(C('FPS', 'sample', warm=True, thr='relative')), lambda: S.u_fit(C('FPS', 'sample', init='list2'))]
UNITS += [lambda: S.u_voronoi_update()]
EXTRA_MODULES = ['c08cur']      # (b) for the CUR family over the matrix-level contracts of contracts/cur.py
RT = True
TRUSTED = ["history independence = (a) init independent of the requested size, (b) one search step is a function of the state modulo buffer capacity, (c) _continue_greedy_search leaves that state unchanged, + induction on the schedule (the induction is a meta-argument, not machine-checked)",
           "FPS family: (b) and (c) are discharged by self-composition; (a) follows from the loop invariant of C02 (the table is the unique minimum over the selected prefix)",
           "CUR family: (b) is discharged by self-composition over the matrix-level contracts of contracts/cur.py (X_orthogonalizer and _compute_pi as functions of their arguments; for PCov-CUR with refresh the scores are excluded: y_current_ is recomputed from capacity-dependent buffers), (c) and the warm-started fit are discharged over the modular contracts of _compute_pi / X_orthogonalizer (C01 level); functional dependence of the scores on the residual is assumed (deterministic externals) — equality with the cold fit is bounded only (runtime chains)"]
