"""C08 (b) for the CUR family, over the matrix-level contracts of contracts/cur.py"""
from contracts import cur as K
from contracts.cur import extend_ext
C = K.Cfg
UNITS = []
for fam in ('CUR', 'PCovCUR'):
    for d in ('sample', 'feature'):
        for re in (0, 1, 2):
            UNITS.append((lambda c: (lambda: K.u_step_functional(c)))(C(fam, d, recompute=re)))
