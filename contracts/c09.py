"""C09 — purity, refit from scratch, determinism, fit returns self.

Frame obligations discharged by the may-alias/may-mutate flow analysis of pyvc/alias.py over EVERY public class and function reachable
from the subpackages' __all__ (not only the nine classes sklearn's check_estimator visits)."""
import ast, os
from pyvc.api import *
from pyvc.alias import FrameAnalysis
from pyvc.engine import ClassV, Func

SUBPACKAGES = ['feature_selection', 'sample_selection', 'decomposition', 'preprocessing', 'linear_model', 'neighbors', 'clustering', 'metrics', 'utils', 'model_selection']
DOCUMENTED_INPLACE = {     # (function qualname, parameter): in-place work is the documented meaning of copy=False
}

def public_api(A):
    out = []
    for sp in SUBPACKAGES:
        modname = 'skmatter.' + sp
        mod = A.repo.module(modname)
        if mod is None: continue
        names = None
        for n in mod.body:
            if isinstance(n, ast.Assign) and any(isinstance(t, ast.Name) and t.id == '__all__' for t in n.targets):
                names = [e.value for e in n.value.elts]
        for nm in names or []:
            r = A.repo.lookup(modname, nm)
            if isinstance(r, ClassV): out.append(('class', r.qual, nm, sp))
            elif isinstance(r, Func): out.append(('func', r.qual, nm, sp))
    return out

class StaticUnit:
    def __init__(self, name, run, functions=()): self.name, self.run, self.functions = name, run, list(functions)

def frame_unit():
    def run(src):
        A = FrameAnalysis(src)
        obs = []     # (name, ok, detail)
        funcs_seen = set()
        for kind, qual, nm, sp in public_api(A):
            if kind == 'func':
                if qual not in A.funcs: continue
                fl = (('copy', True),) if 'copy' in [x.arg for x in A.funcs[qual][1].args.args + A.funcs[qual][1].args.kwonlyargs] else ()
                S = A.summary(qual, fl)      # C09 speaks of copy=True for the helpers with a documented in-place mode
                funcs_seen.add(qual)
                a = A.funcs[qual][1].args
                for p in [x.arg for x in a.posonlyargs + a.args + a.kwonlyargs]:
                    sites = S.mutates.get(p, [])
                    obs.append((f"{sp}.{nm}/frame/argument-{p}-is-never-written-in-place", not sites, '; '.join(map(repr, sites[:4]))))
                continue
            # classes: every public method + __init__, analysed on the concrete class (dynamic dispatch resolved on its MRO)
            methods = {}
            for c in A.mro(qual):
                for m in A.classes[c][1].body:
                    if isinstance(m, ast.FunctionDef) and (not m.name.startswith('_') or m.name == '__init__') and m.name not in methods:
                        if any(isinstance(d, ast.Name) and d.id in ('property', 'abstractmethod') for d in m.decorator_list): continue
                        methods[m.name] = f"{c}.{m.name}"
            stored = {}      # attr -> set((method, param)) aliases kept in attributes
            mutated = {}     # attr -> sites
            sums = {}
            for mname, mq in sorted(methods.items()):
                fl = (('copy', True),) if 'copy' in [x.arg for x in A.funcs[mq][1].args.args + A.funcs[mq][1].args.kwonlyargs] else ()
                S = A.summary(mq, fl, (qual, mq.rsplit('.', 1)[0]))
                sums[mname] = S
                funcs_seen.add(mq)
                a = A.funcs[mq][1].args
                for p in [x.arg for x in a.posonlyargs + a.args + a.kwonlyargs]:
                    if p == 'self': continue
                    sites = S.mutates.get(p, [])
                    obs.append((f"{sp}.{nm}.{mname}/frame/argument-{p}-is-never-written-in-place", not sites, '; '.join(map(repr, sites[:4]))))
                for at, ps in S.attr_store.items():
                    for p in ps: stored.setdefault(at, set()).add((mname, p))
                for at, sites in S.attr_mut.items(): mutated.setdefault(at, []).extend(sites)
            # private methods can also write attributes in place (reached through public ones: already merged into the public summaries)
            for at in sorted(stored):
                sites = mutated.get(at, [])
                who = ', '.join(f"{m}({p})" for m, p in sorted(stored[at]))
                obs.append((f"{sp}.{nm}/frame/attribute-{at}-holding-a-caller-array-is-never-written-in-place", not sites, f"alias of {who}; written at " + '; '.join(map(repr, sites[:4])) if sites else ''))
            # O2: fit & co never assign a constructor parameter
            params = A.init_params(qual)
            for mname, S in sorted(sums.items()):
                if mname in ('__init__', 'set_params'): continue
                bad = sorted(S.attr_assigned & params)
                obs.append((f"{sp}.{nm}.{mname}/frame/no-constructor-parameter-is-assigned", not bad, ', '.join(bad)))
            # O4: every return of fit returns self
            if 'fit' in methods:
                fn = A.funcs[methods['fit']][1]
                rets = [r for r in ast.walk(fn) if isinstance(r, ast.Return)]
                nested = set()
                for sub in ast.walk(fn):
                    if isinstance(sub, (ast.FunctionDef, ast.Lambda)) and sub is not fn:
                        for r in ast.walk(sub):
                            if isinstance(r, ast.Return): nested.add(id(r))
                rets = [r for r in rets if id(r) not in nested]
                ok = bool(rets) and all(isinstance(r.value, ast.Name) and r.value.id == 'self' for r in rets) and not any(
                    isinstance(t, ast.Name) and t.id == 'self' for n_ in ast.walk(fn) if isinstance(n_, ast.Assign) for t in n_.targets)
                ends_with_return = isinstance(fn.body[-1], ast.Return)
                obs.append((f"{sp}.{nm}.fit/frame/every-normal-path-returns-self", ok and ends_with_return, f"{len(rets)} return statements"))
            if 'fit_transform' in methods:
                fn = A.funcs[methods['fit_transform']][1]
                txt = ast.unparse(fn)
                ok = 'self.fit(' in txt and '.transform(' in txt
                obs.append((f"{sp}.{nm}.fit_transform/frame/is-fit-followed-by-transform", ok, ''))
            for mname, S in sums.items():
                for s_ in S.reflect:
                    obs.append((f"{sp}.{nm}.{mname}/frame/no-reflection-{s_.line}", False, repr(s_)))
        run.functions = sorted(funcs_seen)
        return obs
    return StaticUnit('frame', run)


# ------------------------------------------------------------------ refit = fresh fit (O3), determinism (O5)
def _self_attr(e):
    return e.attr if isinstance(e, ast.Attribute) and isinstance(e.value, ast.Name) and e.value.id == 'self' else None

class RefitWalk:
    """flow-sensitive 'definitely (re)assigned by this fit' analysis: a learned attribute read before fit has written it is a stale read"""
    def __init__(self, A, cqual):
        self.A, self.cq = A, cqual
        self.params = A.init_params(cqual)
        self.learned = set()
        self.methods = set()
        for c in A.mro(cqual):
            for m in A.classes[c][1].body:
                if isinstance(m, ast.FunctionDef):
                    self.methods.add(m.name)
                    if m.name == '__init__': continue
                    for n_ in ast.walk(m):
                        for t in (n_.targets if isinstance(n_, ast.Assign) else [n_.target] if isinstance(n_, (ast.AugAssign, ast.AnnAssign)) else []):
                            for x in (t.elts if isinstance(t, (ast.Tuple, ast.List)) else [t]):
                                a = _self_attr(x)
                                if a: self.learned.add(a)
        self.learned -= self.params
        self.stale = []
    def reads(self, e, assigned, where):
        for n_ in ast.walk(e):
            a = _self_attr(n_)
            if a and isinstance(n_.ctx, ast.Load) and a in self.learned and a not in assigned and a not in self.methods:
                self.stale.append((a, where, getattr(n_, 'lineno', 0)))
            if isinstance(n_, ast.Call) and isinstance(n_.func, ast.Name) and n_.func.id in ('hasattr', 'getattr') and len(n_.args) >= 2 \
               and isinstance(n_.args[0], ast.Name) and n_.args[0].id == 'self' and isinstance(n_.args[1], ast.Constant):
                a = n_.args[1].value
                if a in self.learned and a not in assigned: self.stale.append((a, where + ' (hasattr)', n_.lineno))
            if isinstance(n_, ast.Call) and isinstance(n_.func, ast.Attribute) and n_.func.attr == '_validate_data':
                for k in n_.keywords:
                    if k.arg == 'reset' and isinstance(k.value, ast.Constant) and k.value.value is False and 'n_features_in_' not in assigned:
                        self.stale.append(('n_features_in_', where + ' (_validate_data(reset=False))', n_.lineno))
    def calls(self, e, assigned, defcls, depth):
        for n_ in ast.walk(e):
            if isinstance(n_, ast.Call) and isinstance(n_.func, ast.Attribute):
                f = n_.func; q = None
                if isinstance(f.value, ast.Name) and f.value.id == 'self': q = self.A.find_method(self.cq, f.attr)
                elif isinstance(f.value, ast.Call) and isinstance(f.value.func, ast.Name) and f.value.func.id == 'super': q = self.A.find_method(self.cq, f.attr, after=defcls)
                if q and depth < 8:
                    assigned |= self.block(self.A.funcs[q][1].body, set(assigned), q.rsplit('.', 1)[0], q, depth + 1) or set()
                elif q is None and isinstance(f.value, ast.Call) and f.attr == 'fit':
                    # fit of an external base class (assumed contract): sklearn's KernelCenterer.fit assigns K_fit_rows_, K_fit_all_, n_features_in_
                    bases = [ast.unparse(b) for c_ in self.A.mro(self.cq) for b in self.A.classes[c_][1].bases]
                    if 'KernelCenterer' in bases: assigned |= {'K_fit_rows_', 'K_fit_all_', 'n_features_in_'}
    def terminates(self, stmts): return bool(stmts) and isinstance(stmts[-1], (ast.Return, ast.Raise, ast.Continue, ast.Break))
    def block(self, stmts, assigned, defcls, where, depth=0):
        for s in stmts:
            if isinstance(s, ast.If):
                t = ast.unparse(s.test)
                if 'warm_start' in t and not t.startswith('not'):
                    assigned = self.block(s.orelse, assigned, defcls, where, depth); continue      # warm-start branch: continuing from the old state is its documented purpose
                # reset idiom: if hasattr(self, 'x'): del self.x
                if isinstance(s.test, ast.Call) and isinstance(s.test.func, ast.Name) and s.test.func.id == 'hasattr' and all(isinstance(b, ast.Delete) for b in s.body) and not s.orelse:
                    for b in s.body:
                        for tg in b.targets:
                            a = _self_attr(tg)
                            if a: assigned.add(a)
                    continue
                self.reads(s.test, assigned, where); self.calls(s.test, assigned, defcls, depth)
                a1 = self.block(s.body, set(assigned), defcls, where, depth)
                if t.endswith(' is True') and len(s.orelse) == 1 and isinstance(s.orelse[0], ast.If) and not s.orelse[0].orelse \
                   and ast.unparse(s.orelse[0].test) == t[:-len(' is True')] + ' is False':
                    # `x is True ... elif x is False` on a documented boolean flag: exhaustive
                    a2 = self.block(s.orelse[0].body, set(assigned), defcls, where, depth)
                else:
                    a2 = self.block(s.orelse, set(assigned), defcls, where, depth)
                if self.terminates(s.body): assigned = a2
                elif self.terminates(s.orelse): assigned = a1
                else: assigned = a1 & a2
            elif isinstance(s, (ast.For, ast.While)):
                self.reads(s.iter if isinstance(s, ast.For) else s.test, assigned, where); self.calls(s.iter if isinstance(s, ast.For) else s.test, assigned, defcls, depth)
                self.block(s.body, set(assigned), defcls, where, depth)
            elif isinstance(s, ast.Try):
                assigned = self.block(s.body, assigned, defcls, where, depth)
                for h in s.handlers: self.block(h.body, set(assigned), defcls, where, depth)
                assigned = self.block(s.finalbody, assigned, defcls, where, depth)
            elif isinstance(s, ast.With):
                assigned = self.block(s.body, assigned, defcls, where, depth)
            elif isinstance(s, (ast.Assign, ast.AnnAssign)):
                if s.value is not None:
                    self.reads(s.value, assigned, where); self.calls(s.value, assigned, defcls, depth)
                for t in (s.targets if isinstance(s, ast.Assign) else [s.target]):
                    for x in (t.elts if isinstance(t, (ast.Tuple, ast.List)) else [t]):
                        a = _self_attr(x)
                        if a: assigned.add(a)
                        elif isinstance(x, ast.Subscript): self.reads(x, assigned, where)
            elif isinstance(s, ast.AugAssign):
                self.reads(s.value, assigned, where); self.reads(ast.Expr(value=s.target), assigned, where) if False else None
                a = _self_attr(s.target)
                if a and a in self.learned and a not in assigned: self.stale.append((a, where + ' (augmented)', s.lineno))
                if a: assigned.add(a)
            elif isinstance(s, ast.Delete):
                for tg in s.targets:
                    a = _self_attr(tg)
                    if a: assigned.add(a)
            elif isinstance(s, (ast.Expr, ast.Return)):
                if s.value is not None:
                    self.reads(s.value, assigned, where); self.calls(s.value, assigned, defcls, depth)
            elif isinstance(s, ast.FunctionDef):
                self.block(s.body, set(assigned), defcls, where + '.' + s.name, depth)
        return assigned

def tainted_by_clock(A, cqual):
    """attributes assigned from values that depend (data or control) on time(): forward pass, untainted re-assignment kills the taint"""
    out = []
    for c in A.mro(cqual):
        for m in A.classes[c][1].body:
            if not isinstance(m, ast.FunctionDef) or 'time()' not in ast.unparse(m): continue
            names, attrs = set(), set()
            def tainted(e):
                for n_ in ast.walk(e):
                    if isinstance(n_, ast.Call) and ast.unparse(n_.func) in ('time', 'time.time', 'perf_counter', 'time.perf_counter'): return True
                    if isinstance(n_, ast.Name) and n_.id in names: return True
                    if _self_attr(n_) and _self_attr(n_) in attrs: return True
                return False
            def walk(stmts, ctl):
                for s_ in stmts:
                    if isinstance(s_, (ast.Assign, ast.AugAssign, ast.AnnAssign)):
                        v = s_.value
                        tg = s_.targets if isinstance(s_, ast.Assign) else [s_.target]
                        t_ = ctl or (v is not None and tainted(v)) or (isinstance(s_, ast.AugAssign) and tainted(s_.target))
                        for t in tg:
                            for x in (t.elts if isinstance(t, (ast.Tuple, ast.List)) else [t]):
                                base = x; sub = False
                                while isinstance(base, ast.Subscript): base = base.value; sub = True
                                a_ = _self_attr(base)
                                if isinstance(base, ast.Name):
                                    if t_: names.add(base.id)
                                    elif not sub: names.discard(base.id)
                                elif a_:
                                    if t_: attrs.add(a_)
                                    elif not sub: attrs.discard(a_)
                    elif isinstance(s_, ast.If):
                        c2 = ctl or tainted(s_.test)
                        walk(s_.body, c2); walk(s_.orelse, c2)
                    elif isinstance(s_, ast.While):
                        for _ in range(2):
                            c2 = ctl or tainted(s_.test); walk(s_.body, c2)
                    elif isinstance(s_, ast.For):
                        for _ in range(2): walk(s_.body, ctl)
                    elif isinstance(s_, (ast.With, ast.Try)): walk(s_.body, ctl)
            walk(m.body, False)
            for a_ in sorted(attrs): out.append((a_, f"{c}.{m.name}"))
    return out

def refit_unit():
    def run(src):
        A = FrameAnalysis(src)
        obs = []
        for kind, qual, nm, sp in public_api(A):
            if kind != 'class': continue
            fitq = A.find_method(qual, 'fit')
            if not fitq: continue
            W = RefitWalk(A, qual)
            W.block(A.funcs[fitq][1].body, set(), fitq.rsplit('.', 1)[0], fitq)
            seen = {}
            for a, where, line in W.stale: seen.setdefault(a, []).append(f"{where}:{line}")
            for a in sorted(W.learned):
                obs.append((f"{sp}.{nm}.fit/refit/learned-attribute-{a}-is-not-read-before-this-fit-wrote-it", a not in seen, '; '.join(seen.get(a, [])[:4])))
            # lazily written caches must be reset by fit
            fit_assigned = A.summary(fitq, (), (qual, fitq.rsplit('.', 1)[0])).attr_assigned
            for c in A.mro(qual):
                for m in A.classes[c][1].body:
                    if isinstance(m, ast.FunctionDef) and not m.name.startswith('_') and m.name not in ('fit', 'fit_transform', 'set_params', 'fit_predict'):
                        S = A.summary(f"{c}.{m.name}", (), (qual, c))
                        for a in sorted(S.attr_assigned - W.params):
                            obs.append((f"{sp}.{nm}.{m.name}/refit/attribute-{a}-written-outside-fit-is-reset-by-fit", a in fit_assigned, ''))
            for a, where in tainted_by_clock(A, qual):
                obs.append((f"{sp}.{nm}/determinism/attribute-{a}-does-not-depend-on-the-wall-clock", False, where))
            if not tainted_by_clock(A, qual):
                obs.append((f"{sp}.{nm}/determinism/no-learned-attribute-depends-on-the-wall-clock", True, ''))
        return obs
    return StaticUnit('refit', run)

UNITS = [frame_unit, refit_unit]
RT = True
TRUSTED = ['static may-alias/may-mutate flow analysis (pyvc/alias.py): externals not listed as view-returning return fresh arrays; externals never write into their inputs except out=/3-argument ufuncs/np.fill_diagonal-style mutators; no reflection (each use is an obligation)', 'attributes that the code itself type-checks with isinstance(..., numbers.Integral/Real/int/float) are scalars (augmented assignment rebinds)', 'sklearn KernelCenterer.fit assigns K_fit_rows_, K_fit_all_, n_features_in_', 'byte-wise snapshots, read-only buffers, Fortran/strided layouts and refit-vs-fresh comparisons are bounded (runtime side)']
