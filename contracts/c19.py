"""C19 — DirectionalConvexHull: signed vertical distances to the lower hull (the part of the property that is code of this repository, not of Qhull).

Real functions: _directional_distance, DirectionalConvexHull._directional_convex_hull_distance, score_samples (plumbing)
(skmatter/sample_selection/_base.py), for every number of facets, points and hull dimensions.

Proved: _directional_distance(E, P)[i, j] = (n_j . p_i + b_j) / n_j0, the vertical (target-direction) offset of point i from the plane of facet j
(n_j = E[j, :-1], b_j = E[j, -1], n_j0 = E[j, 0] the target component of the normal);  _directional_convex_hull_distance(P)[i] is
  * the MINIMUM over the stored lower facets of that offset when no offset is below -tolerance (point on or above the surface: for a convex lower hull the
    surface is the upper envelope of its facet planes, so this is the vertical offset from the hull and it is >= -tolerance), and
  * the MAXIMUM of the non-positive offsets when some offset is below -tolerance (point below the surface: a negative number, the offset from the closest facet
    plane from below);
  score_samples evaluates it on (y, X[:, low_dim_idx]) with the stored equations and returns one value per sample.
Data flow around the external objects (contracts/c19b.py): what fit hands to Qhull ([y | X[:, low_dim_idx]] in the given column order), which facets it keeps (negative target
component of the normal), the vertex selection (distinct vertices of the kept facets), the complement columns, what the interpolator is built on and evaluated at, the layout
score_samples evaluates the distance on.
NOT covered (Qhull / LinearNDInterpolator are external): that Qhull's equations describe the hull of the data it was given and that the interpolator interpolates (hence zero
distance / residual at selected samples, positivity for unselected ones, the invariances): bounded runtime checks only."""
from pyvc.api import *
from pyvc import skstubs
from pyvc.engine import ExtNS, ExtClass, Opaque
import ast

SB = 'skmatter.sample_selection._base'
DCH = SB + '.DirectionalConvexHull'
d_ = Int('d!s'); j_ = Int('j')
SUMD = z3.Function('SUMD', z3.ArraySort(IntS, RealS), IntS, RealS)

def cached_where(I, mask):
    """the increasing enumeration of the true positions of a mask: ONE index map per mask (keyed by the mask's defining formula)"""
    M = I.A(mask); p = z3.Int('p!key')
    key = (z3.simplify(tz(M.shape[0])).sexpr(), z3.simplify(M.elem(p)).sexpr())
    c = I.cur.setdefault('where_cache', {})
    if key not in c: c[key] = npstubs.where_true(I, mask)
    return c[key]

def getitem(I, b, ix, node=None):
    if isinstance(ix, ArrRef) and I.A(ix).sort == BoolS and I.A(ix).ndim == 1:
        return I.cur['prev_getitem'](I, b, cached_where(I, ix), node)
    A = I.A(b) if isinstance(b, ArrRef) else None
    if A is not None and A.ndim == 2 and isinstance(ix, tuple) and len(ix) == 2 and isinstance(ix[0], slice) and ix[0] == slice(None) and isinstance(ix[1], ArrRef) and I.A(ix[1]).sort == BoolS:
        return I.cur['prev_getitem'](I, b, (slice(None), cached_where(I, ix[1])), node)
    if A is not None and A.ndim == 2 and isinstance(ix, tuple) and len(ix) == 2 and isinstance(ix[0], slice) and ix[0] == slice(None) and isinstance(ix[1], slice) and ix[1].step is None:
        # column blocks of a matrix known to have at least two columns: [:, -1:] (last column), [:, :1] (first column), [:, :-1] (all but the last)
        st, sp = ix[1].start, ix[1].stop
        nc = tz(A.shape[1])
        if st is not None and sp is None and conc(st) == -1:
            I.ob('index:last-column-exists', nc >= 1, kind='index')
            return I.new_arr(ArrVal((A.shape[0], 1), lambda i, j: A.elem(tz(i), nc - 1), A.sort))
        if st is None and sp is not None and conc(sp) == 1:
            I.ob('index:first-column-exists', nc >= 1, kind='index')
            return I.new_arr(ArrVal((A.shape[0], 1), lambda i, j: A.elem(tz(i), IntVal(0)), A.sort))
        if st is None and sp is not None and conc(sp) == -1:
            I.ob('index:last-column-exists', nc >= 1, kind='index')
            return I.new_arr(ArrVal((A.shape[0], conc(z3.simplify(nc - 1))), lambda i, j: A.elem(tz(i), tz(j)), A.sort))
    return I.cur['prev_getitem'](I, b, ix, node)

def setitem(I, b, ix, v, node=None):
    if isinstance(ix, ArrRef) and I.A(ix).sort == BoolS and I.A(ix).ndim == 1:
        return I.cur['prev_setitem'](I, b, cached_where(I, ix), v, node)
    if isinstance(ix, ArrRef) and I.A(ix).sort == BoolS and I.A(ix).ndim == 2 and not isinstance(v, ArrRef):
        # A[mask2d] = scalar: element-wise
        A = I.A(b); M = I.A(ix)
        for x, y in zip(A.shape, M.shape):
            if npstubs.same_dim(x, y) is not True: I.ob('shape:boolean mask store', tz(x) == tz(y), kind='shape')
        val = tz(v) if not isinstance(v, float) or v == v and abs(v) != float('inf') else tz(v)
        I.st.heap[b.id] = ArrVal(A.shape, lambda *jx: If(M.elem(*jx), npstubs.coerce(tz(v), A.sort), A.elem(*jx)), A.sort)
        return
    return I.cur['prev_setitem'](I, b, ix, v, node)

def np_any(I, a, axis=None, **kw):
    A = I.A(a)
    if A.ndim == 2 and axis == 1:
        npstubs.used('np.any(axis=1)')
        n = tz(A.shape[1])
        return I.new_arr(ArrVal((A.shape[0],), lambda i: Exists([j_], And(0 <= j_, j_ < n, A.elem(tz(i), j_))), BoolS))
    if A.ndim == 2 and axis == 0:
        npstubs.used('np.any(axis=0)')
        n = tz(A.shape[0])
        return I.new_arr(ArrVal((A.shape[1],), lambda j: Exists([j_], And(0 <= j_, j_ < n, A.elem(j_, tz(j)))), BoolS))
    return I.cur['prev_any'](I, a, axis=axis, **kw)

def np_ext(kind):
    def f(I, a, axis=None, **kw):
        A = I.A(a)
        if A.ndim == 2 and axis == 1:
            npstubs.used(f'np.{kind}(axis=1) (row extremum with a witness column)')
            n = tz(A.shape[1])
            I.ob(f'pre:np.{kind}:non-empty-rows', n >= 1, kind='pre')
            r = I.fresh_fn('row' + kind, IntS, RealS); w = I.fresh_fn('row' + kind + 'wit', IntS, IntS)
            i = Int('i!ext')
            cmp_ = (lambda x, y: x <= y) if kind == 'min' else (lambda x, y: x >= y)
            I.assume(ForAll([i], Implies(And(0 <= i, i < tz(A.shape[0])), And(0 <= w(i), w(i) < n, r(i) == A.elem(i, w(i)))), patterns=[r(i)]))
            I.assume(ForAll([i, j_], Implies(And(0 <= i, i < tz(A.shape[0]), 0 <= j_, j_ < n), cmp_(r(i), A.elem(i, j_))), patterns=[z3.MultiPattern(r(i), A.elem(i, j_))]))
            return I.new_arr(ArrVal((A.shape[0],), lambda t: r(tz(t)), RealS))
        return I.cur['prev_' + kind](I, a, axis=axis, **kw)
    return f

def matmul_hook(I, a, b, what):
    if not (isinstance(I.cur, dict) and I.cur.get('c19')): return None
    if not (isinstance(a, ArrRef) and isinstance(b, ArrRef)): return None
    A, B = I.A(a), I.A(b)
    if A.ndim == 2 and B.ndim == 2:
        npstubs.used('@ (entry = sum over the contracted index)')
        sd = npstubs.same_dim(A.shape[1], B.shape[0])
        if sd is False: raise RaiseEx('ValueError')
        if sd is None: I.ob(f'shape:{what}', tz(A.shape[1]) == tz(B.shape[0]), kind='shape')
        D = tz(A.shape[1])
        return I.new_arr(ArrVal((A.shape[0], B.shape[1]), lambda i, j: SUMD(z3.Lambda([d_], to_real(A.elem(tz(i), d_)) * to_real(B.elem(d_, tz(j)))), D), RealS))
    return None

def extend_ext(ext):
    skstubs.install(ext)
    if matmul_hook not in npstubs.MATMUL_HOOKS: npstubs.MATMUL_HOOKS.insert(0, matmul_hook)
    pg, ps = ext['arr_getitem'], ext['arr_setitem']
    def g(I, b, ix, node=None):
        I.cur['prev_getitem'] = pg; return getitem(I, b, ix, node)
    def s(I, b, ix, v, node=None):
        I.cur['prev_setitem'] = ps; return setitem(I, b, ix, v, node)
    ext['arr_getitem'] = g; ext['arr_setitem'] = s
    np_ = ext['modules']['np']
    pa, pmin, pmax = np_.any, np_.min, np_.max
    def any_(I, a, axis=None, **kw):
        I.cur['prev_any'] = pa; return np_any(I, a, axis=axis, **kw)
    np_.any = any_
    fmin, fmax = np_ext('min'), np_ext('max')
    def min_(I, a, axis=None, **kw):
        I.cur['prev_min'] = pmin; return fmin(I, a, axis=axis, **kw)
    def max_(I, a, axis=None, **kw):
        I.cur['prev_max'] = pmax; return fmax(I, a, axis=axis, **kw)
    np_.min = min_; np_.max = max_
    for k in ('scipy.spatial.ConvexHull', 'scipy.interpolate.interpnd._ndim_coords_from_arrays', 'scipy.interpolate.LinearNDInterpolator', 'scipy.interpolate.interp1d',
              'sklearn.utils.validation.check_X_y', 'sklearn.utils.validation.check_array', 'sklearn.utils.validation.check_is_fitted'):
        ext['names'].setdefault(k, ExtClass(k.split('.')[-1]))

def u_directional_distance():
    q = SB + '._directional_distance'
    def body(I):
        f, n, D = I.fresh('n_facets', IntS), I.fresh('n_points', IntS), I.fresh('D', IntS)       # D = hull dimensions + 1 (target first)
        I.assume(And(f >= 1, n >= 1, D >= 1))
        I.cur = dict(c19=True)
        E = I.fresh_arr('equations', (f, D + 1)); P = I.fresh_arr('points', (n, D))
        E0, P0 = I.A(E), I.A(P)
        r = I.call_func(I.repo.get(q), [E, P], {})
        R = I.A(r)
        i, j = I.fresh('i', IntS), I.fresh('j', IntS); I.assume(And(0 <= i, i < n, 0 <= j, j < f))
        I.ob('post[C19]:one-entry-per-point-and-facet', And(BoolVal(R.ndim == 2), tz(R.shape[0]) == n, tz(R.shape[1]) == f), kind='post')
        dotp = SUMD(z3.Lambda([d_], P0.elem(i, d_) * E0.elem(j, d_)), D)
        I.ob('post[C19]:entry-is-the-vertical-offset-of-the-point-from-the-facet-plane ((n.p + b) / n_target)', R.elem(i, j) == (dotp + E0.elem(j, D)) / E0.elem(j, IntVal(0)), kind='post')
        I.ob('post[C19]:inputs-left-untouched', BoolVal(I.A(E) is E0 and I.A(P) is P0), kind='post')
    return Unit('_directional_distance', body, functions=[q])

def dd_contract():
    def make_result(I, F):
        E, P = I.A(F['equations']), I.A(F['points'])
        I.cur['dd_args'] = (F['equations'], F['points'])
        r = I.fresh_arr('offsets', (P.shape[0], E.shape[0]))
        I.cur['DD'] = I.A(r)
        return r
    return FuncContract(make_result=make_result)

def u_hull_distance():
    q = DCH + '._directional_convex_hull_distance'
    def body(I):
        f, n, D = I.fresh('n_facets', IntS), I.fresh('n_points', IntS), I.fresh('D', IntS)
        I.assume(And(f >= 1, n >= 1, D >= 1))
        I.cur = dict(c19=True)
        cls = I.repo.get(DCH)
        tol = I.fresh('tolerance', RealS); I.assume(tol >= 0)
        me = I.instantiate(cls, [], dict(low_dim_idx=[0], tolerance=tol))
        E = I.fresh_arr('equations', (f, D + 1)); P = I.fresh_arr('points', (n, D))
        I.O(me).attrs['_directional_equations_'] = E
        P0 = I.A(P)
        r = I.call_func(I.find_method(cls, '_directional_convex_hull_distance'), [me, P], {})
        R = I.A(r); DD = I.cur.get('DD')
        I.ob('post[C19]:offsets-computed-once-from-the-stored-lower-facet-equations-and-the-points', BoolVal(DD is not None and I.cur['dd_args'][0].id == E.id and I.cur['dd_args'][1].id == P.id), kind='post')
        if DD is None: return
        i, j = I.fresh('i', IntS), I.fresh('j', IntS); I.assume(And(0 <= i, i < n, 0 <= j, j < f))
        a_, b_ = Int('a!fin'), Int('b!fin')
        I.assume(And(INF > 0, tol < INF, ForAll([a_, b_], And(DD.elem(a_, b_) < INF, DD.elem(a_, b_) > -INF), patterns=[DD.elem(a_, b_)])))      # finite data: every offset is a real number
        below = Exists([j_], And(0 <= j_, j_ < f, DD.elem(i, j_) < -tol))
        I.ob('post[C19]:one-distance-per-point', And(BoolVal(R.ndim == 1), tz(R.shape[0]) == n), kind='post')
        I.ob('post[C19]:on-or-above-the-surface:distance-is-at-most-every-facet-offset', Implies(Not(below), R.elem(i) <= DD.elem(i, j)), kind='post')
        I.ob('post[C19]:on-or-above-the-surface:distance-is-attained-by-a-facet (the minimum: vertical offset from the upper envelope of the facet planes)',
             Implies(Not(below), Exists([j_], And(0 <= j_, j_ < f, R.elem(i) == DD.elem(i, j_)))), kind='post')
        I.ob('post[C19]:on-or-above-the-surface:distance-is-not-below-minus-the-tolerance', Implies(Not(below), R.elem(i) >= -tol), kind='post')
        I.ob('post[C19]:below-the-surface:distance-is-at-least-every-non-positive-facet-offset', Implies(And(below, DD.elem(i, j) <= 0), R.elem(i) >= DD.elem(i, j)), kind='post')
        I.ob('post[C19]:below-the-surface:distance-is-attained-by-a-facet-with-non-positive-offset (the closest plane from below)',
             Implies(below, Exists([j_], And(0 <= j_, j_ < f, DD.elem(i, j_) <= 0, R.elem(i) == DD.elem(i, j_)))), kind='post')
        I.ob('post[C19]:below-the-surface:distance-is-not-positive', Implies(below, R.elem(i) <= 0), kind='post')
        I.ob('post[C19]:points-left-untouched', BoolVal(I.A(P) is P0), kind='post')
    return Unit('DirectionalConvexHull._directional_convex_hull_distance', body, funcs={SB + '._directional_distance': dd_contract()}, functions=[q])

UNITS = [lambda: u_directional_distance(), lambda: u_hull_distance()]
EXTRA_MODULES = ['c19b']      # data flow of fit / score_samples / score_feature_matrix around Qhull and the interpolator (own numpy model)
RT = True
EVIDENCE_LEVEL = 'exploration'      # most clauses of C19 depend on Qhull: the property as a whole stays at the bounded level
TRUSTED = ["SUMD: finite sum over the coordinates (uninterpreted; matrix products entry by entry); floats as reals; -inf is below every real",
           "scipy.spatial.ConvexHull (Qhull) and LinearNDInterpolator are external: that the stored equations are the lower facets of the hull of the training data, the selected vertices "
           "and the high-dimensional residuals are NOT derived (bounded runtime checks against a brute-force lower envelope)",
           "np.min/np.max(axis=1): row extremum with a witness column; boolean-mask selection/store: the increasing enumeration of the true positions (one map per mask)"]
