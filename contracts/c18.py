"""C18 — OrthogonalRegression yields an orthogonal map that is Procrustes-optimal.

Real functions: OrthogonalRegression.fit / predict (skmatter/linear_model/_base.py), both modes, any relation between n_features and n_targets.
External contracts (assumed, conformance-tested at run time): scipy.linalg.orthogonal_procrustes(A, B)[0] is orthogonal and minimises
||A R - B||_F over all orthogonal R; np.linalg.svd(M, full_matrices=False) = thin SVD; LinearRegression().fit sets coef_ (n_targets, n_features)."""
from pyvc.api import *
from pyvc import matlayer as ML, skstubs
from pyvc.matlayer import Mat, mul, add, sub, T, smul, Id, at, rows, cols, isdiag, tr, fro2
from pyvc.engine import ExtNS, ExtClass, Opaque

OR = 'skmatter.linear_model._base.OrthogonalRegression'
i_, j_ = Int('i'), Int('j')
HPad = z3.Function('HPad', Mat, IntS, Mat)       # [A 0] zero-padded on the right to the given width
PROC = z3.Function('PROC', Mat, Mat, Mat)
LPAD = z3.Function('LPAD', Mat, IntS, IntS, Mat)   # zeros on the left (and right): not the padding the property speaks of        # orthogonal_procrustes(A, B)[0]

def hpad_axioms():
    A = z3.Const('A!hp', Mat); w = Int('w!hp')
    return [ForAll([A, w], Implies(w >= 0, And(rows(HPad(A, w)) == rows(A), cols(HPad(A, w)) == w)), patterns=[HPad(A, w)]),
            ForAll([A, w, i_, j_], at(HPad(A, w), i_, j_) == If(j_ < cols(A), at(A, i_, j_), RealVal(0)), patterns=[at(HPad(A, w), i_, j_)]),
            ForAll([A], HPad(A, cols(A)) == A, patterns=[HPad(A, cols(A))])]

def proc_axioms():
    A, B, Q = z3.Consts('A!pr B!pr Q!pr', Mat)
    return [ForAll([A, B], And(rows(PROC(A, B)) == cols(A), cols(PROC(A, B)) == cols(B)), patterns=[PROC(A, B)]),
            ForAll([A, B], Implies(cols(A) == cols(B), And(mul(T(PROC(A, B)), PROC(A, B)) == Id(cols(A)), mul(PROC(A, B), T(PROC(A, B))) == Id(cols(A)))), patterns=[PROC(A, B)]),
            ForAll([A, B, Q], Implies(And(cols(A) == cols(B), rows(Q) == cols(A), cols(Q) == cols(A), mul(T(Q), Q) == Id(cols(A))),
                                      fro2(sub(mul(A, PROC(A, B)), B)) <= fro2(sub(mul(A, Q), B))), patterns=[z3.MultiPattern(PROC(A, B), mul(A, Q))])]

def np_pad_mat(I, a, pad_width, *args, **kw):
    npstubs.used('np.pad (zero padding on the right)')
    pw = [tuple(x) for x in pad_width]
    A = I.A(a)
    isz = lambda v: (not is_sym(conc(v))) and conc(v) == 0
    if len(pw) != 2 or not isz(pw[0][0]) or not isz(pw[0][1]): raise Unsupported("np.pad form")
    if not isz(pw[1][0]):
        # zeros on the LEFT: a different matrix from the right-padded one (kept as an uninterpreted term so that obligations about right padding fail)
        tot = z3.simplify(tz(A.shape[1]) + tz(pw[1][0]) + tz(pw[1][1]))
        I.ob('pre:np.pad:non-negative-width', And(tz(pw[1][0]) >= 0, tz(pw[1][1]) >= 0), kind='pre')
        return ML.mk(I, LPAD(ML.mat_of(I, a), tz(pw[1][0]), tz(pw[1][1])), (A.shape[0], conc(tot)))
    extra = tz(pw[1][1])
    I.ob('pre:np.pad:non-negative-width', extra >= 0, kind='pre')
    w = z3.simplify(tz(A.shape[1]) + extra)
    return ML.mk(I, HPad(ML.mat_of(I, a), w), (A.shape[0], conc(w)))

def procrustes_stub(I, A, B, **kw):
    npstubs.used('scipy.linalg.orthogonal_procrustes')
    Am, Bm = ML.mat_of(I, A), ML.mat_of(I, B)
    ML.shape_eq(I, I.A(A).shape[0], I.A(B).shape[0], 'orthogonal_procrustes rows'); ML.shape_eq(I, I.A(A).shape[1], I.A(B).shape[1], 'orthogonal_procrustes columns')
    I.cur.setdefault('proc_args', []).append((Am, Bm))
    R = ML.mk(I, PROC(Am, Bm), (I.A(A).shape[1], I.A(B).shape[1]))
    return (R, Opaque('scale'))

def svd_stub(I, M, full_matrices=True, **kw):
    npstubs.used('np.linalg.svd (thin SVD)')
    if full_matrices is not False: raise Unsupported("full svd")
    Mm = ML.mat_of(I, M); m, p = I.A(M).shape
    r = I.fresh('r', IntS); I.assume(r == If(tz(m) <= tz(p), tz(m), tz(p)))
    U = ML.fresh_mat(I, 'U', (m, conc(r))); Vt = ML.fresh_mat(I, 'Vt', (conc(r), p)); S = I.fresh_arr('s', (conc(r),))
    Um, Vm = ML.mat_of(I, U), ML.mat_of(I, Vt)
    I.st.nfresh += 1
    DS = z3.Const(f"DS!{I.st.nfresh}", Mat)
    I.assume(And(rows(DS) == r, cols(DS) == r, isdiag(DS)))
    I.assume(And(mul(T(Um), Um) == Id(r), mul(Vm, T(Vm)) == Id(r), Mm == mul(Um, mul(DS, Vm))))
    I.cur['svd'] = (Um, Vm, r, Mm)
    return (U, S, Vt)

def extend_ext(ext):
    ML.install(ext); skstubs.install(ext)
    ext['modules']['np'].pad = np_pad_mat
    ext['modules']['np'].linalg.svd = svd_stub
    ext['names']['scipy.linalg.orthogonal_procrustes'] = procrustes_stub
    lr = ExtClass('LinearRegression')
    def ctor(I, **kw):
        def fit(I2, X, y, **k2):
            I2.cur['lr_fit_args'] = (X, y)
        return skstubs.StubObj(kind='LinearRegression', fit=fit, coef_=I.cur['coefT'])
    lr.ctor = ctor
    ext['names']['sklearn.linear_model.LinearRegression'] = lr
    for k in ('sklearn.base.MultiOutputMixin', 'sklearn.base.RegressorMixin'): ext['names'].setdefault(k, ExtClass(k.split('.')[-1]))

def setup(I):
    n, m, p = I.fresh('n', IntS), I.fresh('m', IntS), I.fresh('p', IntS)
    I.assume(And(n >= 1, m >= 1, p >= 1))
    I.use_axioms('entries', ML.axioms('entries') + hpad_axioms()[:2]); I.use_axioms('ring', ML.axioms('ring') + proc_axioms() + hpad_axioms()[2:])
    X = ML.fresh_mat(I, 'X', (n, m)); Y = ML.fresh_mat(I, 'Y', (n, p))
    return n, m, p, X, Y

def u_padded():
    def body(I):
        n, m, p, X, Y = setup(I); I.cur = {}
        Xm, Ym = ML.mat_of(I, X), ML.mat_of(I, Y)
        cls = I.repo.get(OR)
        me = I.instantiate(cls, [], dict(use_orthogonal_projector=False))
        r = I.call_func(I.find_method(cls, 'fit'), [me, X, Y], {})
        o = I.O(me)
        w = If(m >= p, m, p)
        I.ob('post[C09]:fit-returns-self', BoolVal(isinstance(r, ObjRef) and r.id == me.id), kind='post')
        I.ob('post[C18]:padded-size-is-the-larger-of-features-and-targets', tz(o.attrs['max_components_']) == w, kind='post')
        A, B = I.cur['proc_args'][-1]
        I.ob('post[C18]:procrustes-is-solved-for-the-zero-padded-data-and-targets', And(A == HPad(Xm, w), B == HPad(Ym, w)), kind='post')
        C = ML.mat_of(I, o.attrs['coef_'])
        I.ob('post[C18]:weights-are-the-transposed-procrustes-rotation', C == T(PROC(HPad(Xm, w), HPad(Ym, w))), kind='post')
        I.ob('post[C18]:weight-matrix-is-orthogonal', And(mul(T(C), C) == Id(w), mul(C, T(C)) == Id(w)), kind='post')
        Q = z3.Const('Qcompetitor', Mat)
        I.ob('post[C18]:training-residual-is-minimal-over-all-orthogonal-maps-of-the-padded-size',
             Implies(And(rows(Q) == w, cols(Q) == w, mul(T(Q), Q) == Id(w)),
                     fro2(sub(mul(HPad(Xm, w), T(C)), HPad(Ym, w))) <= fro2(sub(mul(HPad(Xm, w), Q), HPad(Ym, w)))), kind='post')
        nn = I.fresh('n_new', IntS); I.assume(nn >= 1)
        Xt = ML.fresh_mat(I, 'Xnew', (nn, m)); Xtm = ML.mat_of(I, Xt)
        P = I.call_func(I.find_method(cls, 'predict'), [me, Xt], {})
        Pm = ML.mat_of(I, P)
        I.ob('post[C18]:predict-pads-new-data-identically-and-applies-the-rotation', Pm == mul(HPad(Xtm, w), T(C)), kind='post')
        I.ob('post[C18]:predictions-preserve-the-norm-of-their-inputs', mul(Pm, T(Pm)) == mul(HPad(Xtm, w), T(HPad(Xtm, w))), kind='post')
    return Unit('OrthogonalRegression[padded]', body, functions=[OR + '.fit', OR + '.predict'])

def u_projector(user_estimator=False):
    def body(I):
        n, m, p, X, Y = setup(I); I.cur = {}
        Xm, Ym = ML.mat_of(I, X), ML.mat_of(I, Y)
        W = ML.fresh_mat(I, 'W', (m, p)); Wm = ML.mat_of(I, W)
        I.cur['coefT'] = ML.mk(I, T(Wm), (p, m))
        cls = I.repo.get(OR)
        kw = dict(use_orthogonal_projector=True)
        if user_estimator:
            def fit(I2, Xa, ya, **k2): I2.cur['lr_fit_args'] = (Xa, ya)
            kw['linear_estimator'] = skstubs.StubObj(kind='UserEstimator', fit=fit, coef_=I.cur['coefT'])
        me = I.instantiate(cls, [], kw)
        r = I.call_func(I.find_method(cls, 'fit'), [me, X, Y], {})
        o = I.O(me)
        Xa, ya = I.cur['lr_fit_args']
        I.ob('post[C18]:linear-estimator-is-fitted-on-the-data-and-targets', BoolVal(Xa.id == X.id and ya.id == Y.id), kind='post')
        Um, Vm, r_, Mm = I.cur['svd']
        I.ob('post[C18]:reduced-spaces-come-from-the-thin-SVD-of-the-fitted-linear-weights', Mm == Wm, kind='post')
        A, B = I.cur['proc_args'][-1]
        I.ob('post[C18]:procrustes-is-solved-between-the-reduced-spaces', And(A == mul(Xm, Um), B == mul(Ym, T(Vm))), kind='post')
        R = PROC(mul(Xm, Um), mul(Ym, T(Vm)))
        Om = T(ML.mat_of(I, o.attrs['coef_']))       # Omega = coef_^T
        I.ob('post[C18]:weights-are-U-R-Vt', Om == mul(Um, mul(R, Vm)), kind='post')
        I.ob('post[C18]:weights-are-a-partial-isometry', And(mul(T(Om), Om) == mul(T(Vm), Vm), mul(Om, T(Om)) == mul(Um, T(Um)), mul(Om, mul(T(Om), Om)) == Om), kind='post')
        Q = z3.Const('Qcompetitor', Mat)
        I.ob('post[C18]:training-residual-in-the-reduced-spaces-is-minimal-over-all-rotations-between-them',
             Implies(And(rows(Q) == r_, cols(Q) == r_, mul(T(Q), Q) == Id(r_)),
                     fro2(sub(mul(mul(Xm, Um), R), mul(Ym, T(Vm)))) <= fro2(sub(mul(mul(Xm, Um), Q), mul(Ym, T(Vm))))), kind='post')
        nn = I.fresh('n_new', IntS); I.assume(nn >= 1)
        Xt = ML.fresh_mat(I, 'Xnew', (nn, m)); Xtm = ML.mat_of(I, Xt)
        P = I.call_func(I.find_method(cls, 'predict'), [me, Xt], {})
        I.ob('post[C18]:predict-is-X-times-the-weights', ML.mat_of(I, P) == mul(Xtm, Om), kind='post')
    return Unit('OrthogonalRegression[projector' + (',user-estimator' if user_estimator else '') + ']', body, functions=[OR + '.fit', OR + '.predict'])

UNITS = [u_padded, u_projector, lambda: u_projector(True)]
RT = True
TRUSTED = ["matrix layer (ring laws, transposes, Frobenius norm as trace); zero padding as a block matrix [A 0]",
           "assumed external contracts (conformance-tested at run time): orthogonal_procrustes returns an orthogonal minimiser of ||A R - B||_F; thin SVD; LinearRegression.fit/coef_",
           "a partial isometry never increases the norm (||x Omega|| <= ||x||): Lean theorem partial_isometry_norm_le (lemmas/lean/Lemmas.lean, machine-checked); cited: uniqueness of the Procrustes minimiser for full-rank X gives recovery of an exact rotation (bounded check at run time)"]
LEAN_LEMMAS = "lemmas/lean/Lemmas.lean"
