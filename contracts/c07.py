"""C07 — CUR and PCov-CUR select by leverage score on the orthogonalised residual.

Proved per function (contracts/orth.py, contracts/cur.py):
  X_orthogonalizer / Y_feature_orthogonalizer / Y_sample_orthogonalizer  = the documented projections (+ copy-flag frames, orthogonality, projector view)
  _compute_pi (CUR, PCov-CUR, both directions, k in {1,2,3})             = sum of squared entries over the k leading singular / eigen vectors
  _get_best_new_selection                                                = argmax of the stored score; maximal among the unselected under the search invariant
  _update_post_selection / _orthogonalize (recompute_every in {0,1,2,3}) = which residual / unexplained y is stored, when scores are refreshed, zeroing of the pick
  search invariant kept by every step, established by _init_greedy_search, re-established by _continue_greedy_search
Bounded supplement (rt/c07.py, never counted as proved): whole fits against a dense SVD/eigh oracle, sample-vs-feature duality, mixing=1 equals CUR."""
from contracts import cur as K, orth as O
C = K.Cfg

def extend_ext(ext):
    O.extend_ext(ext); K.extend_ext(ext, base=False)

UNITS = list(O.UNITS)
for fam in ('CUR', 'PCovCUR'):
    for d in ('sample', 'feature'):
        for k in (1, 2, 3):
            UNITS.append((lambda c: (lambda: K.u_compute_pi(c)))(C(fam, d, k=k)))
        for re in (0, 1, 2, 3):
            UNITS.append((lambda c: (lambda: K.u_step(c)))(C(fam, d, recompute=re)))
            UNITS.append((lambda c: (lambda: K.u_invariant(c)))(C(fam, d, recompute=re)))
        UNITS.append((lambda c: (lambda: K.u_pick(c)))(C(fam, d)))
        UNITS.append((lambda c: (lambda: K.u_init(c)))(C(fam, d)))
        for re in (0, 1):
            UNITS.append((lambda c: (lambda: K.u_continue(c)))(C(fam, d, recompute=re)))
EXTRA_MODULES = ['pcovutil']      # pcovr_covariance: what it computes (own numpy model)
RT = True
TRUSTED = ["matrix layer: 2-D arrays as terms of an uninterpreted sort with the ring laws of matrix algebra, column-of operator, zero-matrix laws, 1x1 matrices are their trace times Id(1)",
           "Moore-Penrose facts used for the Y orthogonalisers: A G^+ G = A and G G^+ A^T = A^T for G = A^T A are Lean theorems (gram_pinv_absorbs, gram_pinv_absorbs_left: derived from the Penrose conditions G G^+ G = G, (G^+ G)^T = G^+ G, (G G^+)^T = G G^+ that np.linalg.pinv's result satisfies; machine-checked since the third session), and so is A^T A A^+ = A^T (gram_times_pinv, from A A^+ A = A and (A A^+)^T = A A^+); still assumed: the Penrose conditions themselves for np.linalg.pinv's result; np.linalg.lstsq(A, B)[0] = A^+ B",
           "external contracts (assumed): scipy.sparse.linalg.svds returns the k leading singular vectors of the matrix handed in (only the requested side); scipy.sparse.linalg.eigsh the k largest eigenpairs; "
           "scipy.linalg.eigh all eigenpairs, eigenvalues ascending; np.argsort a sorting permutation",
           "ghost flags of the search invariant: the picked residual slice is not numerically zero (C07 quantifies over X whose rank exceeds the number of selections) and the external routines give "
           "component 0 to candidates whose residual slice is zero (true while the residual rank is at least k)",
           "pcovr_kernel / pcovr_covariance: symmetric result of the documented routine (their formulas are the subject of C03/C04)",
           "GreedySelector._continue_greedy_search only resizes the selection buffers (proved under C08)",
           "the X_orthogonalizer unit covers the single-column call forms used by the selectors (c=int, x2=None); the x2= form is not used by any selector and is not covered",
           "reals for floats: 'up to rounding' in the statement is not modelled; the tolerance comparisons are taken exactly"]
LEAN_LEMMAS = "lemmas/lean/Lemmas.lean"
