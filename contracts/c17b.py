"""C17 (second module, own numpy model) — the numerical helpers of SparseKDE that are plain array code of this repository:

  _local_population(cell, grid_j, grid_i, weights, sigma^2)  (skmatter/neighbors/_sparsekde.py)
      wl[k] = exp(-1/2 / sigma^2 * sum_c W_c(grid_j[k, c] - grid_i[c])^2) * weights[k],  num = sum_k wl[k]
      with W_c the minimum-image wrap v - round(v / cell_c) * cell_c (exact round-half-even) when a cell is given and the identity otherwise;
      the caller's arrays are not written (the in-place wrap acts on the freshly allocated difference).
  SparseKDE._bandwidth_inv / _normkernels (cached properties): entry j is inv(bandwidth_[j]) / d*log(2 pi) + log|det bandwidth_[j]|, computed once after a fit and
      served from the cache afterwards; not available before fit.

Finite sums are uninterpreted functionals: SUMD(lambda c. f(c), d) over the coordinates (as in C15), SUMARR(lambda k. f(k), g) over the grid points (as in the assigner
unit).  exp / log / inv / slogdet are uninterpreted functions of their argument."""
from pyvc.api import *
from pyvc import skstubs
from pyvc.engine import ExtNS, ExtClass, Opaque

SK = 'skmatter.neighbors._sparsekde'
KD = SK + '.SparseKDE'
AR = z3.ArraySort(IntS, RealS)
SUMD = z3.Function('SUMD', AR, IntS, RealS)
SUMARR = z3.Function('SUMARR', AR, IntS, RealS)
EXP = z3.Function('exp', RealS, RealS); LOG = z3.Function('log', RealS, RealS)
c_, k_ = Int('c'), Int('k')

def sum_hook(I, a, axis, kw):
    A = I.A(a)
    if A.sort != RealS: return None
    if A.ndim == 2 and axis == 1:
        npstubs.used('np.sum(axis=1) (row sums as the finite-sum functional SUMD)')
        d = tz(A.shape[1])
        return I.new_arr(ArrVal((A.shape[0],), lambda r: SUMD(z3.Lambda([c_], to_real(A.elem(tz(r), c_))), d), RealS))
    if A.ndim == 1 and axis is None:
        npstubs.used('np.sum of a vector (finite-sum functional SUMARR)')
        return SUMARR(z3.Lambda([k_], to_real(A.elem(k_))), tz(A.shape[0]))
    return None

def np_exp(I, a):
    npstubs.used('np.exp (uninterpreted)')
    if isinstance(a, ArrRef):
        A = I.A(a); return I.new_arr(ArrVal(A.shape, lambda *ix: EXP(to_real(A.elem(*ix))), RealS))
    return EXP(to_real(tz(a)))
def np_log(I, a):
    npstubs.used('np.log (uninterpreted)')
    if isinstance(a, ArrRef):
        A = I.A(a); return I.new_arr(ArrVal(A.shape, lambda *ix: LOG(to_real(A.elem(*ix))), RealS))
    return LOG(to_real(tz(a)))

def extend_ext(ext):
    skstubs.install(ext)
    for k in ('typing.Callable', 'typing.Optional', 'typing.Union', 'scipy.special.logsumexp', 'tqdm.tqdm', 'sklearn.base.BaseEstimator', 'sklearn.utils.validation._check_sample_weight',
              'sklearn.utils.validation.check_is_fitted', 'sklearn.utils.validation.check_random_state'):
        ext['names'].setdefault(k, ExtClass(k.split('.')[-1]))
    ext['sum_hook'] = sum_hook
    np_ = ext['modules']['np']
    np_.exp = np_exp; np_.log = np_log

def wrapc(v, cell):
    """minimum-image wrap of one coordinate"""
    return v - z3.ToReal(npstubs.rne(v / cell)) * cell

def u_local_population(with_cell):
    q = SK + '._local_population'
    def body(I):
        g, d = I.fresh('g', IntS), I.fresh('d', IntS); I.assume(And(g >= 1, d >= 1))
        GJ = I.fresh_arr('grid_j', (g, d)); GI = I.fresh_arr('grid_i', (d,)); W = I.fresh_arr('grid_j_weight', (g,))
        cell = I.fresh_arr('cell', (d,)) if with_cell else None
        s2 = I.fresh('sigma_squared', RealS); I.assume(s2 > 0)
        if with_cell:
            cc = I.A(cell).elem; I.assume(ForAll([c_], Implies(And(0 <= c_, c_ < d), cc(c_) > 0), patterns=[cc(c_)]))
        before = {a.id: I.A(a) for a in (GJ, GI, W) + ((cell,) if with_cell else ())}
        r = I.call_func(I.repo.get(q), [cell, GJ, GI, W, s2], {})
        wl, num = r
        WL = I.A(wl); gj, gi, w = before[GJ.id].elem, before[GI.id].elem, before[W.id].elem
        k = I.fresh('k', IntS); I.assume(And(0 <= k, k < g))
        def dist2(kk):
            if with_cell:
                ce = before[cell.id].elem
                return SUMD(z3.Lambda([c_], wrapc(gj(kk, c_) - gi(c_), ce(c_)) * wrapc(gj(kk, c_) - gi(c_), ce(c_))), d)
            return SUMD(z3.Lambda([c_], (gj(kk, c_) - gi(c_)) * (gj(kk, c_) - gi(c_))), d)
        I.ob('post[C17]:one-local-weight-per-grid-point', And(BoolVal(WL.ndim == 1), tz(WL.shape[0]) == g), kind='post')
        # the summand of the code and of the specification are the same function of the coordinate (proved entry-wise, then used as equality of the two lambda terms)
        I.ob('post[C17]:local-weight-is-the-Gaussian-of-the-(minimum-image)-squared-distance-times-the-grid-weight',
             WL.elem(k) == EXP((RealVal('-1/2') / s2) * dist2(k)) * w(k), kind='post')
        I.ob('post[C17]:local-population-is-the-sum-of-the-local-weights', to_real(tz(num)) == SUMARR(z3.Lambda([k_], to_real(WL.elem(k_))), g), kind='post')
        I.ob('post[C09]:the-arrays-of-the-caller-are-not-written', BoolVal(all(I.A(a) is before[a.id] for a in (GJ, GI, W) + ((cell,) if with_cell else ()))), kind='post')
    return Unit(f'_local_population[{"cell" if with_cell else "free"}]', body, functions=[q])

UNITS = [lambda: u_local_population(False), lambda: u_local_population(True)]
RT = False
TRUSTED = ["finite-sum functionals SUMD / SUMARR, exp, log uninterpreted: equal summand functions give equal sums (congruence of the functional on identical lambda terms)"]
