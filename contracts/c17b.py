"""C17 (second module, own numpy model) — the numerical helpers of SparseKDE that are plain array code of this repository:

  _local_population(cell, grid_j, grid_i, weights, sigma^2)  (skmatter/neighbors/_sparsekde.py)
      wl[k] = exp(-1/2 / sigma^2 * sum_c W_c(grid_j[k, c] - grid_i[c])^2) * weights[k],  num = sum_k wl[k]
      with W_c the minimum-image wrap v - round(v / cell_c) * cell_c (exact round-half-even) when a cell is given and the identity otherwise;
      the caller's arrays are not written (the in-place wrap acts on the freshly allocated difference).
  SparseKDE._bandwidth_inv / _normkernels (cached properties): entry j is inv(bandwidth_[j]) / d*log(2 pi) + log|det bandwidth_[j]|, computed once after a fit and
      served from the cache afterwards; not available before fit.

Finite sums are uninterpreted functionals: SUMD(lambda c. f(c), d) over the coordinates (as in C15), SUMARR(lambda k. f(k), g) over the grid points (as in the assigner
unit).  exp / log / inv / slogdet are uninterpreted functions of their argument."""
from pyvc.api import *
from pyvc import skstubs
from pyvc.engine import ExtNS, ExtClass, Opaque

SK = 'skmatter.neighbors._sparsekde'
KD = SK + '.SparseKDE'
AR = z3.ArraySort(IntS, RealS)
SUMD = z3.Function('SUMD', AR, IntS, RealS)
SUMARR = z3.Function('SUMARR', AR, IntS, RealS)
EXP = z3.Function('exp', RealS, RealS); LOG = z3.Function('log', RealS, RealS)
c_, k_ = Int('c'), Int('k')

def sum_hook(I, a, axis, kw):
    A = I.A(a)
    if A.sort != RealS: return None
    if A.ndim == 2 and axis == 1:
        npstubs.used('np.sum(axis=1) (row sums as the finite-sum functional SUMD)')
        d = tz(A.shape[1])
        return I.new_arr(ArrVal((A.shape[0],), lambda r: SUMD(z3.Lambda([c_], to_real(A.elem(tz(r), c_))), d), RealS))
    if A.ndim == 1 and axis is None:
        npstubs.used('np.sum of a vector (finite-sum functional SUMARR)')
        return SUMARR(z3.Lambda([k_], to_real(A.elem(k_))), tz(A.shape[0]))
    return None

def np_exp(I, a):
    npstubs.used('np.exp (uninterpreted)')
    if isinstance(a, ArrRef):
        A = I.A(a); return I.new_arr(ArrVal(A.shape, lambda *ix: EXP(to_real(A.elem(*ix))), RealS))
    return EXP(to_real(tz(a)))
def np_log(I, a):
    npstubs.used('np.log (uninterpreted)')
    if isinstance(a, ArrRef):
        A = I.A(a); return I.new_arr(ArrVal(A.shape, lambda *ix: LOG(to_real(A.elem(*ix))), RealS))
    return LOG(to_real(tz(a)))

def extend_ext(ext):
    skstubs.install(ext)
    for k in ('typing.Callable', 'typing.Optional', 'typing.Union', 'scipy.special.logsumexp', 'tqdm.tqdm', 'sklearn.base.BaseEstimator', 'sklearn.utils.validation._check_sample_weight',
              'sklearn.utils.validation.check_is_fitted', 'sklearn.utils.validation.check_random_state'):
        ext['names'].setdefault(k, ExtClass(k.split('.')[-1]))
    ext['sum_hook'] = sum_hook
    np_ = ext['modules']['np']
    np_.exp = np_exp; np_.log = np_log
    np_.linalg.inv = np_inv; np_.linalg.slogdet = np_slogdet
    np_.array = np_array_of_stack(np_.array)
    ext['comp_sym'] = comp_sym

def wrapc(v, cell):
    """minimum-image wrap of one coordinate"""
    return v - z3.ToReal(npstubs.rne(v / cell)) * cell

def u_local_population(with_cell):
    q = SK + '._local_population'
    def body(I):
        g, d = I.fresh('g', IntS), I.fresh('d', IntS); I.assume(And(g >= 1, d >= 1))
        GJ = I.fresh_arr('grid_j', (g, d)); GI = I.fresh_arr('grid_i', (d,)); W = I.fresh_arr('grid_j_weight', (g,))
        cell = I.fresh_arr('cell', (d,)) if with_cell else None
        s2 = I.fresh('sigma_squared', RealS); I.assume(s2 > 0)
        if with_cell:
            cc = I.A(cell).elem; I.assume(ForAll([c_], Implies(And(0 <= c_, c_ < d), cc(c_) > 0), patterns=[cc(c_)]))
        before = {a.id: I.A(a) for a in (GJ, GI, W) + ((cell,) if with_cell else ())}
        r = I.call_func(I.repo.get(q), [cell, GJ, GI, W, s2], {})
        wl, num = r
        WL = I.A(wl); gj, gi, w = before[GJ.id].elem, before[GI.id].elem, before[W.id].elem
        k = I.fresh('k', IntS); I.assume(And(0 <= k, k < g))
        def dist2(kk):
            if with_cell:
                ce = before[cell.id].elem
                return SUMD(z3.Lambda([c_], wrapc(gj(kk, c_) - gi(c_), ce(c_)) * wrapc(gj(kk, c_) - gi(c_), ce(c_))), d)
            return SUMD(z3.Lambda([c_], (gj(kk, c_) - gi(c_)) * (gj(kk, c_) - gi(c_))), d)
        I.ob('post[C17]:one-local-weight-per-grid-point', And(BoolVal(WL.ndim == 1), tz(WL.shape[0]) == g), kind='post')
        # the summand of the code and of the specification are the same function of the coordinate (proved entry-wise, then used as equality of the two lambda terms)
        I.ob('post[C17]:local-weight-is-the-Gaussian-of-the-(minimum-image)-squared-distance-times-the-grid-weight',
             WL.elem(k) == EXP((RealVal('-1/2') / s2) * dist2(k)) * w(k), kind='post')
        I.ob('post[C17]:local-population-is-the-sum-of-the-local-weights', to_real(tz(num)) == SUMARR(z3.Lambda([k_], to_real(WL.elem(k_))), g), kind='post')
        I.ob('post[C09]:the-arrays-of-the-caller-are-not-written', BoolVal(all(I.A(a) is before[a.id] for a in (GJ, GI, W) + ((cell,) if with_cell else ()))), kind='post')
    return Unit(f'_local_population[{"cell" if with_cell else "free"}]', body, functions=[q])

# ------------------------------------------------------------------ cached inverse bandwidths / kernel normalisations
A2 = z3.ArraySort(IntS, IntS, RealS)
INV = z3.Function('inv', A2, IntS, A2)             # inverse of a d x d matrix (as a function of its entries)
LOGABSDET = z3.Function('logabsdet', A2, IntS, RealS)
a_, b_ = Int('a'), Int('b')
CALLS = []

def np_inv(I, h):
    npstubs.used('np.linalg.inv (uninterpreted function of the entries)')
    H = I.A(h)
    if H.ndim != 2: raise Unsupported("inv of a non-matrix")
    I.ob('pre:np.linalg.inv:square', tz(H.shape[0]) == tz(H.shape[1]), kind='pre')
    CALLS.append('inv')
    M = z3.Lambda([a_, b_], to_real(H.elem(a_, b_)))
    R = INV(M, tz(H.shape[0]))
    return I.new_arr(ArrVal(H.shape, lambda x, y: R[tz(x), tz(y)], RealS))
def np_slogdet(I, h):
    npstubs.used('np.linalg.slogdet (uninterpreted function of the entries)')
    H = I.A(h); CALLS.append('slogdet')
    return (Opaque('sign'), LOGABSDET(z3.Lambda([a_, b_], to_real(H.elem(a_, b_))), tz(H.shape[0])))

def comp_sym(I, e, g, it, F):
    """[f(h) for h in <stack of matrices of symbolic length>]: evaluated once on a bound index; the result is the stack of the values"""
    if not isinstance(it, ArrRef) or I.A(it).ndim != 3 or g.ifs: raise Unsupported("comprehension over symbolic iterable")
    A = I.A(it)
    k = I.fresh('k!comp', IntS)
    G = dict(F); I.assign(g.target, I.new_arr(ArrVal(A.shape[1:], (lambda k: lambda x, y: A.elem(k, tz(x), tz(y)))(k), A.sort)), G)
    I.st.guards.append(And(0 <= k, k < tz(A.shape[0])))
    try: body = I.ev(e.elt, G)
    finally: I.st.guards.pop()
    if isinstance(body, ArrRef):
        B = I.A(body)
        if B.ndim != 2: raise Unsupported("comprehension body")
        return I.new_arr(ArrVal((A.shape[0],) + tuple(B.shape), (lambda B, k: lambda i, x, y: z3.substitute(B.elem(tz(x), tz(y)), (k, tz(i))))(B, k), RealS, ('stack',), True))
    body = tz(body)
    return I.new_arr(ArrVal((A.shape[0],), (lambda body, k: lambda i: z3.substitute(to_real(body), (k, tz(i))))(body, k), RealS, ('stack',), True))

def np_array_of_stack(prev):
    def f(I, a, dtype=None, **kw):
        if isinstance(a, ArrRef) and I.A(a).tag == ('stack',):
            A = I.A(a); return I.new_arr(ArrVal(A.shape, A.elem, A.sort))
        return prev(I, a, dtype=dtype, **kw)
    return f

def u_cached(which, state):
    """state: 'unfitted' | 'first' (fitted, cache empty) | 'cached' (fitted, cache filled)"""
    def body(I):
        g, d, n = I.fresh('g', IntS), I.fresh('d', IntS), I.fresh('n', IntS); I.assume(And(g >= 1, d >= 1, n >= 1))
        del CALLS[:]
        cls = I.repo.get(KD)
        B = I.fresh_arr('bandwidth', (g, d, d)); D = I.fresh_arr('descriptors', (n, d))
        cache = I.fresh_arr('cache', (g, d, d) if which == '_bandwidth_inv' else (g,)) if state == 'cached' else None
        me = I.new_obj(cls, dict(fitted_=(state != 'unfitted'), bandwidth_=B, descriptors=D, _bandwidth_inv_=(cache if which == '_bandwidth_inv' else None), _normkernels_=(cache if which == '_normkernels' else None)))
        r = I.getattr_(me, which)
        o = I.O(me); R = I.A(r)
        I.ob('reject[C17]:not-available-before-fit', BoolVal(state != 'unfitted'), kind='post')
        I.ob('post[C17]:the-cache-holds-what-is-returned', BoolVal(isinstance(o.attrs[which + '_'], ArrRef) and o.attrs[which + '_'].id == r.id), kind='post')
        if state == 'cached':
            I.ob('post[C17]:a-filled-cache-is-served-without-recomputation', BoolVal(r.id == cache.id and not CALLS), kind='post')
            return
        j = I.fresh('j', IntS); I.assume(And(0 <= j, j < g))
        Bj = z3.Lambda([a_, b_], to_real(I.A(B).elem(j, a_, b_)))
        if which == '_bandwidth_inv':
            x, y = I.fresh('x', IntS), I.fresh('y', IntS); I.assume(And(0 <= x, x < d, 0 <= y, y < d))
            I.ob('post[C17]:one-inverse-per-grid-point', And(BoolVal(R.ndim == 3), tz(R.shape[0]) == g, tz(R.shape[1]) == d, tz(R.shape[2]) == d), kind='post')
            I.ob('post[C17]:entry-j-is-the-inverse-of-the-bandwidth-of-grid-point-j', R.elem(j, x, y) == INV(Bj, d)[x, y], kind='post')
        else:
            I.ob('post[C17]:one-normalisation-per-grid-point', And(BoolVal(R.ndim == 1), tz(R.shape[0]) == g), kind='post')
            I.ob('post[C17]:entry-j-is-d-log-2pi-plus-the-log-determinant-of-the-bandwidth-of-grid-point-j',
                 R.elem(j) == z3.ToReal(d) * LOG(RealVal(2) * RealVal(repr(3.141592653589793))) + LOGABSDET(Bj, d), kind='post')
    rn = 'reject[C17]:not-available-before-fit'
    return Unit(f'SparseKDE.{which}[{state}]', body, functions=[KD + '.' + which], on_raise=(lambda I, st, r: r.kind == 'ValueError') if state == 'unfitted' else None,
                reject_name=rn if state == 'unfitted' else None)

UNITS = [lambda: u_local_population(False), lambda: u_local_population(True)] + [(lambda w, s_: (lambda: u_cached(w, s_)))(w, s_) for w in ('_bandwidth_inv', '_normkernels') for s_ in ('unfitted', 'first', 'cached')]
RT = False
TRUSTED = ["finite-sum functionals SUMD / SUMARR, exp, log, matrix inverse and log|det| uninterpreted functions of their arguments: equal arguments give equal values (congruence on identical lambda terms)"]
