"""C17 (second module, own numpy model) — the numerical helpers of SparseKDE that are plain array code of this repository:

  _local_population(cell, grid_j, grid_i, weights, sigma^2)  (skmatter/neighbors/_sparsekde.py)
      wl[k] = exp(-1/2 / sigma^2 * sum_c W_c(grid_j[k, c] - grid_i[c])^2) * weights[k],  num = sum_k wl[k]
      with W_c the minimum-image wrap v - round(v / cell_c) * cell_c (exact round-half-even) when a cell is given and the identity otherwise;
      the caller's arrays are not written (the in-place wrap acts on the freshly allocated difference).
  _covariance (free space): entry (a, b) = sum_k (x_ka - m_a) (w_k / W) (x_kb - m_b) / (1 - sum_k (w_k / W)^2) with m the weighted mean; the matrix is symmetric; caller arrays untouched.
  oas (skmatter/utils/_sparsekde.py): (1 - phi) cov + phi (tr cov / D) I with the documented phi; a symmetric input gives a symmetric output.
  SparseKDE._bandwidth_estimation_from_localization: h = (4 / n_local / (dim + 2))^(2 / (dim + 4)) * oas(local covariance), the effective dimension taken from the UNSHRUNK local
      covariance, the local covariance measured on the grid with the local weights; the bandwidth matrix is symmetric (chain: _covariance symmetric -> oas symmetric -> h symmetric).
  SparseKDE._computes_kernel_density_estimation (what score_samples returns), for every number of queries, grid points, descriptors and dimensions: the nested loops are cut
      with invariants "exp(prob[i]) = TOT(i, j)" where TOT(i, j+1) = TOT(i, j) + TERM(i, j) and TERM(i, j) is the documented mixture term of grid point j at query i:
      the grid-level Gaussian w_j exp(-(nk_j + d2_j(x_i, g_j)) / 2) when the squared Mahalanobis distance of the query to the grid point under that point's own bandwidth
      exceeds the cut-off, and otherwise the sum over the descriptors assigned to that grid point which differ from the query in some coordinate of
      weight * exp(-(nk_j + d2_j(descriptor, x_i)) / 2); the result is log(TOT(i, g)) - log(total grid weight).  pairwise_mahalanobis_distances is a modular callee (its formula is
      C15's subject): MD2(precision, row, row), called with squared=True and the configured cell; logsumexp: expn(result) = sum of expn of the entries (expn(-inf) = 0).
  SparseKDE._computes_localized_bandwidth (the per-grid-point loop, modular over the callees above): in every iteration the population is measured around THIS grid point on the
      grid with the grid weights, the configured cell and its current width; with fpoints > 0 the width is tuned by the fraction of points (tolerance one descriptor, global scale
      = trace of the grid covariance), otherwise it is re-localised on the nearest-grid distance exactly when it is below the measured population; the bandwidth is estimated for
      this grid point from the (tuned) local weights and stored with its covariance in slot i.  _tune_localization_factor_based_on_fraction_of_points (both while loops cut with
      an invariant; PARTIAL correctness - its termination is the recorded finding): whenever it returns, the returned population and local weights are those of the returned width
      around this grid point, the population is within the tolerance of the target (the fraction of points, or the own weight plus the tolerance when that is larger), the other grid
      points are untouched.  _tune_localization_factor_based_on_fraction_of_spread: the width of this grid point
      becomes its nearest-grid distance and the population is re-measured around this grid point (repaired defect 14e9ec4: it used to pass all descriptors and the whole grid).
  effdim (skmatter/utils/_sparsekde.py): rejects a matrix with an eigenvalue at or below -d*eps (LinAlgError); otherwise exp(-sum p log p) over exactly the POSITIVE eigenvalues
      normalised to total one (np.linalg.eigvals: the eigenvalues as uninterpreted real functions of the entries); the caller's matrix is not written.
  SparseKDE._bandwidth_inv / _normkernels (cached properties): entry j is inv(bandwidth_[j]) / d*log(2 pi) + log|det bandwidth_[j]|, computed once after a fit and
      served from the cache afterwards; not available before fit.

Finite sums are uninterpreted functionals: SUMD(lambda c. f(c), d) over the coordinates (as in C15), SUMARR(lambda k. f(k), g) over the grid points (as in the assigner
unit).  exp / log / inv / slogdet are uninterpreted functions of their argument."""
from pyvc.api import *
from pyvc import skstubs
from pyvc.engine import ExtNS, ExtClass, Opaque
from pyvc.api import INF

SK = 'skmatter.neighbors._sparsekde'
KD = SK + '.SparseKDE'
AR = z3.ArraySort(IntS, RealS)
SUMD = z3.Function('SUMD', AR, IntS, RealS)
SUMARR = z3.Function('SUMARR', AR, IntS, RealS)
EXP = z3.Function('exp', RealS, RealS); LOG = z3.Function('log', RealS, RealS)
c_, k_ = Int('c'), Int('k')

def sum_hook(I, a, axis, kw):
    A = I.A(a)
    if A.sort != RealS: return None
    if A.ndim == 2 and axis == 1:
        npstubs.used('np.sum(axis=1) (row sums as the finite-sum functional SUMD)')
        d = tz(A.shape[1])
        return I.new_arr(ArrVal((A.shape[0],), lambda r: SUMD(z3.Lambda([c_], to_real(A.elem(tz(r), c_))), d), RealS))
    if A.ndim == 1 and axis is None:
        npstubs.used('np.sum of a vector (finite-sum functional SUMARR)')
        return SUMARR(z3.Lambda([k_], to_real(A.elem(k_))), tz(A.shape[0]))
    return None

def np_exp(I, a):
    npstubs.used('np.exp (uninterpreted)')
    if isinstance(a, ArrRef):
        A = I.A(a); return I.new_arr(ArrVal(A.shape, lambda *ix: EXP(to_real(A.elem(*ix))), RealS))
    return EXP(to_real(tz(a)))
def np_log(I, a):
    npstubs.used('np.log (uninterpreted)')
    if isinstance(a, ArrRef):
        A = I.A(a); return I.new_arr(ArrVal(A.shape, lambda *ix: LOG(to_real(A.elem(*ix))), RealS))
    return LOG(to_real(tz(a)))

def extend_ext(ext):
    skstubs.install(ext)
    for k in ('typing.Callable', 'typing.Optional', 'typing.Union', 'scipy.special.logsumexp', 'tqdm.tqdm', 'sklearn.base.BaseEstimator', 'sklearn.utils.validation._check_sample_weight',
              'sklearn.utils.validation.check_is_fitted', 'sklearn.utils.validation.check_random_state'):
        ext['names'].setdefault(k, ExtClass(k.split('.')[-1]))
    ext['sum_hook'] = sum_hook
    np_ = ext['modules']['np']
    np_.exp = np_exp; np_.log = np_log
    np_.linalg.inv = np_inv; np_.linalg.slogdet = np_slogdet; np_.linalg.eigvals = np_eigvals
    EPSC = z3.Real('float_eps')
    def finfo(I, dt):
        I.assume(EPSC > 0); I.cur['eps'] = EPSC
        return skstubs.StubObj(kind='finfo', eps=EPSC)
    np_.finfo = finfo
    pmax_ = np_.max
    np_.max = lambda I, a, **kw: (zmax(a[0], a[1]) if isinstance(a, tuple) and len(a) == 2 else pmax_(I, a, **kw))
    lae = ExtClass('LinAlgError'); np_.linalg.LinAlgError = lae
    if not getattr(npstubs.where_true, '_c17b', False):
        _orig_wt = npstubs.where_true
        def wt(I, mask):
            r = _orig_wt(I, mask)
            if isinstance(getattr(I, 'cur', None), dict): I.cur['where_pos'] = I.A(r)
            return r
        wt._c17b = True; npstubs.where_true = wt
    np_.array = np_array_of_stack(np_.array)
    ext['comp_sym'] = comp_sym
    ext['c17b'] = True
    ext['mat_getitem'] = prov_getitem
    ext['names']['scipy.special.logsumexp'] = lse_stub
    np_.concatenate = np_concatenate_(np_.concatenate); np_.any = np_any_(np_.any); np_.diagonal = np_diagonal
    ext['arr_attrs'] = dict(ext['arr_attrs'])
    prev_reshape = ext['arr_attrs']['reshape']
    def reshape_attr(I, a):
        def f(I2, *shape, **kw):
            A = I2.A(a); shp = tuple(shape[0]) if len(shape) == 1 and isinstance(shape[0], (tuple, list)) else tuple(shape)
            if A.ndim == 1 and len(shp) == 2 and conc(shp[0]) == -1 and conc(shp[1]) == 1:
                return I2.new_arr(ArrVal((A.shape[0], 1), lambda x, y: A.elem(tz(x)), A.sort))
            if A.ndim == 3 and len(shp) == 1 and conc(shp[0]) == -1 and conc(A.shape[0]) == 1 and conc(A.shape[2]) == 1:       # (1, m, 1) -> (m,)
                return I2.new_arr(ArrVal((A.shape[1],), lambda t: A.elem(IntVal(0), tz(t), IntVal(0)), A.sort))
            return prev_reshape(I2, a)(I2, *shape, **kw)
        return f
    ext['arr_attrs']['reshape'] = reshape_attr
    np_.trace = np_trace; np_.eye = np_eye; np_.average = np_average
    if dot_hook not in npstubs.MATMUL_HOOKS: npstubs.MATMUL_HOOKS.append(dot_hook)
    ext['builtins'] = dict(ext['builtins']); ext['builtins']['sum'] = b_sum
    ext['pow_hook'] = lambda I, a, b: POW(to_real(tz(a)), to_real(tz(b)))

def wrapc(v, cell):
    """minimum-image wrap of one coordinate"""
    return v - z3.ToReal(npstubs.rne(v / cell)) * cell

def u_local_population(with_cell):
    q = SK + '._local_population'
    def body(I):
        g, d = I.fresh('g', IntS), I.fresh('d', IntS); I.assume(And(g >= 1, d >= 1))
        GJ = I.fresh_arr('grid_j', (g, d)); GI = I.fresh_arr('grid_i', (d,)); W = I.fresh_arr('grid_j_weight', (g,))
        cell = I.fresh_arr('cell', (d,)) if with_cell else None
        s2 = I.fresh('sigma_squared', RealS); I.assume(s2 > 0)
        if with_cell:
            cc = I.A(cell).elem; I.assume(ForAll([c_], Implies(And(0 <= c_, c_ < d), cc(c_) > 0), patterns=[cc(c_)]))
        before = {a.id: I.A(a) for a in (GJ, GI, W) + ((cell,) if with_cell else ())}
        r = I.call_func(I.repo.get(q), [cell, GJ, GI, W, s2], {})
        wl, num = r
        WL = I.A(wl); gj, gi, w = before[GJ.id].elem, before[GI.id].elem, before[W.id].elem
        k = I.fresh('k', IntS); I.assume(And(0 <= k, k < g))
        def dist2(kk):
            if with_cell:
                ce = before[cell.id].elem
                return SUMD(z3.Lambda([c_], wrapc(gj(kk, c_) - gi(c_), ce(c_)) * wrapc(gj(kk, c_) - gi(c_), ce(c_))), d)
            return SUMD(z3.Lambda([c_], (gj(kk, c_) - gi(c_)) * (gj(kk, c_) - gi(c_))), d)
        I.ob('post[C17]:one-local-weight-per-grid-point', And(BoolVal(WL.ndim == 1), tz(WL.shape[0]) == g), kind='post')
        # the summand of the code and of the specification are the same function of the coordinate (proved entry-wise, then used as equality of the two lambda terms)
        I.ob('post[C17]:local-weight-is-the-Gaussian-of-the-(minimum-image)-squared-distance-times-the-grid-weight',
             WL.elem(k) == EXP((RealVal('-1/2') / s2) * dist2(k)) * w(k), kind='post')
        I.ob('post[C17]:local-population-is-the-sum-of-the-local-weights', to_real(tz(num)) == SUMARR(z3.Lambda([k_], to_real(WL.elem(k_))), g), kind='post')
        I.ob('post[C09]:the-arrays-of-the-caller-are-not-written', BoolVal(all(I.A(a) is before[a.id] for a in (GJ, GI, W) + ((cell,) if with_cell else ()))), kind='post')
    return Unit(f'_local_population[{"cell" if with_cell else "free"}]', body, functions=[q])

# ------------------------------------------------------------------ cached inverse bandwidths / kernel normalisations
A2 = z3.ArraySort(IntS, IntS, RealS)
INV = z3.Function('inv', A2, IntS, A2)             # inverse of a d x d matrix (as a function of its entries)
LOGABSDET = z3.Function('logabsdet', A2, IntS, RealS)
a_, b_ = Int('a'), Int('b')
CALLS = []

def np_inv(I, h):
    npstubs.used('np.linalg.inv (uninterpreted function of the entries)')
    H = I.A(h)
    if H.ndim != 2: raise Unsupported("inv of a non-matrix")
    I.ob('pre:np.linalg.inv:square', tz(H.shape[0]) == tz(H.shape[1]), kind='pre')
    CALLS.append('inv')
    M = z3.Lambda([a_, b_], to_real(H.elem(a_, b_)))
    R = INV(M, tz(H.shape[0]))
    return I.new_arr(ArrVal(H.shape, lambda x, y: R[tz(x), tz(y)], RealS))
def np_slogdet(I, h):
    npstubs.used('np.linalg.slogdet (uninterpreted function of the entries)')
    H = I.A(h); CALLS.append('slogdet')
    return (Opaque('sign'), LOGABSDET(z3.Lambda([a_, b_], to_real(H.elem(a_, b_))), tz(H.shape[0])))

def comp_sym(I, e, g, it, F):
    """[f(h) for h in <stack of matrices of symbolic length>]: evaluated once on a bound index; the result is the stack of the values"""
    if not isinstance(it, ArrRef) or I.A(it).ndim != 3 or g.ifs: raise Unsupported("comprehension over symbolic iterable")
    A = I.A(it)
    k = I.fresh('k!comp', IntS)
    G = dict(F); I.assign(g.target, I.new_arr(ArrVal(A.shape[1:], (lambda k: lambda x, y: A.elem(k, tz(x), tz(y)))(k), A.sort)), G)
    I.st.guards.append(And(0 <= k, k < tz(A.shape[0])))
    try: body = I.ev(e.elt, G)
    finally: I.st.guards.pop()
    if isinstance(body, ArrRef):
        B = I.A(body)
        if B.ndim != 2: raise Unsupported("comprehension body")
        return I.new_arr(ArrVal((A.shape[0],) + tuple(B.shape), (lambda B, k: lambda i, x, y: z3.substitute(B.elem(tz(x), tz(y)), (k, tz(i))))(B, k), RealS, ('stack',), True))
    body = tz(body)
    return I.new_arr(ArrVal((A.shape[0],), (lambda body, k: lambda i: z3.substitute(to_real(body), (k, tz(i))))(body, k), RealS, ('stack',), True))

def np_array_of_stack(prev):
    def f(I, a, dtype=None, **kw):
        if isinstance(a, ArrRef) and I.A(a).tag == ('stack',):
            A = I.A(a); return I.new_arr(ArrVal(A.shape, A.elem, A.sort))
        return prev(I, a, dtype=dtype, **kw)
    return f

def u_cached(which, state):
    """state: 'unfitted' | 'first' (fitted, cache empty) | 'cached' (fitted, cache filled)"""
    def body(I):
        g, d, n = I.fresh('g', IntS), I.fresh('d', IntS), I.fresh('n', IntS); I.assume(And(g >= 1, d >= 1, n >= 1))
        del CALLS[:]
        cls = I.repo.get(KD)
        B = I.fresh_arr('bandwidth', (g, d, d)); D = I.fresh_arr('descriptors', (n, d))
        cache = I.fresh_arr('cache', (g, d, d) if which == '_bandwidth_inv' else (g,)) if state == 'cached' else None
        me = I.new_obj(cls, dict(fitted_=(state != 'unfitted'), bandwidth_=B, descriptors=D, _bandwidth_inv_=(cache if which == '_bandwidth_inv' else None), _normkernels_=(cache if which == '_normkernels' else None)))
        r = I.getattr_(me, which)
        o = I.O(me); R = I.A(r)
        I.ob('reject[C17]:not-available-before-fit', BoolVal(state != 'unfitted'), kind='post')
        I.ob('post[C17]:the-cache-holds-what-is-returned', BoolVal(isinstance(o.attrs[which + '_'], ArrRef) and o.attrs[which + '_'].id == r.id), kind='post')
        if state == 'cached':
            I.ob('post[C17]:a-filled-cache-is-served-without-recomputation', BoolVal(r.id == cache.id and not CALLS), kind='post')
            return
        j = I.fresh('j', IntS); I.assume(And(0 <= j, j < g))
        Bj = z3.Lambda([a_, b_], to_real(I.A(B).elem(j, a_, b_)))
        if which == '_bandwidth_inv':
            x, y = I.fresh('x', IntS), I.fresh('y', IntS); I.assume(And(0 <= x, x < d, 0 <= y, y < d))
            I.ob('post[C17]:one-inverse-per-grid-point', And(BoolVal(R.ndim == 3), tz(R.shape[0]) == g, tz(R.shape[1]) == d, tz(R.shape[2]) == d), kind='post')
            I.ob('post[C17]:entry-j-is-the-inverse-of-the-bandwidth-of-grid-point-j', R.elem(j, x, y) == INV(Bj, d)[x, y], kind='post')
        else:
            I.ob('post[C17]:one-normalisation-per-grid-point', And(BoolVal(R.ndim == 1), tz(R.shape[0]) == g), kind='post')
            I.ob('post[C17]:entry-j-is-d-log-2pi-plus-the-log-determinant-of-the-bandwidth-of-grid-point-j',
                 R.elem(j) == z3.ToReal(d) * LOG(RealVal(2) * RealVal(repr(3.141592653589793))) + LOGABSDET(Bj, d), kind='post')
    rn = 'reject[C17]:not-available-before-fit'
    return Unit(f'SparseKDE.{which}[{state}]', body, functions=[KD + '.' + which], on_raise=(lambda I, st, r: r.kind == 'ValueError') if state == 'unfitted' else None,
                reject_name=rn if state == 'unfitted' else None)

# ------------------------------------------------------------------ covariance, OAS shrinkage, bandwidth assembly
UT = 'skmatter.utils._sparsekde'
POW = z3.Function('pow', RealS, RealS, RealS)
TRACE = z3.Function('TRACE', z3.ArraySort(IntS, IntS, RealS), IntS, RealS)          # sum of the diagonal entries
t_ = Int('t')

def lamk(f): return z3.Lambda([k_], f(k_))

def np_trace(I, a, **kw):
    npstubs.used('np.trace (finite-sum functional over the diagonal)')
    A = I.A(a)
    if A.ndim != 2: raise Unsupported("trace of a non-matrix")
    return TRACE(z3.Lambda([a_, b_], to_real(A.elem(a_, b_))), tz(A.shape[0]))
def np_eye(I, n, *a, **kw):
    if a or kw: raise Unsupported("eye form")
    return I.new_arr(ArrVal((n, n), lambda x, y: If(tz(x) == tz(y), RealVal(1), RealVal(0)), RealS))
def np_average(I, X, axis=None, weights=None, **kw):
    npstubs.used('np.average(X, axis=0, weights=w) = sum_k w_k X[k, c] / sum_k w_k')
    A = I.A(X); W = I.A(weights)
    if A.ndim != 2 or axis != 0 or W.ndim != 1: raise Unsupported("np.average form")
    sd = npstubs.same_dim(A.shape[0], W.shape[0])
    if sd is False: raise RaiseEx('ValueError')
    if sd is None: I.ob('shape:np.average weights', tz(A.shape[0]) == tz(W.shape[0]), kind='shape')
    n = tz(A.shape[0])
    den = SUMARR(lamk(lambda k: to_real(W.elem(k))), n)
    return I.new_arr(ArrVal((A.shape[1],), lambda c: SUMARR(lamk(lambda k: to_real(W.elem(k)) * to_real(A.elem(k, tz(c)))), n) / den, RealS))
def dot_hook(I, a, b, what):
    """A^T-style products of element-defined matrices: entry (x, y) = sum_k a[x, k] * b[k, y] (finite-sum functional)"""
    if not (isinstance(a, ArrRef) and isinstance(b, ArrRef)): return None
    A, B = I.A(a), I.A(b)
    if A.ndim != 2 or B.ndim != 2 or A.sort != RealS or B.sort != RealS or (A.tag and A.tag[0] == 'mat') or (B.tag and B.tag[0] == 'mat'): return None
    if not I.ext.get('c17b'): return None
    sd = npstubs.same_dim(A.shape[1], B.shape[0])
    if sd is False: raise RaiseEx('ValueError')
    if sd is None: I.ob(f'shape:{what}', tz(A.shape[1]) == tz(B.shape[0]), kind='shape')
    n = tz(A.shape[1])
    return I.new_arr(ArrVal((A.shape[0], B.shape[1]), lambda x, y: SUMARR(lamk(lambda k: A.elem(tz(x), k) * B.elem(k, tz(y))), n), RealS))
def b_sum(I, it, start=0):
    if isinstance(it, ArrRef) and I.A(it).ndim == 1 and I.A(it).sort == RealS:
        A = I.A(it); return SUMARR(lamk(lambda k: to_real(A.elem(k))), tz(A.shape[0]))
    return npstubs.b_sum(I, it, start)

def u_oas():
    q = UT + '.oas'
    def body(I):
        D = I.fresh('D', IntS); I.assume(D >= 1)
        n = I.fresh('n', RealS); I.assume(n > 0)
        C = I.fresh_arr('cov', (D, D)); C0 = I.A(C)
        r = I.call_func(I.repo.get(q), [C, n, D], {})
        R = I.A(r); c = C0.elem
        x, y = I.fresh('x', IntS), I.fresh('y', IntS); I.assume(And(0 <= x, x < D, 0 <= y, y < D))
        tr = TRACE(z3.Lambda([a_, b_], c(a_, b_)), D); tr2c = TRACE(z3.Lambda([a_, b_], c(a_, b_) * c(a_, b_)), D)
        Dr = z3.ToReal(D)
        phi = ((1 - 2 / Dr) * tr2c + tr * tr) / ((n + 1 - 2 / Dr) * tr2c - tr * tr / Dr)
        I.ob('post[C17]:shrunk-covariance-is-(1-phi)-cov-plus-phi-times-the-mean-variance-on-the-diagonal', R.elem(x, y) == (1 - phi) * c(x, y) + phi * If(x == y, RealVal(1), RealVal(0)) * tr / Dr, kind='post')
        I.ob('post[C17]:shrinkage-keeps-a-symmetric-matrix-symmetric', Implies(c(x, y) == c(y, x), R.elem(x, y) == R.elem(y, x)), kind='post')
        I.ob('post[C09]:the-covariance-of-the-caller-is-not-written', BoolVal(I.A(C) is C0), kind='post')
    return Unit('oas', body, functions=[q])

def u_covariance():
    q = SK + '._covariance'
    def body(I):
        n, d = I.fresh('n', IntS), I.fresh('d', IntS); I.assume(And(n >= 1, d >= 1))
        X = I.fresh_arr('X', (n, d)); W = I.fresh_arr('w', (n,)); X0, W0 = I.A(X), I.A(W)
        xe, we = X0.elem, W0.elem
        tot = SUMARR(lamk(lambda k: we(k)), n)
        I.assume(tot > 0)          # requires: the weights have a positive total (local weights are Gaussians times positive grid weights)
        r = I.call_func(I.repo.get(q), [X, W, None], {})
        R = I.A(r)
        wn = lambda k: we(k) / tot
        mean = lambda c: SUMARR(lamk(lambda k: wn(k) * xe(k, c)), n) / SUMARR(lamk(lambda k: wn(k)), n)
        den = 1 - SUMARR(lamk(lambda k: wn(k) * wn(k)), n)
        x, y = I.fresh('x', IntS), I.fresh('y', IntS); I.assume(And(0 <= x, x < d, 0 <= y, y < d))
        f = lambda p, q_: lamk(lambda k: (xe(k, p) - mean(p)) * we(k) / tot * (xe(k, q_) - mean(q_)))
        I.ob('post[C17]:one-entry-per-pair-of-coordinates', And(BoolVal(R.ndim == 2), tz(R.shape[0]) == d, tz(R.shape[1]) == d), kind='post')
        I.ob('post[C17]:covariance-is-the-weighted-sum-of-outer-products-of-the-centred-points-with-the-unbiasing-factor', R.elem(x, y) == SUMARR(f(x, y), n) / den, kind='post')
        # symmetry: the two summand functions agree entry by entry (commutativity of the product), hence the sums (congruence of the finite-sum functional)
        k0 = I.fresh('k0', IntS)
        g1 = f(x, y)[k0] == f(y, x)[k0]
        I.ob('step:summands-of-the-transposed-entry-agree', g1, kind='lemma')
        I.assume(ForAll([t_], f(x, y)[t_] == f(y, x)[t_]))                                   # generalisation over the arbitrary index k0
        I.assume(Implies(ForAll([t_], f(x, y)[t_] == f(y, x)[t_]), SUMARR(f(x, y), n) == SUMARR(f(y, x), n)))      # congruence of SUMARR at these two functions
        I.ob('post[C17]:covariance-is-symmetric', R.elem(x, y) == R.elem(y, x), kind='post')
        I.ob('post[C09]:the-arrays-of-the-caller-are-not-written', BoolVal(I.A(X) is X0 and I.A(W) is W0), kind='post')
    return Unit('_covariance[free space]', body, functions=[q])

def u_bandwidth():
    q = KD + '._bandwidth_estimation_from_localization'
    def cov_contract():
        def make_result(I, F):
            I.cur['cov_args'] = dict(F)
            d = I.A(F['X']).shape[1]
            r = I.fresh_arr('localcov', (d, d)); R = I.A(r)
            I.assume(ForAll([a_, b_], R.elem(a_, b_) == R.elem(b_, a_), patterns=[R.elem(a_, b_)]))      # proved in the unit of _covariance
            I.cur['cov'] = r
            return r
        return FuncContract(make_result=make_result)
    def effdim_contract():
        def make_result(I, F):
            I.cur['effdim_arg'] = F['cov']; ld = I.fresh('local_dimension', RealS); I.assume(ld > 0); I.cur['ld'] = ld; return ld
        return FuncContract(make_result=make_result)
    def body(I):
        g, d, n = I.fresh('g', IntS), I.fresh('d', IntS), I.fresh('n', IntS); I.assume(And(g >= 1, d >= 1, n >= 1))
        I.cur = {}
        X = I.fresh_arr('grid', (g, d)); wl = I.fresh_arr('wlocal', (g,)); fl = I.fresh_arr('flocal', (g,)); D = I.fresh_arr('descriptors', (n, d))
        idx = I.fresh('idx', IntS); I.assume(And(0 <= idx, idx < g))
        I.assume(I.A(fl).elem(idx) > 0)
        cell = None
        cls = I.repo.get(KD)
        me = I.new_obj(cls, dict(cell=cell, descriptors=D))
        h, cov = I.call_func(I.find_method(cls, '_bandwidth_estimation_from_localization'), [me, X, wl, fl, idx], {})
        H, C = I.A(h), I.A(cov)
        ca = I.cur.get('cov_args')
        I.ob('post[C17]:local-covariance-is-measured-on-the-grid-with-the-local-weights-and-the-configured-cell', BoolVal(ca is not None and ca['X'].id == X.id and ca['sample_weights'].id == wl.id and ca['cell'] is cell), kind='post')
        I.ob('post[C17]:effective-dimension-is-taken-from-the-unshrunk-local-covariance', BoolVal(I.cur.get('effdim_arg') is not None and I.cur['effdim_arg'].id == I.cur['cov'].id), kind='post')
        nlocal = I.A(fl).elem(idx) * z3.ToReal(n); ld = I.cur['ld']
        x, y = I.fresh('x', IntS), I.fresh('y', IntS); I.assume(And(0 <= x, x < d, 0 <= y, y < d))
        I.ob('post[C17]:bandwidth-is-the-Silverman-factor-(4/n_local/(dim+2))^(2/(dim+4))-times-the-shrunk-local-covariance', H.elem(x, y) == POW(4 / nlocal / (ld + 2), 2 / (ld + 4)) * C.elem(x, y), kind='post')
        I.ob('post[C17]:bandwidth-matrix-is-symmetric', H.elem(x, y) == H.elem(y, x), kind='post')
        I.ob('post[C17]:returned-covariance-is-symmetric', C.elem(x, y) == C.elem(y, x), kind='post')
    return Unit('SparseKDE._bandwidth_estimation_from_localization', body, funcs={SK + '._covariance': cov_contract(), UT + '.effdim': effdim_contract()}, functions=[q, UT + '.oas'])

# ------------------------------------------------------------------ the mixture loop: SparseKDE._computes_kernel_density_estimation
PW = 'skmatter.metrics._pairwise.pairwise_mahalanobis_distances'
MD2 = z3.Function('MD2', IntS, IntS, IntS, IntS, IntS, RealS)    # squared (periodic) Mahalanobis distance with precision k between row (array id, row) and row (array id, row)
EXPN = z3.Function('expn', RealS, RealS)                          # exp, extended by expn(-inf) = 0
TOT = z3.Function('TOT', IntS, IntS, RealS)                       # TOT(i, j): the mixture terms of query i from the grid points < j
TERM = z3.Function('TERM', IntS, IntS, RealS)
NEARF = z3.Function('NEAR', IntS, IntS, RealS)
NLEN = z3.Function('NLEN', IntS, IntS); NBE = z3.Function('NBE', IntS, IntS, IntS)      # member list of grid cell j: length, t-th member (a descriptor index)
s_ = Int('s')

class Members:
    """self._grid_neighbour: per grid point the integer array of the descriptors assigned to it"""
    def __init__(self, n): self.n = n; self.cache = {}
    def _pyvc_getitem(self, I, b, ix):
        j = tz(ix); key = z3.simplify(j).sexpr()
        if key not in self.cache:
            m = NLEN(j)
            I.assume(And(m >= 0, ForAll([t_], Implies(And(0 <= t_, t_ < m), And(0 <= NBE(j, t_), NBE(j, t_) < self.n)), patterns=[NBE(j, t_)])))
            self.cache[key] = I.new_arr(ArrVal((conc(m),), (lambda j: lambda t: NBE(j, tz(t)))(j), IntS, ('members', j)))
        return self.cache[key]

def prov_getitem(I, b, ix):
    """row / precision provenance of slices of the base arrays (which descriptor / query / grid point / precision a slice is)"""
    pv = I.cur.get('prov') if isinstance(getattr(I, 'cur', None), dict) else None
    if pv is None or I.cur.get('in_prov') or not isinstance(b, ArrRef) or b.id not in pv: return None
    kind, base, fn = pv[b.id]; A = I.A(b)
    if kind == 'row' and isinstance(ix, tuple) and len(ix) == 2 and ix[0] is None and ix[1] is Ellipsis:
        r = I.new_arr(ArrVal((1, A.shape[0]), lambda x, c: A.elem(tz(c)), A.sort)); pv[r.id] = ('rows', base, lambda a: fn); return r
    if any(x is Ellipsis for x in (ix if isinstance(ix, tuple) else (ix,))): return None
    I.cur['in_prov'] = True
    try: r = npstubs.arr_getitem(I, b, ix)
    finally: I.cur['in_prov'] = False
    if not isinstance(r, ArrRef): return r
    scalar = not isinstance(ix, (tuple, slice, ArrRef, list)) and ix is not None
    if kind == 'rows' and A.ndim == 2 and scalar: pv[r.id] = ('row', base, fn(tz(ix)))
    elif kind == 'rows' and A.ndim == 2 and isinstance(ix, ArrRef) and I.A(ix).ndim == 1 and I.A(ix).sort == IntS:
        J = I.A(ix); pv[r.id] = ('rows', base, (lambda J, fn: lambda a: fn(J.elem(tz(a))))(J, fn))
    elif kind == 'precs' and A.ndim == 3 and scalar: pv[r.id] = ('prec', base, fn(tz(ix)))
    return r

def pmd_contract():
    def make_result(I, F):
        pv = I.cur['prov']; X, Y, P = F['X'], F['Y'], F['cov_inv']
        ok = all(isinstance(a, ArrRef) and a.id in pv for a in (X, Y, P)) and pv[X.id][0] == 'rows' and pv[Y.id][0] == 'rows' and pv[P.id][0] in ('precs', 'prec')
        ok = ok and F.get('squared') is True and (F.get('cell_length') is I.cur['cell'] or (isinstance(F.get('cell_length'), ArrRef) and isinstance(I.cur['cell'], ArrRef) and F['cell_length'].id == I.cur['cell'].id))
        nx, ny = I.A(X).shape[0], I.A(Y).shape[0]
        I.cur.setdefault('pmd_calls', []).append(ok)
        if not ok: return I.fresh_arr('mahalanobis', (I.fresh('ncov', IntS), nx, ny))         # not the documented call: nothing is known about the result
        xb, xf = pv[X.id][1], pv[X.id][2]; yb, yf = pv[Y.id][1], pv[Y.id][2]
        if pv[P.id][0] == 'precs': ncov = I.A(P).shape[0]; pf = pv[P.id][2]
        else: ncov = 1; pf = (lambda jj: lambda k: jj)(pv[P.id][2])
        return I.new_arr(ArrVal((ncov, nx, ny), lambda k, a, b: MD2(pf(tz(k)), IntVal(xb), xf(tz(a)), IntVal(yb), yf(tz(b))), RealS))
    return FuncContract(make_result=make_result)

def prop_contract(name):
    def make_result(I, F): return I.cur[name]
    return FuncContract(make_result=make_result)

def lse_stub(I, a, **kw):
    """scipy.special.logsumexp: the logarithm of the sum of the exponentials (expn(-inf) = 0)"""
    npstubs.used('scipy.special.logsumexp (expn(result) = sum of expn of the entries)')
    r = I.fresh('lse', RealS)
    if isinstance(a, (list, tuple)) and len(a) == 2 and not any(isinstance(x, ArrRef) for x in a):
        I.assume(EXPN(r) == EXPN(to_real(tz(a[0]))) + EXPN(to_real(tz(a[1])))); return r
    if isinstance(a, ArrRef) and I.A(a).tag and I.A(a).tag[0] == 'lseconcat':
        _, p0, arr = I.A(a).tag; A = I.A(arr)
        I.assume(EXPN(r) == EXPN(to_real(tz(p0))) + SUMARR(z3.Lambda([s_], EXPN(to_real(A.elem(s_)))), tz(A.shape[0]))); return r
    raise Unsupported("logsumexp form")

def np_concatenate_(prev):
    def f(I, seq, axis=0, **kw):
        if isinstance(seq, (list, tuple)) and len(seq) == 2 and isinstance(seq[0], (list, tuple)) and len(seq[0]) == 1 and not isinstance(seq[0][0], ArrRef) and isinstance(seq[1], ArrRef) and I.A(seq[1]).ndim == 1:
            B = I.A(seq[1]); p0 = to_real(tz(seq[0][0]))
            return I.new_arr(ArrVal((conc(z3.simplify(tz(B.shape[0]) + 1)),), lambda t: If(tz(t) == 0, p0, to_real(B.elem(tz(t) - 1))), RealS, ('lseconcat', p0, seq[1])))
        return prev(I, seq, axis=axis, **kw)
    return f

def np_any_(prev):
    def f(I, a, axis=None, **kw):
        A = I.A(a)
        if A.ndim == 2 and axis == 1 and A.sort == BoolS:
            d = tz(A.shape[1])
            return I.new_arr(ArrVal((A.shape[0],), lambda t: Exists([c_], And(0 <= c_, c_ < d, A.elem(tz(t), c_))), BoolS))
        return prev(I, a, axis=axis, **kw)
    return f

def np_diagonal(I, a, **kw):
    A = I.A(a)
    if A.ndim != 2 or kw: raise Unsupported("diagonal form")
    n = conc(z3.simplify(If(tz(A.shape[0]) <= tz(A.shape[1]), tz(A.shape[0]), tz(A.shape[1]))))
    return I.new_arr(ArrVal((n,), lambda t: A.elem(tz(t), tz(t)), A.sort))

def u_mixture(with_cell):
    q = KD + '._computes_kernel_density_estimation'
    def spec_terms(I, i, j):
        c = I.cur; D, Xq, w, sw, NK, KC = c['D'], c['Xq'], c['w'], c['sw'], c['NK'], c['KC']
        md_far = MD2(j, IntVal(c['Xid']), i, IntVal(c['Gid']), j)
        far = EXPN(RealVal('-1/2') * (NK(j) + md_far) + LOG(sw(j)))
        mask = lambda t: Exists([c_], And(0 <= c_, c_ < c['d'], D(NBE(j, t), c_) != Xq(i, c_)))
        hh = lambda t: EXPN(RealVal('-1/2') * (NK(j) + MD2(j, IntVal(c['Did']), NBE(j, t), IntVal(c['Xid']), i)) + LOG(w(NBE(j, t))))
        lam = z3.Lambda([t_], If(mask(t_), hh(t_), RealVal(0)))
        return md_far, far, mask, hh, lam
    def inv_outer(I, F, i, gh):
        c = I.cur; P = I.A(F['prob']); a = Int('a!o')
        return [('[C17]one-log-density-per-query', tz(P.shape[0]) == c['nq']),
                ('[C17]finished-queries-hold-the-log-of-their-mixture-terms', ForAll([a], Implies(And(0 <= a, a < i), EXPN(P.elem(a)) == TOT(a, c['g'])), patterns=[P.elem(a)])),
                ('[C17]queries-not-yet-visited-are-minus-infinity', ForAll([a], Implies(And(i <= a, a < c['nq']), P.elem(a) == -INF), patterns=[P.elem(a)]))]
    def inv_inner(I, F, j, gh):
        c = I.cur; P = I.A(F['prob']); a = Int('a!o'); i = tz(F['i'])
        return [('[C17]one-log-density-per-query', tz(P.shape[0]) == c['nq']),
                ('[C17]finished-queries-hold-the-log-of-their-mixture-terms', ForAll([a], Implies(And(0 <= a, a < i), EXPN(P.elem(a)) == TOT(a, c['g'])), patterns=[P.elem(a)])),
                ('[C17]queries-not-yet-visited-are-minus-infinity', ForAll([a], Implies(And(i < a, a < c['nq']), P.elem(a) == -INF), patterns=[P.elem(a)])),
                ('[C17]current-query-holds-the-log-of-the-terms-of-the-grid-points-visited', EXPN(P.elem(i)) == TOT(i, j))]
    def hints_inner(I, Fpre, F, j, gpre, gpost):
        c = I.cur; i = tz(F['i']); j = tz(j)
        md_far, far, mask, hh, lam = spec_terms(I, i, j)
        n_j = NLEN(j)
        # definitions of the specification, unfolded at this (query, grid point)
        I.assume(TOT(i, j + 1) == TOT(i, j) + TERM(i, j))
        I.assume(TERM(i, j) == If(md_far > c['KC'], far, NEARF(i, j)))
        I.assume(NEARF(i, j) == SUMARR(lam, n_j))
        out = []
        nb = F.get('neighbours'); took_near = isinstance(nb, ArrRef) and any(z3.is_expr(g_) and z3.eq(z3.simplify(g_), z3.simplify(Not(md_far > c['KC']))) for g_ in I.st.pc[-40:])
        if isinstance(nb, ArrRef) and I.A(nb).tag and I.A(nb).tag[0] == 'take' and I.A(I.A(nb).tag[2]).tag and I.A(I.A(nb).tag[2]).tag[0] == 'where':
            J = I.A(I.A(nb).tag[2]); m1 = tz(J.shape[0]); f = J.elem
            # law of boolean-mask selection and finite sums (instance): summing h over the selected members (in order) = summing over all members h where the mask holds, 0 elsewhere
            sel = z3.Lambda([s_], hh(f(s_)))
            Mk = I.A(I.A(I.A(nb).tag[2]).tag[1])            # the mask the code selected with
            same_mask = And(tz(Mk.shape[0]) == n_j, ForAll([t_], Implies(And(0 <= t_, t_ < n_j), Mk.elem(t_) == mask(t_))))
            out.append(('the-members-are-filtered-by-differing-from-the-query-in-some-coordinate', same_mask))
            I.assume(Implies(same_mask, SUMARR(sel, m1) == SUMARR(lam, n_j)))
            I.assume(Implies(ForAll([t_], Implies(And(0 <= t_, t_ < n_j), lam[t_] == 0)), SUMARR(lam, n_j) == 0))          # a sum of zeros is zero (instance)
            lnks = F.get('lnks')
            if isinstance(lnks, ArrRef) and 'lnks' not in Fpre or (isinstance(lnks, ArrRef) and Fpre.get('lnks') is not lnks):
                Lk = I.A(lnks); code = z3.Lambda([s_], EXPN(to_real(Lk.elem(s_))))
                s0 = I.fresh('s0', IntS); I.assume(And(0 <= s0, s0 < m1))
                out.append(('each-selected-member-contributes-its-descriptor-level-Gaussian', code[s0] == sel[s0]))
                I.assume(Implies(ForAll([t_], Implies(And(0 <= t_, t_ < m1), code[t_] == sel[t_])), SUMARR(code, m1) == SUMARR(sel, m1)))       # congruence of the finite sum (instance)
                out.append(('...for-every-selected-member', ForAll([t_], Implies(And(0 <= t_, t_ < m1), code[t_] == sel[t_]))))
                out.append(('...so-the-sums-agree', SUMARR(code, m1) == SUMARR(lam, n_j)))
        return out
    def body(I):
        n, g, d, nq = I.fresh('n', IntS), I.fresh('g', IntS), I.fresh('d', IntS), I.fresh('nq', IntS); I.assume(And(n >= 1, g >= 1, d >= 1, nq >= 1))
        D = I.fresh_arr('descriptors', (n, d)); w = I.fresh_arr('weights', (n,)); G = I.fresh_arr('grids', (g, d)); sw = I.fresh_arr('grid_weights', (g,)); Q = I.fresh_arr('queries', (nq, d))
        BINV = I.fresh_arr('bandwidth_inv', (g, d, d)); NK = I.fresh_arr('normkernels', (g,)); KC = I.fresh('kdecut_squared', RealS)
        cell = I.fresh_arr('cell', (d,)) if with_cell else None
        I.cur = dict(prov={D.id: ('rows', 1, lambda a: a), G.id: ('rows', 2, lambda a: a), Q.id: ('rows', 3, lambda a: a), BINV.id: ('precs', 4, lambda k: k)},      # array codes: 1 descriptors, 2 grid, 3 queries
                     cell=cell, _bandwidth_inv=BINV, _normkernels=NK, kdecut_squared=KC, g=g, nq=nq, d=d, Did=1, Gid=2, Xid=3,
                     D=I.A(D).elem, Xq=I.A(Q).elem, w=lambda k: to_real(I.A(w).elem(k)), sw=lambda k: to_real(I.A(sw).elem(k)), NK=lambda k: to_real(I.A(NK).elem(k)), KC=KC)
        I.assume(EXPN(-INF) == 0)                       # expn extends exp by expn(-inf) = 0
        a0 = Int('a!t'); I.assume(ForAll([a0], TOT(a0, 0) == 0, patterns=[TOT(a0, 0)]))      # empty sum
        cls = I.repo.get(KD)
        me = I.new_obj(cls, dict(descriptors=D, weights=w, _grids=G, _sample_weights=sw, _grid_neighbour=Members(n), cell=cell, fitted_=True, verbose=False))
        r = I.call_func(I.find_method(cls, '_computes_kernel_density_estimation'), [me, Q], {})
        R = I.A(r)
        I.ob('post[C17]:one-log-density-per-query', And(BoolVal(R.ndim == 1), tz(R.shape[0]) == nq), kind='post')
        qi = I.fresh('qi', IntS); I.assume(And(0 <= qi, qi < nq))
        tot_w = SUMARR(z3.Lambda([k_], to_real(I.A(sw).elem(k_))), g)
        lg = I.cur.get('last_prob')
        I.ob('post[C17]:score_samples-is-the-log-of-the-documented-mixture-minus-the-log-of-the-total-grid-weight',
             Exists([Real('acc')], And(EXPN(Real('acc')) == TOT(qi, g), R.elem(qi) == Real('acc') - LOG(tot_w))), kind='post')
        I.ob('post[C17]:every-distance-is-a-squared-Mahalanobis-distance-with-the-configured-cell', BoolVal(bool(I.cur.get('pmd_calls')) and all(I.cur['pmd_calls'])), kind='post')
    funcs = {PW: pmd_contract(), KD + '._bandwidth_inv': prop_contract('_bandwidth_inv'), KD + '._normkernels': prop_contract('_normkernels'), KD + '.kdecut_squared': prop_contract('kdecut_squared')}
    return Unit(f'SparseKDE._computes_kernel_density_estimation[{"cell" if with_cell else "free"}]', body, funcs=funcs,
                loops={(q, 0): LoopContract(inv_outer), (q, 1): LoopContract(inv_inner, hints=hints_inner)}, functions=[q])

# ------------------------------------------------------------------ localisation: the per-grid-point loop of the bandwidth estimation and the spread tuning
def lp_contract():
    """_local_population as a modular callee (its formula is proved above): records what it is called with, returns fresh local weights and a fresh population"""
    def make_result(I, F):
        g = I.A(F['grid_j']).shape[0]
        wl = I.fresh_arr('wlocal', (g,)); num = I.fresh('population', RealS)
        I.cur.setdefault('lp_calls', []).append(dict(cell=F['cell'], grid_j=F['grid_j'], grid_i=F['grid_i'], w=F['grid_j_weight'], s2=F['sigma_squared'], wl=wl, num=num))
        return (wl, num)
    return FuncContract(make_result=make_result)

def is_row_of(I, r, X, idx):
    """r is row idx of X (entry by entry)"""
    R, A = I.A(r), I.A(X)
    if R.ndim != 1: return BoolVal(False)
    return And(BoolVal(R.ndim == 1), tz(R.shape[0]) == tz(A.shape[1]), ForAll([c_], Implies(And(0 <= c_, c_ < tz(A.shape[1])), R.elem(c_) == A.elem(idx, c_))))

def u_tune_spread(with_cell):
    q = KD + '._tune_localization_factor_based_on_fraction_of_spread'
    def body(I):
        g, d, n = I.fresh('g', IntS), I.fresh('d', IntS), I.fresh('n', IntS); I.assume(And(g >= 1, d >= 1, n >= 1))
        I.cur = {}
        X = I.fresh_arr('grid', (g, d)); sw = I.fresh_arr('grid_weights', (g,)); s2 = I.fresh_arr('sigma2', (g,)); fl = I.fresh_arr('flocal', (g,)); md = I.fresh_arr('mindist', (g,)); D = I.fresh_arr('descriptors', (n, d))
        cell = I.fresh_arr('cell', (d,)) if with_cell else None
        idx = I.fresh('idx', IntS); I.assume(And(0 <= idx, idx < g))
        S0, F0, M0 = I.A(s2), I.A(fl), I.A(md)
        cls = I.repo.get(KD); me = I.new_obj(cls, dict(cell=cell, descriptors=D))
        r = I.call_func(I.find_method(cls, '_tune_localization_factor_based_on_fraction_of_spread'), [me, X, sw, s2, fl, idx, md], {})
        rs2, rfl, rwl = r
        calls = I.cur.get('lp_calls', [])
        I.ob('post[C17]:the-local-population-is-recomputed-once', BoolVal(len(calls) == 1), kind='post')
        if len(calls) != 1: return
        c0 = calls[0]; S1, F1 = I.A(rs2), I.A(rfl)
        a = I.fresh('a', IntS); I.assume(And(0 <= a, a < g, a != idx))
        I.ob('post[C17]:the-localisation-width-of-this-grid-point-becomes-its-distance-to-the-nearest-other-grid-point', And(S1.elem(idx) == M0.elem(idx), S1.elem(a) == S0.elem(a)), kind='post')
        I.ob('post[C17]:the-population-is-measured-around-THIS-grid-point-on-the-grid-with-the-grid-weights-the-configured-cell-and-the-new-width',
             And(BoolVal(c0['cell'] is cell and c0['grid_j'].id == X.id and c0['w'].id == sw.id), is_row_of(I, c0['grid_i'], X, idx), to_real(tz(c0['s2'])) == M0.elem(idx)), kind='post')
        I.ob('post[C17]:the-new-population-is-stored-for-this-grid-point-only-and-the-local-weights-are-returned', And(F1.elem(idx) == c0['num'], F1.elem(a) == F0.elem(a), BoolVal(isinstance(rwl, ArrRef) and rwl.id == c0['wl'].id)), kind='post')
    return Unit(f'SparseKDE._tune_localization_factor_based_on_fraction_of_spread[{"cell" if with_cell else "free"}]', body, funcs={SK + '._local_population': lp_contract()}, functions=[q])

def u_localized_bandwidth(mode):
    """mode: 'fpoints' (tuning by the fraction of points) | 'fspread' (tuning by the fraction of spread, taken when the width is below the population)"""
    q = KD + '._computes_localized_bandwidth'
    def tune_contract(which):
        def make_result(I, F):
            g = I.A(F['X']).shape[0]
            out = (I.fresh_arr('sigma2_t', (g,)), I.fresh_arr('flocal_t', (g,)), I.fresh_arr('wlocal_t', (g,)))
            I.cur.setdefault('tune_calls', []).append(dict(which=which, args=dict(F), out=out)); return out
        return FuncContract(make_result=make_result)
    def bw_contract():
        def make_result(I, F):
            d = I.A(F['X']).shape[1]
            h, cv = I.fresh_arr('h', (d, d)), I.fresh_arr('cov', (d, d))
            I.cur.setdefault('bw_calls', []).append(dict(args=dict(F), h=h, cov=cv)); return (h, cv)
        return FuncContract(make_result=make_result)
    def cov_contract():
        def make_result(I, F):
            I.cur['global_cov_args'] = dict(F); d = I.A(F['X']).shape[1]; r = I.fresh_arr('globalcov', (d, d)); I.cur['global_cov'] = I.A(r); return r
        return FuncContract(make_result=make_result)
    def inv(I, F, i, gh):
        c = I.cur; o = I.O(F['self']); B = I.A(o.attrs['bandwidth_']); C = I.A(o.attrs['_covariance'])
        return [('[C17]one-bandwidth-and-one-covariance-per-grid-point', And(tz(B.shape[0]) == c['g'], tz(B.shape[1]) == c['d'], tz(B.shape[2]) == c['d'], tz(C.shape[0]) == c['g'], tz(C.shape[1]) == c['d'], tz(C.shape[2]) == c['d'])),
                ('[C17]one-width-and-one-population-per-grid-point', And(tz(I.A(F['sigma2']).shape[0]) == c['g'], tz(I.A(F['flocal']).shape[0]) == c['g']))]
    def hints(I, Fpre, F, i, gpre, gpost):
        c = I.cur; o = I.O(F['self']); i = tz(i)
        lp = c.get('lp_calls', []); tn = c.get('tune_calls', []); bw = c.get('bw_calls', [])
        out = [('one-population-measurement-one-estimation-per-grid-point', BoolVal(len(lp) == 1 and len(bw) == 1))]
        if len(lp) != 1 or len(bw) != 1: return out
        S_pre = I.A(Fpre['sigma2'])
        out.append(('the-population-is-measured-around-this-grid-point-on-the-grid-with-the-grid-weights-the-configured-cell-and-its-current-width',
                    And(BoolVal(lp[0]['cell'] is c['cell'] and lp[0]['grid_j'].id == c['X'].id and lp[0]['w'].id == c['sw'].id), is_row_of(I, lp[0]['grid_i'], c['X'], i), to_real(tz(lp[0]['s2'])) == S_pre.elem(i))))
        a = bw[0]['args']
        if mode == 'fpoints':
            ok = len(tn) == 1 and tn[0]['which'] == 'points'
            out.append(('with-a-positive-fraction-of-points-the-width-is-tuned-by-the-fraction-of-points (tolerance: one descriptor)', BoolVal(ok)))
            if ok:
                t = tn[0]['args']
                out.append(('...for-this-grid-point-with-the-grid-the-grid-weights-and-the-global-scale',
                            And(BoolVal(t['X'].id == c['X'].id and t['sample_weights'].id == c['sw'].id), tz(t['idx']) == i, to_real(tz(t['delta'])) == 1 / z3.ToReal(c['n']), to_real(tz(t['tune'])) == TRACE(z3.Lambda([a_, b_], c['global_cov'].elem(a_, b_)), c['d']))))
                out.append(('the-estimation-uses-the-tuned-local-weights-and-populations', BoolVal(a['wlocal'].id == tn[0]['out'][2].id and a['flocal'].id == tn[0]['out'][1].id)))
        else:
            # the spread tuning is taken exactly when the width is below the measured population
            took = len(tn) == 1
            cond = S_pre.elem(i) < lp[0]['num']
            out.append(('the-width-is-re-localised-on-the-nearest-grid-distance-exactly-when-it-is-below-the-measured-population', cond if took else Not(cond)))
            if took:
                t = tn[0]['args']
                out.append(('...for-this-grid-point-with-the-nearest-grid-distances', And(BoolVal(tn[0]['which'] == 'spread' and t['X'].id == c['X'].id and t['sample_weights'].id == c['sw'].id and t['mindist'].id == c['md'].id), tz(t['idx']) == i)))
                out.append(('the-estimation-uses-the-tuned-local-weights-and-populations', BoolVal(a['wlocal'].id == tn[0]['out'][2].id and a['flocal'].id == tn[0]['out'][1].id)))
            else:
                out.append(('the-estimation-uses-the-measured-local-weights', BoolVal(a['wlocal'].id == lp[0]['wl'].id)))
        out.append(('the-estimation-is-made-for-this-grid-point-on-the-grid', And(BoolVal(a['X'].id == c['X'].id), tz(a['idx']) == i)))
        B = I.A(o.attrs['bandwidth_']); C = I.A(o.attrs['_covariance']); x, y = I.fresh('x', IntS), I.fresh('y', IntS); I.assume(And(0 <= x, x < c['d'], 0 <= y, y < c['d']))
        out.append(('the-estimated-bandwidth-and-covariance-are-stored-for-this-grid-point', And(B.elem(i, x, y) == I.A(bw[0]['h']).elem(x, y), C.elem(i, x, y) == I.A(bw[0]['cov']).elem(x, y))))
        return out
    def body(I):
        g, d, n = I.fresh('g', IntS), I.fresh('d', IntS), I.fresh('n', IntS); I.assume(And(g >= 1, d >= 1, n >= 1))
        X = I.fresh_arr('grid', (g, d)); sw = I.fresh_arr('grid_weights', (g,)); md = I.fresh_arr('mindist', (g,)); D = I.fresh_arr('descriptors', (n, d))
        fp = I.fresh('fpoints', RealS); fs = I.fresh('fspread', RealS)
        I.assume(And(fp > 0, fs <= 0) if mode == 'fpoints' else And(fp <= 0, fs > 0))
        I.cur = dict(g=g, d=d, n=n, X=X, sw=sw, md=md, cell=None)
        cls = I.repo.get(KD); me = I.new_obj(cls, dict(cell=None, descriptors=D, fpoints=fp, fspread=fs, verbose=False))
        # the global scale: trace of the global covariance (free space)
        I.cur['tune'] = None
        class _T: pass
        def after_cov(I2, F): pass
        r = I.call_func(I.find_method(cls, '_computes_localized_bandwidth'), [me, X, sw, md], {})
        ga = I.cur.get('global_cov_args')
        I.ob('post[C17]:the-global-scale-is-taken-from-the-covariance-of-the-grid-with-the-grid-weights', BoolVal(ga is not None and ga['X'].id == X.id and ga['sample_weights'].id == sw.id and ga['cell'] is None), kind='post')
        o = I.O(me); B = I.A(o.attrs['bandwidth_'])
        I.ob('post[C17]:one-bandwidth-per-grid-point', And(tz(B.shape[0]) == g, tz(B.shape[1]) == d, tz(B.shape[2]) == d), kind='post')
    funcs = {SK + '._local_population': lp_contract(), SK + '._covariance': cov_contract(),
             KD + '._tune_localization_factor_based_on_fraction_of_points': tune_contract('points'), KD + '._tune_localization_factor_based_on_fraction_of_spread': tune_contract('spread'),
             KD + '._bandwidth_estimation_from_localization': bw_contract()}
    lc = LoopContract(inv, hints=hints)
    return Unit(f'SparseKDE._computes_localized_bandwidth[{mode}]', body, funcs=funcs, loops={(q, 0): lc}, functions=[q])

LPNUM = z3.Function('LPNUM', RealS, RealS); LPWL = z3.Function('LPWL', RealS, IntS, RealS)      # population / local weights around the tuned grid point as functions of the width

def u_tune_points():
    """partial correctness of the bisection (its termination is the recorded finding): whenever it returns, the returned population and local weights are those of the returned
    width around this grid point, the population is within delta of the target, and nothing else was touched"""
    q = KD + '._tune_localization_factor_based_on_fraction_of_points'
    def lp_fn_contract():
        def make_result(I, F):
            c = I.cur; s2 = to_real(tz(F['sigma_squared']))
            ok = And(BoolVal(F['cell'] is c['cell'] and F['grid_j'].id == c['X'].id and F['grid_j_weight'].id == c['sw'].id), is_row_of(I, F['grid_i'], c['X'], c['idx']))
            I.ob('pre-at-call:_local_population:measured-around-this-grid-point-on-the-grid-with-the-grid-weights-and-the-configured-cell', ok, kind='post')
            g = I.A(F['grid_j']).shape[0]
            wl = I.new_arr(ArrVal((g,), (lambda s2: lambda k: LPWL(s2, tz(k)))(s2), RealS))
            return (wl, LPNUM(s2))
        return FuncContract(make_result=make_result)
    def inv(I, F, it, gh):
        c = I.cur; S, Fl = I.A(F['sigma2']), I.A(F['flocal']); a = Int('a!t'); idx = c['idx']
        out = [('[C17]the-stored-population-is-that-of-the-stored-width', Fl.elem(idx) == LPNUM(S.elem(idx))),
               ('[C17]one-width-and-one-population-per-grid-point', And(tz(S.shape[0]) == c['g'], tz(Fl.shape[0]) == c['g'])),
               ('[C17]the-other-grid-points-are-not-touched', ForAll([a], Implies(And(0 <= a, a < c['g'], a != idx), And(S.elem(a) == c['S0'].elem(a), Fl.elem(a) == c['F0'].elem(a))), patterns=[S.elem(a)]))]
        return out
    def body(I):
        g, d, n = I.fresh('g', IntS), I.fresh('d', IntS), I.fresh('n', IntS); I.assume(And(g >= 1, d >= 1, n >= 1))
        X = I.fresh_arr('grid', (g, d)); sw = I.fresh_arr('grid_weights', (g,)); s2 = I.fresh_arr('sigma2', (g,)); fl = I.fresh_arr('flocal', (g,)); D = I.fresh_arr('descriptors', (n, d))
        idx = I.fresh('idx', IntS); I.assume(And(0 <= idx, idx < g))
        delta, tune, fp = I.fresh('delta', RealS), I.fresh('tune', RealS), I.fresh('fpoints', RealS); I.assume(And(delta > 0, tune > 0, fp > 0))
        I.cur = dict(cell=None, X=X, sw=sw, idx=idx, g=g, S0=I.A(s2), F0=I.A(fl))
        I.assume(I.A(fl).elem(idx) == LPNUM(I.A(s2).elem(idx)))          # requires: the caller has just measured the population for the current width (call site in _computes_localized_bandwidth)
        cls = I.repo.get(KD); me = I.new_obj(cls, dict(cell=None, descriptors=D, fpoints=fp))
        r = I.call_func(I.find_method(cls, '_tune_localization_factor_based_on_fraction_of_points'), [me, X, sw, s2, fl, idx, delta, tune], {})
        rs2, rfl, rwl = r
        S1, F1 = I.A(rs2), I.A(rfl)
        I.ob('post[C17]:widths-and-populations-are-updated-in-place-and-returned', BoolVal(rs2.id == s2.id and rfl.id == fl.id), kind='post')
        I.ob('post[C17]:the-returned-population-is-that-of-the-returned-width', F1.elem(idx) == LPNUM(S1.elem(idx)), kind='post')
        k = I.fresh('k', IntS); I.assume(And(0 <= k, k < g))
        I.ob('post[C17]:the-returned-local-weights-are-those-of-the-returned-width', BoolVal(isinstance(rwl, ArrRef)) if not isinstance(rwl, ArrRef) else I.A(rwl).elem(k) == LPWL(S1.elem(idx), k), kind='post')
        w_i = to_real(I.A(sw).elem(idx)); lim = If(fp <= w_i, w_i + delta, fp)
        dev = F1.elem(idx) - lim
        I.ob('post[C17]:the-returned-population-is-within-the-tolerance-of-the-target (the fraction of points, or the own weight plus the tolerance when that is larger)', And(dev < delta, -dev < delta), kind='post')
        a = I.fresh('a', IntS); I.assume(And(0 <= a, a < g, a != idx))
        I.ob('post[C17]:the-other-grid-points-are-not-touched', And(S1.elem(a) == I.cur['S0'].elem(a), F1.elem(a) == I.cur['F0'].elem(a)), kind='post')
    return Unit('SparseKDE._tune_localization_factor_based_on_fraction_of_points', body, funcs={SK + '._local_population': lp_fn_contract()},
                loops={(q, 0): LoopContract(inv), (q, 1): LoopContract(inv)}, functions=[q])

EIG = z3.Function('EIG', A2, IntS, IntS, RealS)          # k-th eigenvalue of a d x d matrix (as a function of its entries)
def np_eigvals(I, a):
    npstubs.used('np.linalg.eigvals (uninterpreted: the eigenvalues as functions of the entries, taken as real)')
    A = I.A(a); M = z3.Lambda([a_, b_], to_real(A.elem(a_, b_))); d = tz(A.shape[0])
    return I.new_arr(ArrVal((A.shape[0],), lambda k: EIG(M, d, tz(k)), RealS))

def u_effdim():
    q = UT + '.effdim'
    def body(I):
        d = I.fresh('d', IntS); I.assume(d >= 1)
        C = I.fresh_arr('cov', (d, d)); C0 = I.A(C)
        I.cur = {}
        r = I.call_func(I.repo.get(q), [C], {})
        M = z3.Lambda([a_, b_], C0.elem(a_, b_)); ev = lambda k: EIG(M, d, k)
        kk = I.fresh('kk', IntS); I.assume(And(0 <= kk, kk < d))
        I.ob('post[C17]:accepted-matrices-have-no-eigenvalue-below-minus-the-rounding-threshold', ev(kk) > -(z3.ToReal(d) * I.cur['eps']) if 'eps' in I.cur else BoolVal(False), kind='post')
        I.ob('post[C09]:the-covariance-of-the-caller-is-not-written', BoolVal(I.A(C) is C0), kind='post')
        # the value: exp(-sum p log p) over the POSITIVE eigenvalues normalised to total one
        wt = I.cur.get('where_pos')
        I.ob('post[C17]:only-the-positive-eigenvalues-enter', BoolVal(wt is not None), kind='post')
        if wt is None: return
        J = wt; m = tz(J.shape[0]); lam = lambda t: ev(J.elem(t)); tot = SUMARR(z3.Lambda([t_], lam(t_)), m)
        t0 = I.fresh('t0', IntS); I.assume(And(0 <= t0, t0 < m)); k0 = I.fresh('k0', IntS); I.assume(And(0 <= k0, k0 < d, ev(k0) > 0))
        wit = J.tag[2] if J.tag and J.tag[0] == 'where' else None
        I.ob('post[C17]:the-eigenvalues-that-enter-are-exactly-the-positive-ones', And(0 <= J.elem(t0), J.elem(t0) < d, ev(J.elem(t0)) > 0, BoolVal(wit is not None) if wit is None else And(0 <= wit(k0), wit(k0) < m, J.elem(wit(k0)) == k0)), kind='post')
        p = lambda t: lam(t) / tot
        I.ob('post[C17]:effective-dimension-is-the-exponential-of-the-entropy-of-the-normalised-positive-spectrum', to_real(tz(r)) == EXP(-SUMARR(z3.Lambda([t_], p(t_) * LOG(p(t_))), m)), kind='post')
    return Unit('effdim', body, functions=[q], on_raise=lambda I, st, r: r.kind == 'LinAlgError')

UNITS = [lambda: u_mixture(False), lambda: u_mixture(True), lambda: u_effdim(), lambda: u_tune_points(), lambda: u_tune_spread(False), lambda: u_tune_spread(True), lambda: u_localized_bandwidth('fpoints'), lambda: u_localized_bandwidth('fspread'), lambda: u_local_population(False), lambda: u_local_population(True), lambda: u_oas(), lambda: u_covariance(), lambda: u_bandwidth()] + [(lambda w, s_: (lambda: u_cached(w, s_)))(w, s_) for w in ('_bandwidth_inv', '_normkernels') for s_ in ('unfitted', 'first', 'cached')]
RT = False
TRUSTED = ["finite-sum functionals SUMD / SUMARR, exp, log, matrix inverse and log|det| uninterpreted functions of their arguments: equal arguments give equal values (congruence on identical lambda terms)",
           "mixture loop: scipy.special.logsumexp as 'expn(result) = sum of expn(entries)' with expn(-inf) = 0; law of boolean-mask selection and finite sums (summing h over the members selected by a mask, in order, = summing over all members h where the mask holds and 0 elsewhere; assumed as an instance, conditional on the proved fact that the code's mask is the documented one); "
           "pairwise_mahalanobis_distances as the modular callee MD2(precision index, row, row) when called with squared=True and the configured cell (its formula is proved under C15); the per-grid-point member lists as an uninterpreted family of index arrays (NLEN, NBE) with entries in range"]
