"""PCovR._decompose_truncated (the modular callee whose contract the C03/C04/C14 units assume): the two branches hand back the factors of the external routine
as ONE consistent triple — singular values in descending order, each paired with its own left and right vector, signs fixed by svd_flip on both sides alike.

External contracts (assumed): scipy.sparse.linalg.svds(mat, k) returns the k leading singular triplets in ASCENDING order of the singular value
(U[:, i], S[i], Vt[i] belong together); sklearn's randomized_svd returns them descending and sign-fixed; svd_flip(U, Vt) multiplies column i of U and row i of Vt
by the same sign."""
from pyvc.api import *
from pyvc import skstubs
from pyvc.engine import ExtNS, ExtClass, Opaque

PC = 'skmatter.decomposition._pcovr.PCovR'
KP = 'skmatter.decomposition._kernel_pcovr.KernelPCovR'
i_, j_ = Int('i'), Int('j')
AU = z3.Function('ARPACK_U', IntS, IntS, RealS); AS = z3.Function('ARPACK_S', IntS, RealS); AV = z3.Function('ARPACK_Vt', IntS, IntS, RealS)
RU = z3.Function('RAND_U', IntS, IntS, RealS); RS = z3.Function('RAND_S', IntS, RealS); RV = z3.Function('RAND_Vt', IntS, IntS, RealS)
SGN = z3.Function('FLIPSIGN', IntS, RealS)
FU = z3.Function('FULL_U', IntS, IntS, RealS); FS = z3.Function('FULL_S', IntS, RealS); FV = z3.Function('FULL_Vt', IntS, IntS, RealS)

def getitem(I, b, ix, node=None):
    """full reversals a[::-1], a[:, ::-1]"""
    A = I.A(b) if isinstance(b, ArrRef) else None
    def isrev(s): return isinstance(s, slice) and s.start is None and s.stop is None and s.step is not None and conc(s.step) == -1
    if A is not None:
        if isrev(ix):
            n = tz(A.shape[0])
            return I.new_arr(ArrVal(A.shape, (lambda *jx: A.elem(n - 1 - tz(jx[0]), *jx[1:])), A.sort))
        if isinstance(ix, tuple) and len(ix) == 2 and isinstance(ix[0], slice) and ix[0] == slice(None) and isrev(ix[1]) and A.ndim == 2:
            n = tz(A.shape[1])
            return I.new_arr(ArrVal(A.shape, (lambda i, j: A.elem(tz(i), n - 1 - tz(j))), A.sort))
    return I.cur['prev_getitem'](I, b, ix, node)

def setitem(I, b, ix, v, node=None):
    """a[mask] = scalar and a[:, mask] = scalar for a 1-D boolean mask: element-wise"""
    A = I.A(b) if isinstance(b, ArrRef) else None
    if A is not None and not isinstance(v, ArrRef):
        if isinstance(ix, ArrRef) and I.A(ix).sort == BoolS and I.A(ix).ndim == 1:
            M = I.A(ix)
            if npstubs.same_dim(M.shape[0], A.shape[0]) is not True: I.ob('shape:boolean mask store', tz(M.shape[0]) == tz(A.shape[0]), kind='shape')
            I.st.heap[b.id] = ArrVal(A.shape, lambda *jx: If(M.elem(tz(jx[0])), npstubs.coerce(tz(v), A.sort), A.elem(*jx)), A.sort)
            return
        if isinstance(ix, tuple) and len(ix) == 2 and isinstance(ix[0], slice) and ix[0] == slice(None) and isinstance(ix[1], ArrRef) and I.A(ix[1]).sort == BoolS and A.ndim == 2:
            M = I.A(ix[1])
            if npstubs.same_dim(M.shape[0], A.shape[1]) is not True: I.ob('shape:boolean mask store', tz(M.shape[0]) == tz(A.shape[1]), kind='shape')
            I.st.heap[b.id] = ArrVal(A.shape, lambda i, j: If(M.elem(tz(j)), npstubs.coerce(tz(v), A.sort), A.elem(i, j)), A.sort)
            return
    return I.cur['prev_setitem'](I, b, ix, v, node)

def extend_ext(ext):
    skstubs.install(ext)
    ps = ext['arr_setitem']
    def st(I, b, ix, v, node=None):
        I.cur['prev_setitem'] = ps; return setitem(I, b, ix, v, node)
    ext['arr_setitem'] = st
    pg = ext['arr_getitem']
    def g(I, b, ix, node=None):
        I.cur['prev_getitem'] = pg; return getitem(I, b, ix, node)
    ext['arr_getitem'] = g
    def svds(I, mat, k=None, tol=None, v0=None, **kw):
        npstubs.used('scipy.sparse.linalg.svds (k leading triplets, ascending singular values)')
        n, m = I.A(mat).shape
        I.cur['svds_args'] = dict(mat=mat, k=k, tol=tol)
        return (I.new_arr(ArrVal((n, conc(tz(k))), lambda a, b: AU(tz(a), tz(b)), RealS)), I.new_arr(ArrVal((conc(tz(k)),), lambda a: AS(tz(a)), RealS)),
                I.new_arr(ArrVal((conc(tz(k)), m), lambda a, b: AV(tz(a), tz(b)), RealS)))
    def randomized_svd(I, mat, n_components=None, n_iter=None, flip_sign=None, random_state=None, **kw):
        npstubs.used('sklearn randomized_svd (k leading triplets, descending, sign-fixed)')
        n, m = I.A(mat).shape; k = n_components
        I.cur['rand_args'] = dict(mat=mat, k=k, flip_sign=flip_sign, n_iter=n_iter)
        return (I.new_arr(ArrVal((n, conc(tz(k))), lambda a, b: RU(tz(a), tz(b)), RealS)), I.new_arr(ArrVal((conc(tz(k)),), lambda a: RS(tz(a)), RealS)),
                I.new_arr(ArrVal((conc(tz(k)), m), lambda a, b: RV(tz(a), tz(b)), RealS)))
    def svd_flip(I, U, Vt, **kw):
        npstubs.used('sklearn svd_flip (same sign for column i of U and row i of Vt)')
        Ua, Va = I.A(U), I.A(Vt)
        return (I.new_arr(ArrVal(Ua.shape, lambda a, b: SGN(tz(b)) * Ua.elem(a, b), RealS)), I.new_arr(ArrVal(Va.shape, lambda a, b: SGN(tz(a)) * Va.elem(a, b), RealS)))
    def svd_full(I, mat, full_matrices=True, **kw):
        npstubs.used('scipy.linalg.svd (thin, singular values descending)')
        if full_matrices is not False: raise Unsupported("full svd")
        n, m = I.A(mat).shape; r = conc(z3.simplify(If(tz(n) <= tz(m), tz(n), tz(m))))
        I.cur['svd_args'] = dict(mat=mat)
        return (I.new_arr(ArrVal((n, r), lambda a, b: FU(tz(a), tz(b)), RealS)), I.new_arr(ArrVal((r,), lambda a: FS(tz(a)), RealS)), I.new_arr(ArrVal((r, m), lambda a, b: FV(tz(a), tz(b)), RealS)))
    sc = ext['modules'].get('scipy')
    if sc is None:
        sc = ExtNS('scipy', linalg=ExtNS('scipy.linalg'), sparse=ExtNS('scipy.sparse', linalg=ExtNS('scipy.sparse.linalg'))); ext['modules']['scipy'] = sc
    sc.linalg.svd = svd_full
    ext['names']['scipy.linalg'] = sc.linalg
    ext['names']['scipy.linalg.svd'] = svd_full
    ext['names']['scipy.sparse.linalg.svds'] = svds
    ext['names']['sklearn.utils.extmath.randomized_svd'] = randomized_svd
    ext['names']['sklearn.utils.extmath.svd_flip'] = svd_flip
    ext['names']['sklearn.utils._arpack._init_arpack_v0'] = lambda I, n, rs: Opaque('v0')
    ext['names']['sklearn.utils.check_random_state'] = lambda I, s: Opaque('rng')
    for k_ in ('numpy.linalg.LinAlgError', 'scipy.linalg.sqrtm', 'sklearn.decomposition._base._BasePCA', 'sklearn.decomposition._pca._infer_dimension', 'sklearn.linear_model.LinearRegression',
               'sklearn.linear_model.Ridge', 'sklearn.linear_model.RidgeCV', 'sklearn.linear_model._base.LinearModel', 'sklearn.utils.extmath.stable_cumsum', 'sklearn.utils.check_array',
               'sklearn.utils.validation.check_X_y', 'sklearn.utils.validation.check_is_fitted', 'sklearn.kernel_ridge.KernelRidge', 'sklearn.metrics.pairwise.pairwise_kernels',
               'sklearn.exceptions.NotFittedError', 'sklearn.base.clone', 'copy.deepcopy'):
        ext['names'].setdefault(k_, ExtClass(k_.split('.')[-1]))
    import numbers
    ext['modules']['numbers'] = ExtNS('numbers', Integral=ExtClass('Integral'), Real=ExtClass('Real'))

def u_truncated(owner, solver):
    q = owner + '._decompose_truncated'
    def body(I):
        n, m, k = I.fresh('n', IntS), I.fresh('m', IntS), I.fresh('k', IntS)
        I.assume(And(n >= 2, m >= 2, k >= 1, k < n, k < m)); m = n if owner == KP else m
        I.cur = {}
        cls = I.repo.get(owner)
        tol = I.fresh('tol', RealS)
        me = I.new_obj(cls, dict(n_components_=k, n_samples_in_=n, n_features_in_=m, svd_solver=solver, fit_svd_solver_=solver, _fit_svd_solver=solver, tol=tol, random_state=0, iterated_power='auto'))
        kernel = owner == KP
        cut = (lambda sv, val: If(sv < tol, RealVal(0), val)) if kernel else (lambda sv, val: val)      # KernelPCovR zeroes the components whose singular value is below tol
        mat = I.fresh_arr('mat', (n, n))
        U, S, Vt = I.call_func(I.find_method(cls, '_decompose_truncated'), [me, mat], {})
        Ua, Sa, Va = I.A(U), I.A(S), I.A(Vt)
        a, i = I.fresh('a', IntS), I.fresh('i', IntS); I.assume(And(0 <= a, a < n, 0 <= i, i < k))
        I.ob('post[C03]:k-components-are-returned', And(tz(Ua.shape[0]) == n, tz(Ua.shape[1]) == k, tz(Sa.shape[0]) == k, tz(Va.shape[0]) == k, tz(Va.shape[1]) == n), kind='post')
        if solver == 'arpack':
            ar = I.cur.get('svds_args')
            I.ob('post[C03]:the-k-leading-triplets-of-the-matrix-handed-in-are-requested', BoolVal(ar is not None and ar['mat'].id == mat.id) if ar is None else And(BoolVal(ar['mat'].id == mat.id), tz(ar['k']) == k), kind='post')
            r = k - 1 - i
            I.ob('post[C03]:singular-values-are-handed-back-in-descending-order (ARPACK returns them ascending)', Sa.elem(i) == cut(AS(r), AS(r)), kind='post')
            I.ob('post[C03]:each-singular-value-keeps-its-own-left-vector', Ua.elem(a, i) == cut(AS(r), SGN(i) * AU(a, r)), kind='post')
            I.ob('post[C03]:each-singular-value-keeps-its-own-right-vector-with-the-same-sign', Va.elem(i, a) == cut(AS(r), SGN(i) * AV(r, a)), kind='post')
        else:
            ar = I.cur.get('rand_args')
            I.ob('post[C03]:the-k-leading-triplets-of-the-matrix-handed-in-are-requested-with-sign-fixing', BoolVal(False) if ar is None else And(BoolVal(ar['mat'].id == mat.id and ar['flip_sign'] is True), tz(ar['k']) == k), kind='post')
            I.ob('post[C03]:the-triplets-are-handed-back-unchanged', And(Sa.elem(i) == cut(RS(i), RS(i)), Ua.elem(a, i) == cut(RS(i), RU(a, i)), Va.elem(i, a) == cut(RS(i), RV(i, a))), kind='post')
    return Unit(f'{owner.split(".")[-1]}._decompose_truncated[{solver}]', body, functions=[q])

def u_full(owner):
    q = owner + '._decompose_full'
    def body(I):
        n, k = I.fresh('n', IntS), I.fresh('k', IntS)
        I.assume(And(n >= 2, k >= 1, k <= n))
        I.cur = {}
        cls = I.repo.get(owner)
        me = I.new_obj(cls, dict(n_components_=k, n_samples_in_=n, n_features_in_=n, svd_solver='full', fit_svd_solver_='full', _fit_svd_solver='full', tol=I.fresh('tol', RealS)))
        mat = I.fresh_arr('mat', (n, n))
        U, S, Vt = I.call_func(I.find_method(cls, '_decompose_full'), [me, mat], {})
        Ua, Sa, Va = I.A(U), I.A(S), I.A(Vt)
        a, i = I.fresh('a', IntS), I.fresh('i', IntS); I.assume(And(0 <= a, a < n, 0 <= i, i < k))
        ar = I.cur.get('svd_args')
        I.ob('post[C03]:the-matrix-handed-in-is-decomposed', BoolVal(ar is not None and ar['mat'].id == mat.id), kind='post')
        I.ob('post[C03]:the-leading-k-components-are-returned', And(tz(Ua.shape[0]) == n, tz(Ua.shape[1]) == k, tz(Sa.shape[0]) == k, tz(Va.shape[0]) == k, tz(Va.shape[1]) == n), kind='post')
        I.ob('post[C03]:each-singular-value-keeps-its-own-sign-fixed-vectors', And(Sa.elem(i) == FS(i), Ua.elem(a, i) == SGN(i) * FU(a, i), Va.elem(i, a) == SGN(i) * FV(i, a)), kind='post')
        I.ob('post[C03]:the-number-of-components-is-unchanged-for-an-integer-request', tz(I.attr(me, 'n_components_')) == k, kind='post')
    return Unit(f'{owner.split(".")[-1]}._decompose_full[integer k]', body, functions=[q])

UNITS = [lambda: u_truncated(PC, 'arpack'), lambda: u_truncated(PC, 'randomized'), lambda: u_full(PC)]
KUNITS = [lambda: u_truncated(KP, 'arpack'), lambda: u_truncated(KP, 'randomized')]      # KernelPCovR's variant additionally zeroes the components below tol
