"""C12 — bounded stand-in for now (runtime contracts); deductive obligations are added in contracts/c12_proof when available."""
BOUNDED_ONLY = True
RT = True
UNITS = []
TRUSTED = ["reference: explicit weighted moments / explicit feature-space computation with numpy"]
