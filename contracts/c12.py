"""C12 — kernel centring and normalisation equal centring and scaling in feature space.

Real functions: KernelNormalizer.fit / transform, SparseKernelCenterer.fit / transform (skmatter/preprocessing/_data.py), all with_center / with_trace
combinations, with and without sample weights.

Gram layer: a kernel is K(i, j) = <PHI(fr, i), PHI(fc, j)> for two families of feature vectors (uninterpreted sort Vec with a symmetric bilinear inner product).
External contract of np.average on such a matrix (definition of the weighted mean vector + bilinearity): averaging over the row index with weights w gives
<MEANV(w, fr), PHI(fc, j)>, over the column index <PHI(fr, i), MEANV(w, fc)>; averaging a vector <u, PHI(fc, j)> gives <u, MEANV(w, fc)>.  Weights are
identified by a token that is unchanged by positive rescaling (np.average normalises).  np.trace / np.linalg.pinv / @ are recorded symbolically: the
contract states WHICH matrix the trace is taken of (entry by entry), the trace-n statement is then linearity of the trace."""
from pyvc.api import *
from pyvc import veclayer as VL, skstubs
from pyvc.veclayer import Vec, dot
from pyvc.engine import ExtNS, ExtClass, Opaque

KN = 'skmatter.preprocessing._data.KernelNormalizer'
SK = 'skmatter.preprocessing._data.SparseKernelCenterer'
i_, j_ = Int('i'), Int('j')
PHI = z3.Function('PHI', IntS, IntS, Vec)             # PHI(family, index): feature vector
MEANV = z3.Function('MEANV', IntS, IntS, Vec)         # MEANV(weight token, family): weighted mean feature vector of a family
VSUB = z3.Function('VSUB', Vec, Vec, Vec)             # difference of two feature vectors
TRAIN, TEST, ACTIVE = 1, 2, 3

def gram_axioms():
    a, b, c, d = z3.Consts('a!g b!g c!g d!g', Vec)
    return VL.axioms() + [ForAll([a, b, c, d], dot(VSUB(a, b), VSUB(c, d)) == dot(a, c) - dot(a, d) - dot(b, c) + dot(b, d), patterns=[dot(VSUB(a, b), VSUB(c, d))]),
                          ForAll([a, b, c], dot(VSUB(a, b), c) == dot(a, c) - dot(b, c), patterns=[dot(VSUB(a, b), c)])]

def gram(I, fr, fc, shape):
    return I.new_arr(ArrVal(shape, lambda i, j: dot(PHI(fr, tz(i)), PHI(fc, tz(j))), RealS, ('gram', fr, fc)))

def np_average(I, a, axis=None, weights=None, **kw):
    npstubs.used('np.average of a Gram matrix (weighted mean vector + bilinearity of the inner product)')
    A = I.A(a); tok = VL.weight_token(I, weights)
    if weights is not None and axis is not None:
        W = I.A(weights)
        sd = npstubs.same_dim(W.shape[0], A.shape[axis])
        if sd is False: raise RaiseEx('ValueError')
        if sd is None: I.ob('shape:np.average weights match the averaged axis', tz(W.shape[0]) == tz(A.shape[axis]), kind='shape')
    if weights is not None and axis is None and A.ndim == 1:
        W = I.A(weights)
        sd = npstubs.same_dim(W.shape[0], A.shape[0])
        if sd is False: raise RaiseEx('ValueError')
        if sd is None: I.ob('shape:np.average weights match the vector', tz(W.shape[0]) == tz(A.shape[0]), kind='shape')
    I.cur.setdefault('avg_calls', []).append((a, weights, axis))
    if A.tag and A.tag[0] == 'gram' and A.ndim == 2:
        fr, fc = A.tag[1], A.tag[2]
        if axis == 0: return I.new_arr(ArrVal((A.shape[1],), lambda j: dot(MEANV(tok, fr), PHI(fc, tz(j))), RealS, ('gram1', MEANV(tok, fr), fc)))
        if axis == 1: return I.new_arr(ArrVal((A.shape[0],), lambda i: dot(PHI(fr, tz(i)), MEANV(tok, fc)), RealS, ('gram1r', fr, MEANV(tok, fc))))
    if A.tag and A.tag[0] == 'gram1' and axis in (None, 0):
        return dot(A.tag[1], MEANV(tok, A.tag[2]))
    if A.tag and A.tag[0] == 'gram1r' and axis in (None, 0):
        return dot(MEANV(tok, A.tag[1]), A.tag[2])
    raise Unsupported("np.average of an array that is not a Gram matrix")

def np_trace(I, a, **kw):
    npstubs.used('np.trace (recorded symbolically)')
    r = I.fresh('trace', RealS)
    I.cur.setdefault('traces', []).append((I.A(a), r, a))
    return r

def np_pinv(I, a, rcond=None, *args, **kw):
    npstubs.used('np.linalg.pinv (recorded symbolically)')
    A = I.A(a)
    r = I.fresh_arr('pinv', (A.shape[1], A.shape[0]))
    I.st.heap[r.id] = ArrVal(I.A(r).shape, I.A(r).elem, RealS, ('pinv', A, rcond, a))
    return r

def matmul_hook(I, a, b, what):
    if not I.cur.get('c12'): return None
    if not (isinstance(a, ArrRef) and isinstance(b, ArrRef)): return None
    A, B = I.A(a), I.A(b)
    if A.ndim != 2 or B.ndim != 2: return None
    npstubs.used('@ (recorded symbolically)')
    sd = npstubs.same_dim(A.shape[1], B.shape[0])
    if sd is False: raise RaiseEx('ValueError')
    if sd is None: I.ob(f'shape:{what}', tz(A.shape[1]) == tz(B.shape[0]), kind='shape')
    r = I.fresh_arr('mm', (A.shape[0], B.shape[1]))
    I.st.heap[r.id] = ArrVal(I.A(r).shape, I.A(r).elem, RealS, ('mm', A, B))
    return r

def validate_data(I, obj):
    def f(I2, X='no_validation', y='no_validation', reset=True, copy=False, **kw):
        npstubs.used('sklearn.BaseEstimator._validate_data (returns the float input, copied when copy=True)')
        o = I2.O(obj)
        if reset: o.attrs['n_features_in_'] = conc(I2.A(X).shape[1])
        elif 'n_features_in_' in o.attrs:
            if I2.branch(tz(o.attrs['n_features_in_']) != tz(I2.A(X).shape[1])): raise RaiseEx('ValueError')
        if copy is True:
            A = I2.A(X)
            return I2.new_arr(ArrVal(A.shape, A.elem, A.sort, A.tag, False, A.vecs))
        return X
    return f

def kernel_centerer_fit(I, me):
    """sklearn.preprocessing.KernelCenterer.fit (assumed): K_fit_rows_ = column means, K_fit_all_ = overall mean (uniform weights)"""
    def f(I2, K, y=None, **kw):
        npstubs.used('sklearn KernelCenterer.fit (uniform column means and overall mean)')
        o = I2.O(me)
        rows = np_average(I2, K, axis=0)
        o.attrs['K_fit_rows_'] = rows
        o.attrs['K_fit_all_'] = np_average(I2, rows)
        return me
    return f

def extend_ext(ext):
    VL.install(ext); skstubs.install(ext)
    if matmul_hook not in npstubs.MATMUL_HOOKS: npstubs.MATMUL_HOOKS.insert(0, matmul_hook)
    ext['names']['sklearn.utils.validation._check_sample_weight'] = lambda I, w, X, **kw: w
    ext['names']['sklearn.preprocessing._data.KernelCenterer'] = ExtClass('KernelCenterer')
    ext['names']['sklearn.preprocessing.KernelCenterer'] = ExtClass('KernelCenterer')
    np_ = ext['modules']['np']
    np_.average = np_average; np_.trace = np_trace; np_.linalg.pinv = np_pinv
    def np_sum(I, a, axis=None, **kw): return I.fresh('sum', RealS)
    np_.sum = np_sum
    ext['obj_attrs'] = dict(ext['obj_attrs']); ext['obj_attrs']['_validate_data'] = validate_data
    ext['super_methods'] = dict(ext.get('super_methods', {})); ext['super_methods']['fit'] = kernel_centerer_fit
    ext['super_methods']['__init__'] = lambda I, me: (lambda I2, *a, **k: None)

def same_elems(A, B): return A is B or (A.elem is B.elem)

def u_normalizer(wc, wt, weighted, copy=True):
    def body(I):
        n, nt = I.fresh('n_train', IntS), I.fresh('n_test', IntS); I.assume(And(n >= 1, nt >= 1))
        I.use_axioms('gram', gram_axioms())
        I.cur = dict(c12=True)
        K = gram(I, TRAIN, TRAIN, (n, n)); K0 = I.A(K)
        w = I.fresh_arr('w', (n,)) if weighted else None
        cls = I.repo.get(KN)
        me = I.instantiate(cls, [], dict(with_center=wc, with_trace=wt))
        r = I.call_func(I.find_method(cls, 'fit'), [me, K], dict(sample_weight=w))
        I.ob('post[C09]:fit-returns-self', BoolVal(isinstance(r, ObjRef) and r.id == me.id), kind='post')
        I.ob('post[C12]:fit-leaves-the-kernel-handed-in-untouched', BoolVal(I.A(K) is K0), kind='post')
        o = I.O(me)
        tok = VL.weight_token(I, w)
        mu = MEANV(tok, TRAIN)
        phi = lambda i: PHI(TRAIN, i); psi = lambda t: PHI(TEST, t)
        i, j = I.fresh('i', IntS), I.fresh('j', IntS); I.assume(And(0 <= i, i < n, 0 <= j, j < n))
        I.ob('post[C12]:every-average-uses-the-given-weights', BoolVal(all(z3.eq(VL.weight_token(I, ww), tok) for (_, ww, _) in I.cur.get('avg_calls', []))), kind='post')
        rows = I.A(o.attrs['K_fit_rows_'])
        I.ob('post[C12]:column-offsets-are-the-inner-products-with-the-weighted-training-mean (or zero without centring)',
             And(tz(rows.shape[0]) == n, rows.elem(j) == (dot(mu, phi(j)) if wc else RealVal(0))), kind='post')
        I.ob('post[C12]:overall-offset-is-the-squared-norm-of-the-weighted-training-mean (or zero without centring)',
             to_real(tz(o.attrs['K_fit_all_'])) == (dot(mu, mu) if wc else RealVal(0)), kind='post')
        cen = (lambda a, b: dot(VSUB(a, mu), VSUB(b, mu))) if wc else (lambda a, b: dot(a, b))
        sc = to_real(tz(o.attrs['scale_']))
        if wt:
            trs = I.cur.get('traces', [])
            I.ob('post[C12]:scale-is-one-trace-divided-by-n', BoolVal(len(trs) == 1), kind='post')
            if len(trs) == 1:
                Atr, tr, _ = trs[0]
                I.ob('post[C12]:scale-is-the-trace-of-the-centred-training-kernel-divided-by-n', And(sc * to_real(n) == tr, tz(Atr.shape[0]) == n, tz(Atr.shape[1]) == n), kind='post')
                I.ob('post[C12]:...that-kernel-is-the-Gram-matrix-of-the-training-features-centred-by-the-weighted-training-mean', Atr.elem(i, j) == cen(phi(i), phi(j)), kind='post')
                I.assume(tr > 0)         # a kernel with vanishing (centred) trace cannot be normalised (division by zero in transform): outside the property
        else:
            I.ob('post[C12]:without-trace-scaling-the-scale-is-one', sc == 1, kind='post')
        # ---- transform of a test-train kernel
        K2 = gram(I, TEST, TRAIN, (nt, n)); K20 = I.A(K2)
        out = I.call_func(I.find_method(cls, 'transform'), [me, K2], dict(copy=copy))
        O = I.A(out)
        t = I.fresh('t', IntS); I.assume(And(0 <= t, t < nt))
        I.ob('post[C12]:transform-keeps-the-shape', And(BoolVal(O.ndim == 2), tz(O.shape[0]) == nt, tz(O.shape[1]) == n), kind='post')
        I.ob('post[C12]:test-train-kernel-becomes-the-Gram-matrix-of-test-and-training-features-centred-by-the-weighted-TRAINING-mean-divided-by-the-common-scale',
             O.elem(t, j) * sc == cen(psi(t), phi(j)), kind='post')
        I.ob('post[C12]:transform-averages-use-the-training-weights', BoolVal(all(z3.eq(VL.weight_token(I, ww), tok) for (_, ww, _) in I.cur.get('avg_calls', []))), kind='post')
        if copy: I.ob('post[C12]:transform(copy=True)-leaves-the-kernel-handed-in-untouched', BoolVal(I.A(K2) is K20), kind='post')
        # ---- transform of the training kernel itself: Gram matrix of the centred training features over the scale (hence trace n by linearity of the trace)
        K3 = gram(I, TRAIN, TRAIN, (n, n))
        O3 = I.A(I.call_func(I.find_method(cls, 'transform'), [me, K3], dict(copy=copy)))
        I.ob('post[C12]:train-train-kernel-becomes-the-Gram-matrix-of-the-centred-training-features-divided-by-the-common-scale', O3.elem(i, j) * sc == cen(phi(i), phi(j)), kind='post')
        o = I.O(me)
        I.ob('post[C12]:transform-does-not-change-the-fitted-state', BoolVal(I.A(o.attrs['K_fit_rows_']) is rows), kind='post')
    return Unit(f'KernelNormalizer[center={wc},trace={wt},{"weighted" if weighted else "unweighted"},copy={copy}]', body, functions=[KN + '.fit', KN + '.transform'])

def u_sparse(wc, wt, weighted):
    def body(I):
        n, nt, a = I.fresh('n_train', IntS), I.fresh('n_test', IntS), I.fresh('n_active', IntS); I.assume(And(n >= 1, nt >= 1, a >= 1))
        I.use_axioms('gram', gram_axioms() + [ForAll([Real('x!sq')], Implies(Real('x!sq') >= 0, And(npstubs.SQRT(Real('x!sq')) >= 0, npstubs.SQRT(Real('x!sq')) * npstubs.SQRT(Real('x!sq')) == Real('x!sq'))), patterns=[npstubs.SQRT(Real('x!sq'))])])
        I.cur = dict(c12=True)
        Knm = gram(I, TRAIN, ACTIVE, (n, a)); Knm0 = I.A(Knm)
        Kmm = gram(I, ACTIVE, ACTIVE, (a, a)); Kmm0 = I.A(Kmm)
        w = I.fresh_arr('w', (n,)) if weighted else None
        rcond = I.fresh('rcond', RealS); I.assume(rcond > 0)
        cls = I.repo.get(SK)
        me = I.instantiate(cls, [], dict(with_center=wc, with_trace=wt, rcond=rcond))
        r = I.call_func(I.find_method(cls, 'fit'), [me, Knm, Kmm], dict(sample_weight=w))
        I.ob('post[C09]:fit-returns-self', BoolVal(isinstance(r, ObjRef) and r.id == me.id), kind='post')
        I.ob('post[C12]:fit-leaves-both-kernels-untouched', BoolVal(I.A(Knm) is Knm0 and I.A(Kmm) is Kmm0), kind='post')
        o = I.O(me)
        tok = VL.weight_token(I, w)
        mu = MEANV(tok, TRAIN)
        phi = lambda i: PHI(TRAIN, i); psi = lambda t: PHI(TEST, t); act = lambda j: PHI(ACTIVE, j)
        i, j = I.fresh('i', IntS), I.fresh('j', IntS); I.assume(And(0 <= i, i < n, 0 <= j, j < a))
        I.ob('post[C12]:every-average-uses-the-given-weights-over-the-sample-axis', BoolVal(all(z3.eq(VL.weight_token(I, ww), tok) and ax == 0 for (_, ww, ax) in I.cur.get('avg_calls', []))), kind='post')
        rows = I.A(o.attrs['K_fit_rows_'])
        I.ob('post[C12]:column-offsets-are-the-inner-products-of-the-weighted-training-mean-with-the-active-features (or zero without centring)',
             And(tz(rows.shape[0]) == a, rows.elem(j) == (dot(mu, act(j)) if wc else RealVal(0))), kind='post')
        I.ob('post[C12]:active-set-size-recorded', tz(o.attrs['n_active_']) == a, kind='post')
        cen = (lambda u, v: dot(VSUB(u, mu), v)) if wc else (lambda u, v: dot(u, v))
        sc = to_real(tz(o.attrs['scale_']))
        if wt:
            trs = I.cur.get('traces', [])
            ok = len(trs) == 1 and trs[0][0].tag is not None and trs[0][0].tag[0] == 'mm'
            I.ob('post[C12]:scale-comes-from-one-trace-of-a-matrix-product', BoolVal(ok), kind='post')
            if ok:
                Atr, tr, _ = trs[0]
                L, R = Atr.tag[1], Atr.tag[2]                    # (Kc @ pinv) @ Kc.T
                ok2 = L.tag is not None and L.tag[0] == 'mm' and L.tag[2].tag is not None and L.tag[2].tag[0] == 'pinv'
                I.ob('post[C12]:that-product-is-(centred-block)(pseudo-inverse)(centred-block-transposed)', BoolVal(ok2), kind='post')
                if ok2:
                    Kc, Pv = L.tag[1], L.tag[2]
                    I.ob('post[C12]:Nystrom-kernel-uses-the-pseudo-inverse-of-the-active-kernel-with-the-configured-rcond',
                         And(BoolVal(Pv.tag[1] is Kmm0), (to_real(tz(Pv.tag[2])) == rcond) if Pv.tag[2] is not None else BoolVal(False)), kind='post')
                    I.ob('post[C12]:left-factor-is-the-training-block-centred-by-the-weighted-training-mean', And(tz(Kc.shape[0]) == n, tz(Kc.shape[1]) == a, Kc.elem(i, j) == cen(phi(i), act(j))), kind='post')
                    I.ob('post[C12]:right-factor-is-its-transpose', And(tz(R.shape[0]) == a, tz(R.shape[1]) == n, R.elem(j, i) == cen(phi(i), act(j))), kind='post')
                    I.ob('post[C12]:scale-squared-times-n-is-the-trace-of-the-centred-Nystrom-kernel', Implies(tr >= 0, sc * sc * to_real(n) == tr), kind='post')
                    I.assume(tr > 0); I.assume(sc > 0)
        else:
            I.ob('post[C12]:without-trace-scaling-the-scale-is-one', sc == 1, kind='post')
        K2 = gram(I, TEST, ACTIVE, (nt, a)); K20 = I.A(K2)
        O = I.A(I.call_func(I.find_method(cls, 'transform'), [me, K2], {}))
        t = I.fresh('t', IntS); I.assume(And(0 <= t, t < nt))
        I.ob('post[C12]:transform-keeps-the-shape', And(BoolVal(O.ndim == 2), tz(O.shape[0]) == nt, tz(O.shape[1]) == a), kind='post')
        I.ob('post[C12]:rectangular-kernel-becomes-the-inner-products-of-the-features-centred-by-the-weighted-TRAINING-mean-with-the-active-features-over-the-scale',
             O.elem(t, j) * sc == cen(psi(t), act(j)), kind='post')
        I.ob('post[C12]:transform-leaves-the-kernel-handed-in-untouched', BoolVal(I.A(K2) is K20), kind='post')
        # wrong active-set size is rejected
    return Unit(f'SparseKernelCenterer[center={wc},trace={wt},{"weighted" if weighted else "unweighted"}]', body, functions=[SK + '.fit', SK + '.transform'])

UNITS = []
for wc in (True, False):
    for wt in (True, False):
        for wgt in (True, False):
            UNITS.append((lambda a, b, c: (lambda: u_normalizer(a, b, c)))(wc, wt, wgt))
            UNITS.append((lambda a, b, c: (lambda: u_sparse(a, b, c)))(wc, wt, wgt))
UNITS.append(lambda: u_normalizer(True, True, True, copy=False))
RT = True
TRUSTED = ["Gram layer: kernels are inner products of feature vectors (uninterpreted sort with a symmetric bilinear inner product); VSUB is linear in the inner product",
           "external contract of np.average on a Gram matrix: the average over one index with weights w is the inner product with the weighted mean vector MEANV(w, family) "
           "(definition of the weighted mean + bilinearity); weights are identified up to positive rescaling",
           "sklearn KernelCenterer.fit (unweighted branch): K_fit_rows_ = uniform column means, K_fit_all_ = their mean; _validate_data returns the input (a copy when copy=True); _check_sample_weight returns the weights",
           "np.trace / np.linalg.pinv / @ are recorded symbolically: the contract pins WHICH matrices enter; 'the transformed training kernel has trace n' then follows by linearity of the trace (not machine-checked here); kernels with non-positive centred trace are outside the property",
           "fit_transform = fit followed by transform: only checked at run time (bounded)"]
LEAN_LEMMAS = "lemmas/lean/Lemmas.lean"
