"""C20 — bounded stand-in for now (runtime contracts on the real code against an independent reference); see DESIGN.md."""
BOUNDED_ONLY = True
RT = True
UNITS = []
TRUSTED = ["independent numpy reference implementation of the property's formulas; tolerance policy |a-b| <= atol*scale + rtol*|b|"]
