"""C20 — prediction rigidities follow their closed form.

Real functions: local_prediction_rigidity, componentwise_prediction_rigidity (skmatter/metrics/_prediction_rigidities.py), for lists of 1..3 training and 1..2 test
structures (the list lengths are concrete per unit: bounded in the NUMBER of structures), every number of environments per structure, every feature dimension,
every alpha, every component partition (1..2 components per unit).

Matrix layer + stacking: VS(A, B) (vertical stack), ROWOF(M, i) (row i as a 1 x d matrix), CMEAN(M) (column means as a 1 x d matrix), DGM(lo, hi, d) (diagonal 0/1
mask of the feature block [lo, hi)).  Spec: S = sqrt(||X_atoms||_F^2 / n_atoms) (= sqrt of the summed column mean squares), structure matrix = rows CMEAN(A_s / S),
Xinv = pinv(Ms^T Ms + alpha I), LPR of environment e of test structure t = 1 / (r Xinv r^T) with r = ROWOF(T_t, e) / S (LCPR: r masked to the component's feature
block; CPR: r = CMEAN(T_t / S) masked), returned per test structure in input order with one entry per environment; rank difference = d - rank(Ms^T Ms + alpha I).
Scaling laws (invariance under common rescaling, monotone in alpha, positivity) are consequences of the closed form: bounded runtime checks."""
from pyvc.api import *
from pyvc import matlayer as ML, skstubs
from pyvc.matlayer import Mat, mul, add, sub, T, smul, Id, at, rows, cols, fro2
from pyvc.engine import ExtNS, ExtClass, Opaque
import ast

PR = 'skmatter.metrics._prediction_rigidities'
i_, j_ = Int('i'), Int('j')
VS = z3.Function('VS', Mat, Mat, Mat)
ROWOF = z3.Function('ROWOF', Mat, IntS, Mat)
CMEAN = z3.Function('CMEAN', Mat, Mat)
RANK = z3.Function('RANK', Mat, IntS)
DGF = z3.Function('DGF', z3.ArraySort(IntS, RealS), IntS, Mat)      # diag(f(0), ..., f(n-1))
SQRT = npstubs.SQRT

def local_axioms():
    A, B = z3.Consts('A!v B!v', Mat); i = z3.Int('i!v'); f_, g_ = z3.Consts('f!v g!v', z3.ArraySort(IntS, RealS))
    return [ForAll([A, B], Implies(cols(A) == cols(B), And(rows(VS(A, B)) == rows(A) + rows(B), cols(VS(A, B)) == cols(A))), patterns=[VS(A, B)]),
            ForAll([A, B, i], Implies(And(0 <= i, i < rows(A) + rows(B)), ROWOF(VS(A, B), i) == If(i < rows(A), ROWOF(A, i), ROWOF(B, i - rows(A)))), patterns=[ROWOF(VS(A, B), i)]),
            ForAll([A, i], And(rows(ROWOF(A, i)) == 1, cols(ROWOF(A, i)) == cols(A)), patterns=[ROWOF(A, i)]),
            ForAll([A], And(rows(CMEAN(A)) == 1, cols(CMEAN(A)) == cols(A)), patterns=[CMEAN(A)]),
            ForAll([A], Implies(rows(A) == 1, ROWOF(A, 0) == A), patterns=[ROWOF(A, 0)]),
            ForAll([f_, g_, i], Implies(ForAll([j_], Implies(And(0 <= j_, j_ < i), f_[j_] == g_[j_])), DGF(f_, i) == DGF(g_, i)), patterns=[z3.MultiPattern(DGF(f_, i), DGF(g_, i))]),
            ForAll([f_, i], Implies(i >= 0, And(rows(DGF(f_, i)) == i, cols(DGF(f_, i)) == i)), patterns=[DGF(f_, i)])]

def mean_stub(I, a, axis=None, **kw):
    A = I.A(a)
    if axis == 0 and A.ndim == 2 and A.tag and A.tag[0] == 'sq' and isinstance(A.tag[1], ArrRef):
        npstubs.used('np.mean(X**2, axis=0) (column mean squares)')
        r = I.fresh_arr('meansq', (A.shape[1],))
        I.st.heap[r.id] = ArrVal(I.A(r).shape, I.A(r).elem, RealS, ('meansq', ML.mat_of(I, A.tag[1])))
        return r
    if axis == 0 and A.ndim == 2 and A.sort == RealS:
        npstubs.used('np.mean(M, axis=0) (column means)')
        C = CMEAN(ML.mat_of(I, a))
        return I.new_arr(ArrVal((A.shape[1],), lambda c: at(C, 0, tz(c)), RealS, ('rowmat', C)))
    raise Unsupported("np.mean form")

def sum_attr(I, a):
    def f(I2, *args, **kw):
        A = I2.A(a)
        n0 = conc(A.shape[0]) if A.ndim == 1 else None
        if A.ndim == 1 and isinstance(n0, int) and n0 <= 4 and not args and not kw and not (A.tag and A.tag[0] == 'meansq'):
            terms = [A.elem(IntVal(k)) for k in range(n0)]
            return z3.simplify(z3.Sum(terms)) if len(terms) > 1 else (terms[0] if terms else IntVal(0))
        if A.tag and A.tag[0] == 'meansq' and not args and not kw:
            npstubs.used('sum of the column mean squares = squared Frobenius norm / number of rows')
            M = A.tag[1]
            return fro2(M) / z3.ToReal(rows(M))
        return npstubs.np_sum(I2, a, *args, **kw)
    return f

def row_mat(I, x):
    """matrix view of a list element for stacking: a 2-D array, or a 1-D array known to be a 1 x d matrix"""
    A = I.A(x)
    if A.ndim == 2: return ML.mat_of(I, x), A.shape
    if A.ndim == 1 and A.tag and A.tag[0] in ('rowmat', 'rowof'):
        return (A.tag[1] if A.tag[0] == 'rowmat' else ROWOF(A.tag[1], A.tag[2])), (1, A.shape[0])
    raise Unsupported("vstack of a vector without a matrix view")

def vstack_stub(I, seq, **kw):
    npstubs.used('np.vstack')
    if not isinstance(seq, (list, tuple)) or not seq: raise Unsupported("vstack of a symbolic list")
    M, shp = row_mat(I, seq[0])
    for x in seq[1:]:
        M2, shp2 = row_mat(I, x)
        sd = npstubs.same_dim(shp[1], shp2[1])
        if sd is False: raise RaiseEx('ValueError')
        if sd is None: I.ob('shape:np.vstack same number of columns', tz(shp[1]) == tz(shp2[1]), kind='shape')
        M = VS(M, M2); shp = (conc(z3.simplify(tz(shp[0]) + tz(shp2[0]))), shp[1])
    return ML.mk(I, M, shp)

def cumsum_stub(I, seq, **kw):
    npstubs.used('np.cumsum of a list of integers')
    if isinstance(seq, ArrRef):
        A = I.A(seq); n0 = conc(A.shape[0])
        if A.ndim != 1 or not isinstance(n0, int) or n0 > 8: raise Unsupported("cumsum of a symbolic-length array")
        seq = [A.elem(IntVal(k)) for k in range(n0)]
    if not isinstance(seq, (list, tuple)): raise Unsupported("cumsum of an array")
    out = []; acc = IntVal(0)
    for v in seq:
        acc = z3.simplify(acc + tz(v)); out.append(acc)
    return npstubs.from_list(I, out)

def getitem_hook(I, b, ix):
    A = I.A(b)
    if A.ndim == 2 and A.sort == RealS and A.tag and A.tag[0] == 'mat' and not isinstance(ix, (tuple, slice, ArrRef, list)) and ix is not None:
        i = tz(ix)
        I.ob('index:row-within-the-matrix', And(0 <= i, i < tz(A.shape[0])), kind='index')
        M = A.tag[1]
        return I.new_arr(ArrVal((A.shape[1],), lambda c: at(M, i, tz(c)), RealS, ('rowof', M, i)))
    return ML.getitem_hook(I, b, ix)

def reshape_attr(I, a):
    def f(I2, *shape, **kw):
        A = I2.A(a)
        shp = tuple(shape[0]) if len(shape) == 1 and isinstance(shape[0], (tuple, list)) else tuple(shape)
        if A.ndim == 1 and A.tag and A.tag[0] in ('rowof', 'rowmat') and len(shp) == 2 and conc(shp[0]) == 1 and conc(shp[1]) == -1:
            M = ROWOF(A.tag[1], A.tag[2]) if A.tag[0] == 'rowof' else A.tag[1]
            return ML.mk(I2, M, (1, A.shape[0]))
        return npstubs.np_reshape(I2, a, shp)
    return f

def binop_hook(I, op, a, b, what):
    # scalar / (1 x 1 matrix): the scalar quotient (numpy stores the size-1 result into a cell)
    if op is ast.Div and not isinstance(a, ArrRef) and isinstance(b, ArrRef):
        B = I.A(b)
        if B.ndim == 2 and conc(B.shape[0]) == 1 and conc(B.shape[1]) == 1:
            return to_real(tz(a)) / at(ML.mat_of(I, b), 0, 0)
    return ML.binop_hook(I, op, a, b, what)

def multiply_stub(I, a, b, **kw):
    """np.multiply(row matrix, vector) = the row times the diagonal matrix of the vector"""
    A, B = I.A(a), I.A(b)
    if A.ndim == 2 and B.ndim == 1:
        npstubs.used('np.multiply(matrix, vector) (= product with the diagonal matrix of the vector)')
        sd = npstubs.same_dim(A.shape[1], B.shape[0])
        if sd is False: raise RaiseEx('ValueError')
        if sd is None: I.ob('shape:np.multiply vector length', tz(A.shape[1]) == tz(B.shape[0]), kind='shape')
        return ML.mk(I, mul(ML.mat_of(I, a), DGF(z3.Lambda([j_], to_real(B.elem(j_))), tz(B.shape[0]))), A.shape)
    raise Unsupported("np.multiply form")

def extend_ext(ext):
    ML.install(ext); skstubs.install(ext)
    ext['mat_getitem'] = getitem_hook; ext['mat_binop'] = binop_hook
    np_ = ext['modules']['np']
    np_.vstack = vstack_stub; np_.mean = mean_stub; np_.cumsum = cumsum_stub; np_.multiply = multiply_stub
    np_.linalg.matrix_rank = lambda I, a, **kw: RANK(ML.mat_of(I, a))
    def pinv_stub(I, a, *args, **kw):
        npstubs.used('np.linalg.pinv')
        A = I.A(a); return ML.mk(I, ML.pinv(ML.mat_of(I, a)), (A.shape[1], A.shape[0]))
    np_.linalg.pinv = pinv_stub
    ext['arr_attrs'] = dict(ext['arr_attrs']); ext['arr_attrs']['reshape'] = reshape_attr; ext['arr_attrs']['sum'] = sum_attr
    def tolist_attr(I, a):
        def f(I2):
            A = I2.A(a); n0 = conc(A.shape[0])
            if A.ndim == 1 and isinstance(n0, int): return [A.elem(IntVal(k)) for k in range(n0)]
            raise Unsupported("tolist of a symbolic-length array")
        return f
    ext['arr_attrs']['tolist'] = tolist_attr

def setup(I, ktrain, ktest, shared=False):
    d = I.fresh('d', IntS); I.assume(d >= 1)
    I.use_axioms('entries', ML.axioms('entries') + local_axioms()); I.use_axioms('ring', ML.axioms('ring'))
    I.cur = {}
    tr, te = [], []
    for k in range(ktrain):
        n = I.fresh(f'n_train{k}', IntS); I.assume(n >= 1); tr.append(ML.fresh_mat(I, f'A{k}', (n, d)))
    for k in range(ktest):
        n = I.fresh(f'n_test{k}', IntS); I.assume(n >= 1); te.append(ML.fresh_mat(I, f'T{k}', (n, d)))
    alpha = I.fresh('alpha', RealS); I.assume(alpha > 0)
    if shared: te = list(tr)          # rigidities of the training set: the test list holds the very arrays of the training list
    trm = [ML.mat_of(I, a) for a in tr]; tem = [ML.mat_of(I, a) for a in te]
    def stack(ms):
        M = ms[0]
        for m in ms[1:]: M = VS(M, m)
        return M
    Xatom = stack(trm)
    S = SQRT(fro2(Xatom) / z3.ToReal(rows(Xatom)))
    Ms = stack([CMEAN(smul(1 / S, m)) for m in trm])
    Xprime = add(mul(T(Ms), Ms), smul(alpha, Id(d)))
    Xinv = ML.pinv(Xprime)
    return dict(d=d, tr=tr, te=te, trm=trm, tem=tem, alpha=alpha, S=S, Ms=Ms, Xprime=Xprime, Xinv=Xinv, stack=stack)

def qf(s, R): return at(mul(mul(R, s['Xinv']), T(R)), 0, 0)

def u_lpr(ktrain, ktest, shared=False):
    q = PR + '.local_prediction_rigidity'
    def inv(I, F, ai, g):
        s = I.cur['s']; L = I.A(F['LPR_np']); XT = ML.mat_of(I, F['X_test'])
        a = Int('a!inv')
        return [('[C20]one-slot-per-test-environment', tz(L.shape[0]) == rows(XT)),
                ('[C20]filled-slots-hold-the-closed-form', ForAll([a], Implies(And(0 <= a, a < ai), L.elem(a) == 1 / qf(s, smul(1 / s['S'], ROWOF(XT, a)))), patterns=[L.elem(a)]))]
    def body(I):
        s = setup(I, ktrain, ktest, shared); I.cur['s'] = s
        r = I.call_func(I.repo.get(q), [list(s['tr']), list(s['te']), s['alpha']], {})
        LPR, rank_diff = r
        I.ob('post[C20]:one-result-array-per-test-structure-in-input-order', BoolVal(isinstance(LPR, list) and len(LPR) == ktest), kind='post')
        I.ob('post[C20]:rank-difference-is-the-feature-dimension-minus-the-rank-of-the-regularised-covariance', tz(rank_diff) == s['d'] - RANK(s['Xprime']), kind='post')
        for t in range(ktest):
            A = I.A(LPR[t]); Tm = s['tem'][t]
            e = I.fresh(f'e{t}', IntS); I.assume(And(0 <= e, e < rows(Tm)))
            I.ob(f'post[C20]:structure-{t}:one-entry-per-environment', And(BoolVal(A.ndim == 1), tz(A.shape[0]) == rows(Tm)), kind='post')
            I.ob(f'post[C20]:structure-{t}:LPR-is-one-over-x-Xinv-x^T-with-the-globally-scaled-environment-features-and-the-per-structure-averaged-training-features',
                 A.elem(e) == 1 / qf(s, smul(1 / s['S'], ROWOF(Tm, e))), kind='post')
    return Unit(f'local_prediction_rigidity[{ktrain} train,{ktest} test{", test list shares its arrays with the training list" if shared else ""}]', body, loops={(q, 2): LoopContract(inv)}, functions=[q])

def u_cpr(ktrain, ktest, ncomp, shared=False):
    q = PR + '.componentwise_prediction_rigidity'
    def maskm(s, c):
        lo, hi = s['bounds'][c], s['bounds'][c + 1]
        return DGF(z3.Lambda([j_], If(And(j_ >= lo, j_ < hi), RealVal(1), RealVal(0))), s['d'])
    def inv(I, F, ai, g):
        s = I.cur['s']; L = I.A(F['LCPR_np']); XT = ML.mat_of(I, F['X_test']); ci = conc(F['ci'])
        a = Int('a!inv')
        out = [('[C20]one-row-per-test-environment-one-column-per-component', And(tz(L.shape[0]) == rows(XT), tz(L.shape[1]) == ncomp)),
               ('[C20]filled-slots-of-this-component-hold-the-closed-form', ForAll([a], Implies(And(0 <= a, a < ai), L.elem(a, IntVal(ci)) == 1 / qf(s, mul(smul(1 / s['S'], ROWOF(XT, a)), maskm(s, ci)))), patterns=[L.elem(a, IntVal(ci))]))]
        for c in range(ci):
            out.append((f'[C20]component-{c}-stays-filled', ForAll([a], Implies(And(0 <= a, a < rows(XT)), L.elem(a, IntVal(c)) == 1 / qf(s, mul(smul(1 / s['S'], ROWOF(XT, a)), maskm(s, c)))), patterns=[L.elem(a, IntVal(c))])))
        return out
    def body(I):
        s = setup(I, ktrain, ktest, shared); I.cur['s'] = s
        cd = [I.fresh(f'comp_dim{c}', IntS) for c in range(ncomp)]
        for v in cd: I.assume(v >= 1)
        I.assume(z3.Sum(cd) == s['d'] if ncomp > 1 else cd[0] == s['d'])          # the components partition the feature vector
        s['bounds'] = [IntVal(0)]
        for v in cd: s['bounds'].append(z3.simplify(s['bounds'][-1] + v))
        comp_dims = npstubs.from_list(I, cd)
        A0 = I.A(comp_dims); I.st.heap[comp_dims.id] = ArrVal(A0.shape, A0.elem, A0.sort, A0.tag, False, A0.vecs)
        r = I.call_func(I.repo.get(q), [list(s['tr']), list(s['te']), s['alpha'], comp_dims], {})
        CPR, LCPR, rank_diff = r
        I.ob('post[C20]:rank-difference-is-the-feature-dimension-minus-the-rank-of-the-regularised-covariance', tz(rank_diff) == s['d'] - RANK(s['Xprime']), kind='post')
        I.ob('post[C20]:one-LCPR-array-per-test-structure-in-input-order', BoolVal(isinstance(LCPR, list) and len(LCPR) == ktest), kind='post')
        C = I.A(CPR)
        I.ob('post[C20]:CPR-has-one-row-per-test-structure-and-one-column-per-component', And(BoolVal(C.ndim == 2), tz(C.shape[0]) == ktest, tz(C.shape[1]) == ncomp), kind='post')
        for t in range(ktest):
            A = I.A(LCPR[t]); Tm = s['tem'][t]
            e = I.fresh(f'e{t}', IntS); I.assume(And(0 <= e, e < rows(Tm)))
            I.ob(f'post[C20]:structure-{t}:one-LCPR-row-per-environment-one-column-per-component', And(BoolVal(A.ndim == 2), tz(A.shape[0]) == rows(Tm), tz(A.shape[1]) == ncomp), kind='post')
            for c in range(ncomp):
                I.ob(f'post[C20]:structure-{t}:component-{c}:LCPR-is-the-closed-form-with-the-environment-features-restricted-to-the-component-block',
                     A.elem(e, IntVal(c)) == 1 / qf(s, mul(smul(1 / s['S'], ROWOF(Tm, e)), maskm(s, c))), kind='post')
                I.ob(f'post[C20]:structure-{t}:component-{c}:CPR-is-the-closed-form-with-the-structure-averaged-features-restricted-to-the-component-block',
                     C.elem(IntVal(t), IntVal(c)) == 1 / qf(s, mul(CMEAN(smul(1 / s['S'], Tm)), maskm(s, c))), kind='post')
    return Unit(f'componentwise_prediction_rigidity[{ktrain} train,{ktest} test,{ncomp} components{", test list shares its arrays with the training list" if shared else ""}]', body, loops={(q, 4): LoopContract(inv)}, functions=[q])

UNITS = [lambda: u_cpr(1, 1, 1), lambda: u_cpr(2, 2, 2), lambda: u_lpr(1, 1), lambda: u_lpr(2, 2), lambda: u_lpr(3, 2), lambda: u_lpr(2, 2, True), lambda: u_cpr(2, 2, 2, True)]
RT = True
TRUSTED = ["matrix layer + stacking operators VS / ROWOF / CMEAN with their dimension and row laws; np.mean(X**2, axis=0).sum() = ||X||_F^2 / n; np.linalg.pinv, matrix_rank as functions of the matrix",
           "bounded in the NUMBER of structures (list lengths are concrete per unit: 1..3 training, 1..2 test structures); unbounded in environments per structure, feature dimension, alpha",
           "scaling laws (invariance under a common rescaling, non-decreasing in alpha, strict positivity, LCPR with one component = LPR, CPR of a one-environment structure = LCPR): consequences of the closed form, bounded runtime checks"]
LEAN_LEMMAS = "lemmas/lean/Lemmas.lean"
