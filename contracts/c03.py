"""C03 — PCovR latent space is independent of the computational route (contracts in contracts/pcovr.py)."""
from contracts import pcovr as P
from contracts import decomp as D
def extend_ext(ext):
    P.extend_ext(ext); D.extend_ext(ext)
UNITS = [P.u_sample_space, P.u_feature_space, lambda: P.u_fit('auto'), lambda: P.u_fit('sample', precomputed=True), lambda: P.u_fit('feature')] + list(D.UNITS)
EXTRA_MODULES = ['pcovutil']      # pcovr_covariance: what it computes (own numpy model)
RT = True
TRUSTED = ["matrix layer: ring laws of conformable real matrices, transposes, trace cyclicity, diagonal products; extensionality as a proof rule (entry-wise obligation, then equality)",
           "PCovR._decompose_truncated is under contract for the index bookkeeping (ARPACK output reversed consistently for values and both vector sets, svd_flip on both sides; randomized route passed through); assumed modular contracts (conformance-tested at run time): _decompose_full/_decompose_truncated return the leading-k spectral decomposition of the symmetric PSD matrix handed in (this IS the clause 'truncated solvers agree with the full solver': assumed, bounded check only); pcovr_covariance returns (C~, C^-1/2) with C^-1/2 symmetric and pinv(C^-1/2) C^-1/2 the projector on range(X^T X); np.linalg.lstsq(A,B)[0] = pinv(A) B; fitted regressor without intercept: coef_ = W^T, predict(X) = X W",
           "cited, not machine-checked: eigenvectors of simple eigenvalues are unique up to sign (turns 'both routes satisfy K~ T = T Lambda, T^T T = Lambda' into 'equal up to the sign of each component')"]
