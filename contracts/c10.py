"""C10 — Ridge2FoldCV equals explicit two-fold cross-validated regularised least squares.
No obligation of this property is discharged deductively yet: the cached-SVD code (closures over sliced factors, joblib, scorer objects) is outside the
interpretable subset of pyvc; the runtime form of the contract (explicit two-fold reference) stands in, labelled bounded."""
BOUNDED_ONLY = True
RT = True
UNITS = []
TRUSTED = ["reference implementation: per-fold SVD-based Tikhonov / cut-off least squares with the rank cut r = #{s > rcond}, sklearn scorers applied to (truth, prediction)"]
