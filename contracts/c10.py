"""C10 — Ridge2FoldCV equals explicit two-fold cross-validated regularised least squares.

Real functions: Ridge2FoldCV.__init__ / fit / _2fold_cv (with its two nested loss closures) / predict, _IdentityRegressor.predict
(skmatter/linear_model/_ridge.py), both regularisation methods, both alpha types, every scorer, every fold assignment, every grid.

Matrix layer + assumed contract of the thin SVD (np.linalg.svd(M, full_matrices=False) = SVU(M), SVS(M, .), SVVT(M), singular values non-increasing and >= 0).
Spec (regularised least squares on the numerically non-null directions, in SVD form):
  W(M, Y, alpha) = V_n D(alpha) U_n^T Y,  n = #{i : s_i > rcond * s_0} (numerical rank: the cut is RELATIVE to the largest singular value, rcond = max(shape of X) * eps),  Tikhonov: D = diag(s_i / (s_i^2 + alpha)),  cut-off: D = diag(1 / s_i) on the first
  min(n, #{i : s_i > alpha}) directions;   cv_values[k] = (SCORE(X_2 W(X_1, y_1, a_k), y_2) + SCORE(X_1 W(X_2, y_2, a_k), y_1)) / 2 with a_k the (scaled) grid
  value; alpha_ = grid value at the arg-max; coef_ = W(X, y, a_best)^T; predict = X coef_^T.
That the SVD form satisfies the normal equations (M^T M + alpha I) W = M^T Y on the retained directions is the Lean theorem ridge_svd_normal_equations
(lemmas/lean/Lemmas.lean, machine-checked; alpha = 0 gives the cut-off / least-squares case)."""
from pyvc.api import *
from pyvc import matlayer as ML, skstubs
from pyvc.matlayer import Mat, mul, add, sub, T, smul, Id, at, rows, cols
from pyvc.engine import ExtNS, ExtClass, Opaque
import ast

R2 = 'skmatter.linear_model._ridge.Ridge2FoldCV'
i_, j_ = Int('i'), Int('j')
TIx = z3.DeclareSort('FoldIdx')
ROWSEL = z3.Function('ROWSEL', Mat, TIx, Mat)
SVU = z3.Function('SVU', Mat, Mat); SVVT = z3.Function('SVVT', Mat, Mat); SVS = z3.Function('SVS', Mat, IntS, RealS)
CNT = z3.Function('CNT', Mat, RealS, IntS)                # number of singular values of M above a threshold
ROWP = z3.Function('ROWP', Mat, IntS, Mat); COLP = z3.Function('COLP', Mat, IntS, Mat)     # first n rows / columns
DG = z3.Function('DG', z3.ArraySort(IntS, RealS), IntS, Mat)                                # diag(f(0), ..., f(n-1))
SCORE = z3.Function('SCORE', Mat, Mat, RealS)            # scorer(identity estimator, prediction, truth)
EPS = z3.Real('spacing_of_one')
NLEN = z3.Function('NLEN', TIx, IntS)

def kmin(M): return If(rows(M) <= cols(M), rows(M), cols(M))

def local_axioms():
    A, B = z3.Consts('A!r B!r', Mat); n, m, i = z3.Ints('n!r m!r i!r'); t = z3.Real('t!r')
    f, g = z3.Consts('f!r g!r', z3.ArraySort(IntS, RealS))
    return [ForAll([A], And(rows(SVU(A)) == rows(A), cols(SVU(A)) == kmin(A), rows(SVVT(A)) == kmin(A), cols(SVVT(A)) == cols(A)), patterns=[SVU(A)]),
            ForAll([A], And(rows(SVU(A)) == rows(A), cols(SVU(A)) == kmin(A), rows(SVVT(A)) == kmin(A), cols(SVVT(A)) == cols(A)), patterns=[SVVT(A)]),
            ForAll([A, i], Implies(And(0 <= i, i < kmin(A)), SVS(A, i) >= 0), patterns=[SVS(A, i)]),
            # counting over the non-increasing singular values: a threshold cuts a prefix
            ForAll([A, t], And(0 <= CNT(A, t), CNT(A, t) <= kmin(A)), patterns=[CNT(A, t)]),
            ForAll([A, t, i], Implies(And(0 <= i, i < kmin(A)), (i < CNT(A, t)) == (SVS(A, i) > t)), patterns=[z3.MultiPattern(CNT(A, t), SVS(A, i))]),
            # prefixes
            ForAll([A, n], Implies(And(0 <= n, n <= rows(A)), And(rows(ROWP(A, n)) == n, cols(ROWP(A, n)) == cols(A))), patterns=[ROWP(A, n)]),
            ForAll([A, n], Implies(And(0 <= n, n <= cols(A)), And(cols(COLP(A, n)) == n, rows(COLP(A, n)) == rows(A))), patterns=[COLP(A, n)]),
            ForAll([A, B, n], COLP(mul(A, B), n) == mul(A, COLP(B, n)), patterns=[COLP(mul(A, B), n)]),
            ForAll([A, B, n], ROWP(mul(A, B), n) == mul(ROWP(A, n), B), patterns=[ROWP(mul(A, B), n)]),
            ForAll([A, n, m], Implies(And(0 <= m, m <= n), COLP(COLP(A, n), m) == COLP(A, m)), patterns=[COLP(COLP(A, n), m)]),
            ForAll([A, n, m], Implies(And(0 <= m, m <= n), ROWP(ROWP(A, n), m) == ROWP(A, m)), patterns=[ROWP(ROWP(A, n), m)]),
            ForAll([A, n], T(COLP(A, n)) == ROWP(T(A), n), patterns=[T(COLP(A, n))]),
            ForAll([A, n], T(ROWP(A, n)) == COLP(T(A), n), patterns=[T(ROWP(A, n))]),
            ForAll([f, n], Implies(n >= 0, And(rows(DG(f, n)) == n, cols(DG(f, n)) == n)), patterns=[DG(f, n)]),
            # product of two diagonal scalings is the scaling by the product
            ForAll([A, f, g, n], mul(mul(A, DG(f, n)), DG(g, n)) == mul(A, DG(z3.Lambda([i], f[i] * g[i]), n)), patterns=[mul(mul(A, DG(f, n)), DG(g, n))]),
            # a diagonal matrix depends only on the first n values
            ForAll([f, g, n], Implies(ForAll([i], Implies(And(0 <= i, i < n), f[i] == g[i])), DG(f, n) == DG(g, n)), patterns=[z3.MultiPattern(DG(f, n), DG(g, n))])
            ]

def lam1(A1):
    """term function of a 1-D array value"""
    return z3.Lambda([i_], to_real(A1.elem(i_)))

def getitem_hook(I, b, ix):
    A = I.A(b)
    if A.ndim == 2 and A.sort == RealS:
        if isinstance(ix, ArrRef) and I.A(ix).tag and I.A(ix).tag[0] == 'fold':
            R = ROWSEL(ML.mat_of(I, b), I.A(ix).tag[1])
            I.assume(And(rows(R) == tz(I.A(ix).shape[0]), cols(R) == tz(A.shape[1])))
            return ML.mk(I, R, (I.A(ix).shape[0], A.shape[1]))
        if isinstance(ix, slice) and ix.start is None and ix.step is None and ix.stop is not None:
            n = tz(ix.stop)
            I.ob('index:row-prefix-within-the-matrix', And(0 <= n, n <= tz(A.shape[0])), kind='index')
            return ML.mk(I, ROWP(ML.mat_of(I, b), n), (conc(n), A.shape[1]))
        if isinstance(ix, tuple) and len(ix) == 2 and isinstance(ix[0], slice) and ix[0] == slice(None) and isinstance(ix[1], slice) and ix[1].start is None and ix[1].step is None and ix[1].stop is not None:
            n = tz(ix[1].stop)
            I.ob('index:column-prefix-within-the-matrix', And(0 <= n, n <= tz(A.shape[1])), kind='index')
            return ML.mk(I, COLP(ML.mat_of(I, b), n), (A.shape[0], conc(n)))
    return ML.getitem_hook(I, b, ix)

def binop_hook(I, op, a, b, what):
    """matrix * vector / matrix / vector (broadcast over the columns) = product with a diagonal matrix"""
    if isinstance(a, ArrRef) and isinstance(b, ArrRef):
        A, B = I.A(a), I.A(b)
        if A.ndim == 2 and A.sort == RealS and B.ndim == 1 and op in (ast.Mult, ast.Div):
            sd = npstubs.same_dim(A.shape[1], B.shape[0])
            if sd is False: raise RaiseEx('ValueError')
            if sd is None: I.ob(f'shape:{what}', tz(A.shape[1]) == tz(B.shape[0]), kind='shape')
            f = lam1(B) if op is ast.Mult else z3.Lambda([i_], 1 / to_real(B.elem(i_)))
            return ML.mk(I, mul(ML.mat_of(I, a), DG(f, tz(B.shape[0]))), A.shape)
    return ML.binop_hook(I, op, a, b, what)

def comp_hook(I, e, g, it, F):
    """[f(a) for a in grid]: the values get a name (an uninterpreted function defined entry by entry) so that max / argmax contracts speak about clean terms"""
    r = ML.comp_sym(I, e, g, it, F)
    A = I.A(r)
    f = I.fresh_fn('cvf', IntS, RealS)
    I.assume(ForAll([i_], Implies(And(0 <= i_, i_ < tz(A.shape[0])), f(i_) == A.elem(i_)), patterns=[f(i_)]))
    I.cur['cv_def'] = (f, A)
    return I.new_arr(ArrVal(A.shape, lambda i: f(tz(i)), RealS, None, True))

def svd_stub(I, M, full_matrices=True, **kw):
    npstubs.used('np.linalg.svd (thin SVD: factors as functions of the matrix, singular values non-increasing)')
    if full_matrices is not False: raise Unsupported("full svd")
    Mm = ML.mat_of(I, M); m, p = I.A(M).shape
    r = conc(z3.simplify(If(tz(m) <= tz(p), tz(m), tz(p))))
    U = ML.mk(I, SVU(Mm), (m, r)); Vt = ML.mk(I, SVVT(Mm), (r, p))
    S = I.new_arr(ArrVal((r,), lambda i: SVS(Mm, tz(i)), RealS, ('svs', Mm)))
    return (U, S, Vt)

def b_sum(I, it, start=0):
    """sum(s > t) over the singular values of a matrix: the number of singular values above t"""
    if isinstance(it, ArrRef):
        A = I.A(it)
        if A.tag and A.tag[0] == 'cmp' and A.tag[1] == 'Gt' and isinstance(A.tag[2], ArrRef) and I.A(A.tag[2]).tag and I.A(A.tag[2]).tag[0] == 'svs' and not isinstance(A.tag[3], ArrRef):
            npstubs.used('sum(s > t) over non-increasing singular values (count = length of the prefix above t)')
            return CNT(I.A(A.tag[2]).tag[1], to_real(tz(A.tag[3])))
    return npstubs.b_sum(I, it, start)

def np_max(I, a, **kw):
    A = I.A(a) if isinstance(a, ArrRef) else None
    if A is not None and A.tag and A.tag[0] == 'svs':
        npstubs.used('np.max of the singular values (= the first)')
        I.ob('pre:np.max-of-a-non-empty-array', tz(A.shape[0]) >= 1, kind='pre')
        return SVS(A.tag[1], IntVal(0))
    return I.cur['prev_max'](I, a, **kw)

def make_scorer(I, name):
    def scorer(I2, est, Xp, yt, **kw):
        npstubs.used('sklearn scorer(estimator, X, y) = SCORE(estimator.predict(X), y)')
        if not (isinstance(est, ObjRef) and I2.O(est).cls.name == '_IdentityRegressor'): raise Unsupported("scorer on a non-identity estimator")
        pred = I2.call_func(I2.find_method(I2.O(est).cls, 'predict'), [est, Xp], {})
        I2.cur.setdefault('score_calls', []).append((pred, yt))
        return SCORE(ML.mat_of(I2, pred), ML.mat_of(I2, yt))
    return scorer

def extend_ext(ext):
    ML.install(ext); skstubs.install(ext)
    ext['mat_getitem'] = getitem_hook; ext['mat_binop'] = binop_hook
    ext['comp_sym'] = comp_hook
    np_ = ext['modules']['np']
    np_.linalg.svd = svd_stub
    np_.spacing = lambda I, v: EPS
    prev_max = np_.max
    def mx(I, a, **kw):
        I.cur['prev_max'] = prev_max
        return np_max(I, a, **kw)
    np_.max = mx
    prev_argmax = np_.argmax
    def amx(I, a, **kw):
        r = prev_argmax(I, a, **kw)
        I.cur.setdefault('argmax', []).append((a, r))
        return r
    np_.argmax = amx
    ext['builtins'] = dict(ext['builtins']); ext['builtins']['sum'] = b_sum
    ext['builtins']['next'] = lambda I, it: next(it)
    ext['arr_attrs'] = dict(ext['arr_attrs'])
    ext['arr_attrs']['real'] = lambda I, a: a
    ext['arr_attrs']['dtype'] = lambda I, a: skstubs.StubObj(kind='dtype', type=lambda I2, v: v)
    def check_scoring(I, est, scoring=None, allow_none=False, **kw):
        I.cur['scoring_arg'] = scoring
        return make_scorer(I, scoring)
    ext['names']['sklearn.metrics.check_scoring'] = check_scoring
    def kfold(I, n_splits=5, shuffle=False, random_state=None, **kw):
        I.cur['kfold_args'] = dict(n_splits=n_splits, shuffle=shuffle, random_state=random_state)
        return skstubs.StubObj(kind='KFold', split=lambda I2, X, *a, **k: iter([I2.cur['folds']]))
    kf = ExtClass('KFold'); kf.ctor = kfold
    ext['names']['sklearn.model_selection.KFold'] = kf
    def check_cv(I, cv, **kw):
        I.cur['check_cv_arg'] = cv
        return skstubs.StubObj(kind='cv', split=lambda I2, X, *a, **k: iter([I2.cur['folds']]))
    ext['names']['sklearn.model_selection.check_cv'] = check_cv
    par = ExtClass('Parallel'); par.ctor = lambda I, n_jobs=None, **kw: (lambda I2, gen: gen)
    ext['names']['joblib.Parallel'] = par
    ext['names']['joblib.delayed'] = lambda I, f: f
    for k in ('sklearn.base.BaseEstimator', 'sklearn.base.MultiOutputMixin', 'sklearn.base.RegressorMixin'): ext['names'].setdefault(k, ExtClass(k.split('.')[-1]))

def W_spec(M, Y, alpha, method):
    """regularised least squares in SVD form on the numerically non-null directions"""
    n = CNT(M, RCOND[0] * SVS(M, 0))
    V, Ut = T(SVVT(M)), T(SVU(M))
    if method == 'tikhonov':
        D = DG(z3.Lambda([i_], SVS(M, i_) / (SVS(M, i_) * SVS(M, i_) + alpha)), n)
        return mul(COLP(V, n), mul(D, mul(ROWP(Ut, n), Y)))
    m = If(n <= CNT(M, alpha), n, CNT(M, alpha))
    D = DG(z3.Lambda([i_], 1 / SVS(M, i_)), m)
    return mul(COLP(V, m), mul(D, mul(ROWP(Ut, m), Y)))
RCOND = [None]

def u_fit(method, atype, cv_given=False, parallel=False):
    def body(I):
        n, m, p, na = I.fresh('n', IntS), I.fresh('m', IntS), I.fresh('p', IntS), I.fresh('n_alphas', IntS)
        I.assume(And(n >= 2, m >= 1, p >= 1, na >= 1, EPS > 0))
        I.use_axioms('entries', ML.axioms('entries') + local_axioms()); I.use_axioms('ring', ML.axioms('ring'))
        I.cur = {}
        X = ML.fresh_mat(I, 'X', (n, m)); Y = ML.fresh_mat(I, 'y', (n, p)); Xm, Ym = ML.mat_of(I, X), ML.mat_of(I, Y)
        alphas = I.fresh_arr('alphas', (na,)); al = I.A(alphas).elem
        if atype == 'relative': I.assume(ForAll([i_], Implies(And(0 <= i_, i_ < na), And(al(i_) >= 0, al(i_) < 1)), patterns=[al(i_)]))
        else: I.assume(ForAll([i_], Implies(And(0 <= i_, i_ < na), al(i_) >= 0), patterns=[al(i_)]))
        f1, f2 = z3.Const('fold1', TIx), z3.Const('fold2', TIx)
        n1, n2 = I.fresh('n_fold1', IntS), I.fresh('n_fold2', IntS); I.assume(And(n1 >= 1, n2 >= 1))
        def mkidx(t, k):
            r = I.fresh_arr('foldidx', (k,), IntS); A = I.A(r); I.st.heap[r.id] = ArrVal(A.shape, A.elem, IntS, ('fold', t)); return r
        I.cur['folds'] = (mkidx(f1, n1), mkidx(f2, n2))
        cls = I.repo.get(R2)
        shuffle = I.fresh('shuffle', BoolS); rs = I.fresh('random_state', IntS)
        cvobj = skstubs.StubObj(kind='user-cv') if cv_given else None
        nj = None
        if parallel:
            nj = I.fresh('n_jobs', IntS); I.assume(nj >= 2)          # any number of workers: the values must not depend on it
        me = I.instantiate(cls, [], dict(alphas=alphas, alpha_type=atype, regularization_method=method, cv=cvobj, scoring='r2', random_state=rs, shuffle=shuffle, n_jobs=nj))
        r = I.call_func(I.find_method(cls, 'fit'), [me, X, Y], {})
        I.ob('post[C09]:fit-returns-self', BoolVal(isinstance(r, ObjRef) and r.id == me.id), kind='post')
        o = I.O(me)
        if cv_given: I.ob('post[C10]:the-given-fold-assignment-is-used', BoolVal(I.cur.get('check_cv_arg') is cvobj and 'kfold_args' not in I.cur), kind='post')
        else:
            ka = I.cur.get('kfold_args')
            I.ob('post[C10]:default-folds-are-a-2-fold-split-with-the-configured-shuffle-and-seed', BoolVal(ka is not None and ka['n_splits'] == 2 and ka['shuffle'] is shuffle and ka['random_state'] is rs), kind='post')
        I.ob('post[C10]:the-configured-scorer-is-used', BoolVal(I.cur.get('scoring_arg') == 'r2'), kind='post')
        # ---- spec
        mx = If(tz(n) >= tz(m), tz(n), tz(m))
        rcond = z3.ToReal(mx) * EPS
        RCOND[0] = rcond
        M1, M2, Y1, Y2 = ROWSEL(Xm, f1), ROWSEL(Xm, f2), ROWSEL(Ym, f1), ROWSEL(Ym, f2)
        smax = If(SVS(M1, 0) >= SVS(M2, 0), SVS(M1, 0), SVS(M2, 0))
        scaled = (lambda k: al(k) * smax) if atype == 'relative' else (lambda k: al(k))
        cv = I.A(o.attrs['cv_values_']) if isinstance(o.attrs['cv_values_'], ArrRef) else None
        I.ob('post[C10]:one-cross-validation-value-per-grid-point', BoolVal(cv is not None and cv.ndim == 1) if cv is None else tz(cv.shape[0]) == na, kind='post')
        k = I.fresh('k', IntS); I.assume(And(0 <= k, k < na))
        if cv is not None:
            a_k = scaled(k)
            spec = (SCORE(mul(M2, W_spec(M1, Y1, a_k, method)), Y2) + SCORE(mul(M1, W_spec(M2, Y2, a_k, method)), Y1)) / 2
            lhs1 = mul(M2, W_spec(M1, Y1, a_k, method))
            cvd = I.cur.get('cv_def')
            I.ob('post[C10]:cv-values-are-the-values-computed-by-the-loss-closure-in-grid-order', BoolVal(cvd is not None and len(I.cur.get('score_calls', [])) == 2), kind='post')
            if cvd is not None: I.assume(cvd[0](k) == cvd[1].elem(k))          # instance of the definition of the named values at k
            I.ob('post[C10]:cv-value-is-the-mean-score-of-each-fold-model-on-the-other-fold', cv.elem(k) == spec, kind='post')
            am = I.cur.get('argmax', [])
            I.ob('post[C10]:one-arg-max-over-the-cv-values', BoolVal(len(am) == 1 and I.A(am[0][0]) is cv), kind='post')
            bb = tz(am[0][1]) if len(am) == 1 else IntVal(0)
            I.ob('post[C10]:best-score-is-the-largest-cv-value', And(to_real(tz(o.attrs['best_score_'])) >= cv.elem(k), to_real(tz(o.attrs['best_score_'])) == cv.elem(bb)), kind='post')
            I.ob('post[C10]:chosen-alpha-is-the-grid-value-with-the-best-cv-value', And(0 <= bb, bb < na, to_real(tz(o.attrs['alpha_'])) == al(bb), cv.elem(bb) >= cv.elem(k)), kind='post')
        I.cur['spec'] = dict(M1=M1, M2=M2, Y1=Y1, Y2=Y2, scaled=scaled, al=al, na=na, Xm=Xm, Ym=Ym, cv=cv)
        # coefficients: regularised solution on the full data at the scaled best alpha
        C = ML.mat_of(I, o.attrs['coef_'])
        import os
        if os.environ.get('C10DBG'): print('COEF', C.sexpr()[:3000])
        if cv is not None:
            if method == 'tikhonov':
                # proof hints (merging the two diagonal scalings of the final expression); they depend on the shape T(((V*DG)*DG) @ (U^T y)) and are skipped otherwise
                try:
                    a8 = C.arg(0).arg(0); a6 = a8.arg(0); L = a8.arg(1).arg(1); f2 = a8.arg(1).arg(0); f1 = a6.arg(1).arg(0); Vn = a6.arg(0)
                    ok = C.decl().name() == 'T' and a8.arg(1).decl().name() == 'DG' and a6.arg(1).decl().name() == 'DG'
                except Exception: ok = False
                if ok:
                    rc0 = rcond * SVS(Xm, 0)      # numerical-rank cut of the full data: relative to the largest singular value
                    nn = CNT(Xm, rc0); ab_ = scaled(bb)
                    ii = z3.Int('i!h')
                    Lfg = z3.Lambda([ii], f1[ii] * f2[ii]); Lsp = z3.Lambda([i_], SVS(Xm, i_) / (SVS(Xm, i_) * SVS(Xm, i_) + ab_))
                    i0 = I.fresh('i0', IntS); I.assume(And(0 <= i0, i0 < nn))
                    x0 = SVS(Xm, i0); y0 = x0 * x0 + ab_
                    I.assume(And(CNT(Xm, rc0) <= kmin(Xm), Implies(And(0 <= i0, i0 < kmin(Xm)), (i0 < CNT(Xm, rc0)) == (x0 > rc0))))     # instances of the counting axioms at i0
                    for nm, h in [('retained-directions-are-those-above-rcond-times-the-largest-singular-value', L == nn),
                                  ('two-diagonal-scalings-merge', a8 == mul(Vn, DG(Lfg, L))),
                                  ('rcond-is-positive', rcond > 0),
                                  ('largest-singular-value-is-non-negative', SVS(Xm, 0) >= 0),
                                  ('relative-cut-is-non-negative', rc0 >= 0),
                                  ('retained-singular-value-is-above-the-cut', x0 > rc0),
                                  ('chosen-alpha-is-non-negative', ab_ >= 0),
                                  ('retained-singular-value-is-positive', x0 > 0),
                                  ('...and-so-is-its-square', x0 * x0 > 0)]:
                        I.ob('step:' + nm, h, kind='lemma'); I.assume(h)
                    sq0 = I.fresh('sq0', RealS); I.assume(sq0 == x0 * x0)                         # name for the square
                    I.ob('step:...the-named-square-is-positive', sq0 > 0, kind='lemma'); I.assume(sq0 > 0)
                    I.ob('step:...and-the-Tikhonov-denominator', sq0 + ab_ > 0, kind='lemma', using=[sq0 > 0, ab_ >= 0]); I.assume(sq0 + ab_ > 0)
                    I.assume(y0 == sq0 + ab_); I.ob('step:...named-or-not', y0 > 0, kind='lemma'); I.assume(y0 > 0)                                   # y0 is sq0 + alpha by the definition of sq0
                    I.assume(Implies(y0 > 0, x0 * (1 / y0) == x0 / y0))                         # lemma[C10] x * (1/y) = x / y for y > 0 (proved in the lemma unit), at x0, y0
                    h = Lfg[i0] == Lsp[i0]
                    I.ob('step:merged-scaling-is-the-Tikhonov-filter-on-every-retained-direction', h, kind='lemma')
                    I.assume(ForAll([ii], Implies(And(0 <= ii, ii < nn), Lfg[ii] == Lsp[ii])))   # generalisation over the arbitrary retained direction i0
                    h = DG(Lfg, L) == DG(Lsp, nn)
                    I.ob('step:...as-diagonal-matrices', h, kind='lemma'); I.assume(h)
            I.ob('post[C10]:coefficients-are-the-regularised-solution-on-the-full-data-for-the-chosen-(scaled)-alpha', C == T(W_spec(Xm, Ym, scaled(bb), method)), kind='post')
        # predict
        Xq = ML.fresh_mat(I, 'Xq', (I.fresh('nq', IntS), m))
        P = I.call_func(I.find_method(cls, 'predict'), [me, Xq], {})
        I.ob('post[C10]:predict-is-X-times-the-coefficients', ML.mat_of(I, P) == mul(ML.mat_of(I, Xq), T(C)), kind='post')
    return Unit(f'Ridge2FoldCV[{method},{atype}{",cv-given" if cv_given else ""}{",n_jobs>=2" if parallel else ""}]', body, functions=[R2 + '.fit', R2 + '._2fold_cv', R2 + '.predict', R2 + '.__init__'])

def u_reject(what):
    def body(I):
        I.cur = {}
        cls = I.repo.get(R2)
        alphas = I.fresh_arr('alphas', (I.fresh('na', IntS),))
        kw = dict(alphas=alphas)
        if what == 'method': kw['regularization_method'] = 'lasso'
        if what == 'alpha_type': kw['alpha_type'] = 'fraction'
        me = I.instantiate(cls, [], kw)
        X = ML.fresh_mat(I, 'X', (I.fresh('n', IntS), I.fresh('m', IntS))); Y = ML.fresh_mat(I, 'y', (I.A(X).shape[0], 1))
        I.call_func(I.find_method(cls, 'fit'), [me, X, Y], {})
        I.ob('reject[C10]:unknown-' + what + '-is-rejected', BoolVal(False), kind='post')
    return Unit(f'Ridge2FoldCV[reject-{what}]', body, functions=[R2 + '.fit'], on_raise=lambda I, st, r: r.kind == 'ValueError', reject_name='reject[C10]:unknown-' + what + '-is-rejected')

def u_lemma():
    def body(I):
        x, y = I.fresh('x', RealS), I.fresh('y', RealS); I.assume(y > 0)
        I.ob('lemma[C10]:x-times-the-reciprocal-is-the-quotient', x * (1 / y) == x / y, kind='lemma')
    return Unit('lemmas[reciprocal]', body, functions=[])

UNITS = [lambda: u_lemma(), lambda: u_fit('tikhonov', 'absolute'), lambda: u_fit('tikhonov', 'relative'), lambda: u_fit('cutoff', 'absolute'), lambda: u_fit('cutoff', 'relative'),
         lambda: u_fit('tikhonov', 'absolute', True), lambda: u_fit('tikhonov', 'relative', False, True), lambda: u_fit('cutoff', 'relative', False, True), lambda: u_reject('method'), lambda: u_reject('alpha_type')]
RT = True
TRUSTED = ["matrix layer (ring laws), prefix operators ROWP/COLP (first n rows / columns) with their product/transposition laws, diagonal scaling DG(f, n) with DG-product law",
           "thin SVD contract: factors SVU/SVS/SVVT as functions of the matrix, singular values non-negative and non-increasing, so that sum(s > t) is the length CNT(M, t) of the prefix above t and np.max(s) = s[0]",
           "the SVD form V diag(s/(s^2+alpha)) U^T y satisfies the normal equations of regularised least squares on the retained directions (Lean theorem ridge_svd_normal_equations, machine-checked; no longer only cited); sorted singular values make the directions above a threshold a prefix (Lean theorem above_threshold_is_prefix); the sklearn scorer is SCORE(prediction, truth) of the identity estimator's prediction",
           "KFold / check_cv yield one (fold1, fold2) pair (index sets as uninterpreted tokens: every fold assignment); joblib.Parallel evaluates the generator in order; np.spacing(1) = a positive constant",
           "numerical effects (bounded coefficients for rank-deficient X, scorers' values): bounded runtime checks"]
LEAN_LEMMAS = "lemmas/lean/Lemmas.lean"
