"""C04 — PCovR interpolates optimally and monotonically between PCA and regression (contracts in contracts/pcovr.py)."""
from contracts import pcovr as P
from contracts import decomp as D
def extend_ext(ext):
    P.extend_ext(ext); D.extend_ext(ext)
UNITS = [P.u_sample_space, P.u_feature_space, P.objective_lemma, lambda: P.u_fit('sample'), lambda: P.u_fit('feature')] + list(D.UNITS)
RT = True
TRUSTED = ["matrix layer (see C03)", "cited, not machine-checked: Ky Fan's maximum principle (the trace of Q^T K Q over orthonormal Q is maximised by the leading eigenvectors) turns the proved objective identity into optimality; monotonicity of the two losses in the mixing follows from optimality at two mixings (four-line inequality argument, bounded check at run time)",
           "assumed modular contracts of C03"]
