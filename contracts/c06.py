"""C06 — Voronoi FPS is an exact accelerator (contracts in contracts/selectors.py)."""
import os
from contracts import selectors as S
from contracts.selectors import extend_ext
C = S.Cfg
cfgs = [C('VoronoiFPS', 'sample'), C('VoronoiFPS', 'sample', nsel='none'), C('VoronoiFPS', 'sample', nsel='float'), C('VoronoiFPS', 'sample', init='random'),
        C('VoronoiFPS', 'sample', warm=True), C('VoronoiFPS', 'sample', warm=True, nsel='none'), C('VoronoiFPS', 'sample', thr='absolute'),
        C('FPS', 'sample')]
UNITS = [(lambda c: (lambda: S.u_fit(c)))(c) for c in cfgs]
UNITS = [lambda: S.u_voronoi_update(), lambda: S.u_voronoi_update(with_y=True), lambda: S.u_voronoi_update(thr='absolute'), lambda: S.u_voronoi_update(thr='relative')] + UNITS
UNITS += [lambda: S.u_views(C('VoronoiFPS', 'sample')), lambda: S.u_step_functional(C('VoronoiFPS', 'sample')), lambda: S.u_continue_frame(C('VoronoiFPS', 'sample'))]
RT = True
TRUSTED = ["Lean theorem voronoi_prune (lemmas/lean/Lemmas.lean, machine-checked by Lean 4 + Mathlib): ||s-l||^2/4 >= ||x-s||^2 implies ||x-l||^2 >= ||x-s||^2 (used as an axiom of the vector layer)",
           "time.time() is any real: the calibrated switching point full_fraction is havocked in [0,1], so every outcome of the timing is covered",
           "VoronoiFPS and plain FPS refine the same specification (distance table = true minimum distance; pick = first argmax of the table); equality of the two selection sequences is the consequence (np.argmax deterministic), ties within rounding are bounded only"]
LEAN_LEMMAS = "lemmas/lean/Lemmas.lean"
