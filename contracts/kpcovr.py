"""Contracts for KernelPCovR (C05) over the matrix layer.

Modular / assumed (conformance-tested at run time): pairwise_kernels(X, Y, metric=...) = KERN(X, Y) (a function of the two sample sets only;
'precomputed' returns X itself); _decompose_full/_decompose_truncated as for PCovR; KernelNormalizer.fit_transform / transform (C12 contract:
same shape out, transform requires as many columns as training samples); check_krr_fit returns a fitted kernel ridge with dual_coef_ (n, p)."""
from pyvc.api import *
from pyvc import matlayer as ML, skstubs
from pyvc.matlayer import Mat, mul, add, sub, T, smul, Id, at, rows, cols, isdiag, tr, fro2
from pyvc.engine import ExtNS, ExtClass, Opaque
from contracts import pcovr as P

KP = 'skmatter.decomposition._kernel_pcovr.KernelPCovR'
KERN = z3.Function('KERN', Mat, Mat, Mat)
CENT = z3.Function('CENT', Mat, Mat)          # KernelNormalizer().fit(K_train).transform(K): centred/scaled kernel block (C12)
i_, j_ = Int('i'), Int('j')

def kern_axioms():
    A, B = z3.Consts('A!k B!k', Mat)
    return [ForAll([A, B], And(rows(KERN(A, B)) == rows(A), cols(KERN(A, B)) == rows(B)), patterns=[KERN(A, B)]),
            ForAll([A], T(KERN(A, A)) == KERN(A, A), patterns=[KERN(A, A)]),
            ForAll([A], And(rows(CENT(A)) == rows(A), cols(CENT(A)) == cols(A)), patterns=[CENT(A)]),
            ForAll([A], Implies(T(A) == A, T(CENT(A)) == CENT(A)), patterns=[CENT(A)])]

def pairwise_kernels_stub(I, X, Y=None, metric='linear', **kw):
    npstubs.used('sklearn.pairwise_kernels = KERN(X, Y)')
    Xm = ML.mat_of(I, X)
    I.cur.setdefault('kernel_calls', []).append((X, Y, metric, {k: v for k, v in kw.items() if k in ('gamma', 'degree', 'coef0')}))
    if metric == 'precomputed': return X
    if Y is None: return ML.mk(I, KERN(Xm, Xm), (I.A(X).shape[0], I.A(X).shape[0]))
    ML.shape_eq(I, I.A(X).shape[1], I.A(Y).shape[1], 'pairwise_kernels feature dimensions')
    return ML.mk(I, KERN(Xm, ML.mat_of(I, Y)), (I.A(X).shape[0], I.A(Y).shape[0]))

def normalizer_contracts():
    KN = 'skmatter.preprocessing._data.KernelNormalizer'
    def ft_make(I, F):
        K = F['K']; A = I.A(K)
        ML.shape_eq(I, A.shape[0], A.shape[1], 'KernelNormalizer.fit needs a square training kernel')
        I.O(F['self']).attrs['n_features_in_'] = A.shape[1]
        I.O(F['self']).attrs['scale_'] = I.fresh('scale', RealS)
        I.cur['centred_train'] = K
        return ML.mk(I, CENT(ML.mat_of(I, K)), A.shape)
    def tr_req(I, F):
        A = I.A(F['K']); nf = I.O(F['self']).attrs.get('n_features_in_')
        return [('kernel-has-as-many-columns-as-training-samples', BoolVal(False) if nf is None else tz(A.shape[1]) == tz(nf))]
    def tr_make(I, F):
        A = I.A(F['K']); return ML.mk(I, CENT(ML.mat_of(I, F['K'])), A.shape)
    return {KN + '.fit_transform': FuncContract(make_result=ft_make), KN + '.transform': FuncContract(requires=tr_req, make_result=tr_make)}

def krr_contract():
    def make_result(I, F):
        I.cur['krr_args'] = (F['regressor'], F['K'], F['X'], F['y'])
        return I.cur['krrstub']
    return FuncContract(make_result=make_result)

def np_sqrt_mat(I, a):
    if isinstance(a, ArrRef) and ML.is_mat(I, a):
        M = I.A(a).tag[1]
        if any(M.eq(D) for D in I.cur.get('diags', [])):
            # elementwise square root of a diagonal matrix is the diagonal matrix of the square roots
            I.st.nfresh += 1
            D2 = z3.Const(f"Dsqrt!{I.st.nfresh}", Mat)
            I.assume(And(rows(D2) == rows(M), cols(D2) == cols(M), isdiag(D2), ForAll([i_], at(D2, i_, i_) == npstubs.SQRT(at(M, i_, i_)), patterns=[at(D2, i_, i_)])))
            I.cur['diags'].append(D2)
            return ML.mk(I, D2, I.A(a).shape)
    return npstubs.np_sqrt(I, a)

def extend_ext(ext):
    P.extend_ext(ext)
    ext['names']['sklearn.metrics.pairwise.pairwise_kernels'] = pairwise_kernels_stub
    kr = ExtClass('KernelRidge'); kr.ctor = lambda I, **kw: skstubs.StubObj(kind='KernelRidge', **kw)
    ext['names']['sklearn.kernel_ridge.KernelRidge'] = kr
    ext['super_methods']['__init__'] = lambda I, me: (lambda I2, *a, **k: None)
    ext['modules']['np'].sqrt = np_sqrt_mat
    ext['modules']['np'].array = lambda I, a, *x, **k: (a if isinstance(a, ArrRef) and I.A(a).islist else npstubs.np_array(I, a, *x, **k))

def u_fit(center=False, precomputed_kernel=False, stale=False):
    def body(I):
        n, m, p, k = I.fresh('n', IntS), I.fresh('m', IntS), I.fresh('p', IntS), I.fresh('k', IntS)
        I.assume(And(n >= 2, m >= 1, p >= 1, k >= 1, k <= n))
        I.use_axioms('entries', ML.axioms('entries')); I.use_axioms('ring', ML.axioms('ring') + P.pinv_axioms() + kern_axioms())
        I.cur = {}
        if precomputed_kernel:
            X = ML.fresh_mat(I, 'K', (n, n)); m = n
            I.assume(T(ML.mat_of(I, X)) == ML.mat_of(I, X))
        else: X = ML.fresh_mat(I, 'X', (n, m))
        Y = ML.fresh_mat(I, 'Y', (n, p)); W = ML.fresh_mat(I, 'W', (n, p))
        Xm, Ym, Wm = ML.mat_of(I, X), ML.mat_of(I, Y), ML.mat_of(I, W)
        alpha, tol = I.fresh('mixing', RealS), I.fresh('tol', RealS); I.assume(And(0 <= alpha, alpha <= 1, tol >= 0))
        I.cur['krrstub'] = skstubs.StubObj(kind='KernelRidge', dual_coef_=W)
        cls = I.repo.get(KP)
        kw = dict(mixing=alpha, n_components=k, tol=tol, svd_solver='full', center=center, kernel=('precomputed' if precomputed_kernel else 'rbf'), gamma=I.fresh('gamma', RealS))
        me = I.instantiate(cls, [], kw)
        if stale:
            # the same object was fitted earlier with center=True on a training set of another size: its centerer_ is still there (fit with center=False
            # neither uses nor removes it).  Nothing computed by this fit or by transform/predict/score afterwards may depend on it.
            kn = I.instantiate(I.repo.get('skmatter.preprocessing._data.KernelNormalizer'), [], {})
            I.O(kn).attrs['n_features_in_'] = I.fresh('n_train_of_the_earlier_fit', IntS); I.O(kn).attrs['scale_'] = I.fresh('stale_scale', RealS)
            I.O(me).attrs['centerer_'] = kn
        r = I.call_func(I.find_method(cls, 'fit'), [me, X, Y], {})
        o = I.O(me)
        I.ob('post[C09]:fit-returns-self', BoolVal(isinstance(r, ObjRef) and r.id == me.id), kind='post')
        Kraw = Xm if precomputed_kernel else KERN(Xm, Xm)
        K = CENT(Kraw) if center else Kraw
        kc = I.cur['kernel_calls'][0]
        I.ob('post[C05]:training-kernel-is-the-configured-kernel-of-the-training-data', BoolVal(kc[0].id == X.id and kc[1] is None and kc[2] == kw['kernel'] and z3.eq(tz(kc[3].get('gamma')), tz(kw['gamma']))), kind='post')
        rg, Ka, Xa, ya = I.cur['krr_args']
        I.ob('post[C05]:regressor-is-fitted-on-the-(centred)-training-kernel', And(ML.mat_of(I, Ka) == K, BoolVal(ya.id == Y.id)), kind='post')
        Yh = mul(K, Wm)
        Kt = add(smul(alpha, K), smul(1 - alpha, mul(Yh, T(Yh))))
        I.ob('post[C05]:decomposed-matrix-is-alpha-K-plus-(1-alpha)-Yhat-Yhatt-with-Yhat=K-W', I.cur['Mdec'] == Kt, kind='post')
        DS, Sf, V = I.cur['DS'], I.cur['S'], I.cur['V']
        Dq = I.cur['diags'][-1]      # sqrt(diagflat(S_inv))
        I.ob('post[C05]:scaling-matrix-is-S^-1/2-with-the-tolerance-cut', ForAll([i_], Implies(And(0 <= i_, i_ < k), at(Dq, i_, i_) == npstubs.SQRT(If(Sf(i_) > tol, 1 / Sf(i_), RealVal(0))))), kind='post')
        Pm = add(smul(alpha, Id(n)), smul(1 - alpha, mul(Wm, T(Yh))))
        pkt = ML.mat_of(I, o.attrs['pkt_'])
        I.ob('post[C05]:projector-kernel-to-latent-is-(alpha-I+(1-alpha)-W-Yhatt)-U-S^-1/2', pkt == mul(Pm, mul(T(V), Dq)), kind='post')
        Tl = mul(K, pkt)
        I.ob('post[C05]:other-projectors-are-pinv(T)-K-and-pinv(T)-Y', And(ML.mat_of(I, o.attrs['ptk_']) == mul(ML.pinv(Tl), K), ML.mat_of(I, o.attrs['pty_']) == mul(ML.pinv(Tl), Ym),
                                                                             ML.mat_of(I, o.attrs['pky_']) == mul(pkt, mul(ML.pinv(Tl), Ym))), kind='post')
        # route-independent characterisation (linear kernel: the same as sample-space PCovR's): K P = K~, so T = K~ U S^-1/2
        I.ob('post[C05]:training-projections-are-K~-U-S^-1/2', Tl == mul(Kt, mul(T(V), Dq)), kind='post')
        # held-out sets of ANY size: transform / predict / score
        nv = I.fresh('n_heldout', IntS); I.assume(nv >= 1)
        Xv = ML.fresh_mat(I, 'Xv', (nv, m)); Yv = ML.fresh_mat(I, 'Yv', (nv, p)); Xvm, Yvm = ML.mat_of(I, Xv), ML.mat_of(I, Yv)
        Xfit = ML.mat_of(I, o.attrs['X_fit_'])
        I.ob('post[C05]:stored-training-data-is-the-training-data', Xfit == Xm, kind='post')
        Kv_raw = Xvm if precomputed_kernel else KERN(Xvm, Xm)
        Kv = CENT(Kv_raw) if center else Kv_raw
        Tv = I.call_func(I.find_method(cls, 'transform'), [me, Xv], {})
        I.ob('post[C05]:transform-of-a-held-out-set-is-its-(centred)-kernel-to-the-training-set-times-pkt', ML.mat_of(I, Tv) == mul(Kv, pkt), kind='post')
        Yp = I.call_func(I.find_method(cls, 'predict'), [me, Xv], {})
        I.ob('post[C05]:predict-of-a-held-out-set-is-its-(centred)-kernel-times-pky', ML.mat_of(I, Yp) == mul(Kv, ML.mat_of(I, o.attrs['pky_'])), kind='post')
        if not precomputed_kernel:
            sc = I.call_func(I.find_method(cls, 'score'), [me, Xv, Yv], {})
            Kvv = CENT(KERN(Xvm, Xvm)) if center else KERN(Xvm, Xvm)
            tn = mul(K, pkt); tv = mul(Kv, pkt)
            G = ML.pinv(mul(T(tn), tn))
            w = mul(tn, mul(G, T(tv)))
            lk = tr(add(sub(Kvv, smul(2, mul(Kv, w))), mul(T(w), mul(K, w)))) / tr(Kvv)
            lr = fro2(sub(Yvm, mul(Kv, ML.mat_of(I, o.attrs['pky_'])))) / fro2(Yvm)
            I.ob('post[C05]:score-is-minus-(documented-kernel-loss-plus-relative-regression-loss)', Implies(And(tr(Kvv) != 0, fro2(Yvm) > 0), tz(sc) == -(lk + lr)), kind='post')
    funcs = {KP + '._decompose_full': P.decompose_contract(), KP + '._decompose_truncated': P.decompose_contract(), 'skmatter.utils._pcovr_utils.check_krr_fit': krr_contract()}
    funcs.update(normalizer_contracts())
    return Unit(f"KernelPCovR[{'precomputed' if precomputed_kernel else 'named-kernel'},center={center}{',refit-after-center=True' if stale else ''}]", body, funcs=funcs,
                functions=[KP + '.fit', KP + '._fit', KP + '._get_kernel', KP + '.transform', KP + '.predict', KP + '.score'])

from contracts import decomp as D
_base_extend_ext = extend_ext
def extend_ext(ext):
    _base_extend_ext(ext); D.extend_ext(ext)
UNITS = [lambda: u_fit(False), lambda: u_fit(True), lambda: u_fit(False, True), lambda: u_fit(True, True), lambda: u_fit(False, False, True)] + list(D.KUNITS)
RT = True
TRUSTED = ['matrix layer (see C03)', 'assumed contracts (conformance-tested at run time): pairwise_kernels(X, Y) = KERN(X, Y) depends only on the two sample sets and the kernel parameters, precomputed returns X; spectral decomposition as in C03; KernelNormalizer.fit_transform/transform = CENT (C12), transform needs n_train columns; lstsq = pinv; check_krr_fit returns a fitted kernel ridge (dual_coef_)',
           'linear kernel = sample-space PCovR and mixing=1 = kernel PCA: both reduce to T = K~ U S^-1/2 with the same leading eigenpairs (proved characterisation) + uniqueness up to sign (cited); KRR primal-dual relation assumed; numerical agreement bounded (runtime)']
