"""C19 (second module, own numpy model) — what DirectionalConvexHull hands to Qhull / the interpolator and what it keeps from them (data flow of fit, score_samples,
score_feature_matrix; skmatter/sample_selection/_base.py), for every number of samples and features and 1 or 2 hull dimensions at arbitrary column positions in arbitrary order.

fit:   the hull is built on the matrix [y | X[:, low_dim_idx]] (target first, then the low-dimensional columns IN THE GIVEN ORDER); the stored facets are exactly the facets whose
       normal has a negative target component (the lower hull), with their equations; selected_idx_ = the distinct vertex indices of those facets in increasing order (every vertex
       of a lower facet is selected, every selected sample is a vertex of one); high_dim_idx_ = the complement of low_dim_idx (increasing); the interpolator is built on the
       low-dimensional coordinates (same column order) and the high-dimensional features of the SELECTED samples.
score_samples: evaluates the directional distance on [y | X[:, low_dim_idx]] in the same layout, one value per sample.
score_feature_matrix: high-dimensional features minus the interpolator evaluated at the low-dimensional coordinates (same column order).
Qhull (ConvexHull: .equations, .simplices) and the interpolator are external objects: their outputs are arbitrary arrays of the documented shapes."""
from pyvc.api import *
from pyvc import skstubs
from pyvc.engine import ExtNS, ExtClass, Opaque

SB = 'skmatter.sample_selection._base'
DCH = SB + '.DirectionalConvexHull'
t_, p_ = Int('t'), Int('p')

def np_setdiff1d(I, a, b, **kw):
    npstubs.used('np.setdiff1d(np.arange(m), idx) (increasing complement of an index list)')
    A = I.A(a)
    if not (A.tag and A.tag[0] == 'arange'): raise Unsupported("setdiff1d form")
    m = tz(A.tag[1]); low = [tz(x) for x in (b if isinstance(b, (list, tuple)) else [])]
    if not low: raise Unsupported("setdiff1d of a symbolic list")
    k = I.fresh('n_high', IntS); f = I.fresh_fn('high', IntS, IntS); w = I.fresh_fn('highwit', IntS, IntS)
    notlow = lambda j: And(*[j != l for l in low])
    I.assume(And(k >= 0, k <= m))
    I.assume(ForAll([t_], Implies(And(0 <= t_, t_ < k), And(0 <= f(t_), f(t_) < m, notlow(f(t_)), w(f(t_)) == t_)), patterns=[f(t_)]))
    I.assume(ForAll([t_, p_], Implies(And(0 <= t_, t_ < p_, p_ < k), f(t_) < f(p_)), patterns=[z3.MultiPattern(f(t_), f(p_))]))
    I.assume(ForAll([p_], Implies(And(0 <= p_, p_ < m, notlow(p_)), And(0 <= w(p_), w(p_) < k, f(w(p_)) == p_)), patterns=[w(p_)]))
    I.cur['complement'] = dict(w=w)
    return I.new_arr(ArrVal((conc(k),), lambda t: f(tz(t)), IntS, ('complement', m, low)))

def np_arange(I, n, *a, **kw):
    if a or kw: raise Unsupported("arange form")
    return I.new_arr(ArrVal((n,), lambda i: tz(i), IntS, ('arange', tz(n))))

def np_unique(I, a, **kw):
    npstubs.used('np.unique (sorted distinct values)')
    A = I.A(a)
    if A.ndim != 1 or kw: raise Unsupported("unique form")
    n = tz(A.shape[0]); u = I.fresh('n_unique', IntS); f = I.fresh_fn('uniq', IntS, IntS); src = I.fresh_fn('uniqsrc', IntS, IntS); pos = I.fresh_fn('uniqpos', IntS, IntS)
    I.assume(And(u >= 0, u <= n))
    I.assume(ForAll([t_], Implies(And(0 <= t_, t_ < u), And(0 <= src(t_), src(t_) < n, f(t_) == A.elem(src(t_)))), patterns=[f(t_)]))          # every value comes from the input
    I.assume(ForAll([t_, p_], Implies(And(0 <= t_, t_ < p_, p_ < u), f(t_) < f(p_)), patterns=[z3.MultiPattern(f(t_), f(p_))]))                    # strictly increasing
    I.assume(ForAll([p_], Implies(And(0 <= p_, p_ < n), And(0 <= pos(p_), pos(p_) < u, f(pos(p_)) == A.elem(p_))), patterns=[A.elem(p_)]))       # every input value is kept
    I.cur['unique'] = dict(inp=A, out=f, n=u, src=src, pos=pos)
    return I.new_arr(ArrVal((conc(u),), lambda t: f(tz(t)), IntS, ('unique', a)))

def np_hstack(I, seq, **kw):
    npstubs.used('np.hstack of two matrices')
    if not isinstance(seq, (list, tuple)) or len(seq) != 2: raise Unsupported("hstack form")
    A, B = I.A(seq[0]), I.A(seq[1])
    if A.ndim != 2 or B.ndim != 2: raise Unsupported("hstack of non-matrices")
    sd = npstubs.same_dim(A.shape[0], B.shape[0])
    if sd is False: raise RaiseEx('ValueError')
    if sd is None: I.ob('shape:np.hstack same number of rows', tz(A.shape[0]) == tz(B.shape[0]), kind='shape')
    ca = tz(A.shape[1])
    return I.new_arr(ArrVal((A.shape[0], conc(z3.simplify(ca + tz(B.shape[1])))), lambda i, j: If(tz(j) < ca, A.elem(tz(i), tz(j)), B.elem(tz(i), tz(j) - ca)), RealS))

def getitem(I, b, ix, node=None):
    A = I.A(b) if isinstance(b, ArrRef) else None
    # rows selected by an index array, all columns from the second on: M[idx, 1:]
    if A is not None and A.ndim == 2 and isinstance(ix, tuple) and len(ix) == 2 and isinstance(ix[0], ArrRef) and isinstance(ix[1], slice) and ix[1].stop is None and ix[1].step is None and ix[1].start is not None and conc(ix[1].start) == 1:
        J = I.A(ix[0])
        I.ob('index:selected-rows-within-the-matrix', ForAll([t_], Implies(And(0 <= t_, t_ < tz(J.shape[0])), And(0 <= J.elem(t_), J.elem(t_) < tz(A.shape[0])))), kind='index')
        return I.new_arr(ArrVal((J.shape[0], conc(z3.simplify(tz(A.shape[1]) - 1))), lambda i, j: A.elem(J.elem(tz(i)), tz(j) + 1), A.sort))
    return I.cur['prev_getitem'](I, b, ix, node)

def extend_ext(ext):
    skstubs.install(ext)
    pg = ext['arr_getitem']
    def g(I, b, ix, node=None):
        I.cur['prev_getitem'] = pg; return getitem(I, b, ix, node)
    ext['arr_getitem'] = g
    np_ = ext['modules']['np']
    np_.setdiff1d = np_setdiff1d; np_.arange = np_arange; np_.unique = np_unique; np_.hstack = np_hstack
    np_.isnan = lambda I, a: I.fresh_arr('isnan', I.A(a).shape, BoolS)
    pabs = np_.abs
    np_.abs = lambda I, a: pabs(I, npstubs.from_list(I, a) if isinstance(a, (list, tuple)) else a)
    ext['arr_attrs'] = dict(ext['arr_attrs'])
    prev_reshape = ext['arr_attrs']['reshape']
    def reshape_attr(I, a):
        def f(I2, *shape, **kw):
            A = I2.A(a); shp = tuple(shape[0]) if len(shape) == 1 and isinstance(shape[0], (tuple, list)) else tuple(shape)
            if A.ndim == 1 and len(shp) == 2 and conc(shp[0]) == -1 and conc(shp[1]) == 1:
                return I2.new_arr(ArrVal((A.shape[0], 1), lambda x, y: A.elem(tz(x)), A.sort))
            if A.ndim == 2 and len(shp) == 1 and conc(shp[0]) == -1 and conc(A.shape[1]) == 1:
                return I2.new_arr(ArrVal((A.shape[0],), lambda x: A.elem(tz(x), IntVal(0)), A.sort))
            return prev_reshape(I2, a)(I2, *shape, **kw)
        return f
    ext['arr_attrs']['reshape'] = reshape_attr
    def flatten_attr(I, a):
        def f(I2, *args, **kw):
            A = I2.A(a)
            if A.ndim == 2 and not is_sym(conc(A.shape[1])):
                w = conc(A.shape[1])
                return I2.new_arr(ArrVal((conc(z3.simplify(tz(A.shape[0]) * w)),), lambda p: A.elem(tz(p) / w, tz(p) % w), A.sort))
            return npstubs.np_ravel(I2, a)
        return f
    ext['arr_attrs']['flatten'] = flatten_attr
    pany = np_.any
    np_.any = lambda I, a, axis=None, **kw: (I.fresh('any', BoolS) if isinstance(a, ArrRef) and I.A(a).ndim == 2 and axis is None else pany(I, a, axis=axis, **kw))
    def convex_hull(I, data, incremental=False, **kw):
        npstubs.used('scipy.spatial.ConvexHull (external: facets as arbitrary arrays of the documented shapes)')
        D = I.A(data); n, w = D.shape
        F = I.fresh('n_facets', IntS); I.assume(F >= 1)
        eq = I.fresh_arr('equations', (F, conc(z3.simplify(tz(w) + 1)))); sx = I.fresh_arr('simplices', (F, w), IntS); S = I.A(sx)
        a, b = Int('a!s'), Int('b!s')
        I.assume(ForAll([a, b], Implies(And(0 <= a, a < F, 0 <= b, b < tz(w)), And(0 <= S.elem(a, b), S.elem(a, b) < tz(n))), patterns=[S.elem(a, b)]))
        I.cur['hull'] = dict(data=D, data_ref=data, incremental=incremental, equations=eq, simplices=sx, F=F)
        return skstubs.StubObj(kind='ConvexHull', equations=eq, simplices=sx)
    ch = ExtClass('ConvexHull'); ch.ctor = convex_hull
    ext['names']['scipy.spatial.ConvexHull'] = ch
    for k in ('scipy.interpolate.interpnd._ndim_coords_from_arrays', 'scipy.interpolate.LinearNDInterpolator', 'scipy.interpolate.interp1d'):
        ext['names'].setdefault(k, ExtClass(k.split('.')[-1]))

def interp_contract():
    def make_result(I, F):
        I.cur['interp_args'] = (I.A(F['points']), I.A(F['values']))
        def call(I2, pts):
            I2.cur['interp_call'] = I2.A(pts)
            r = I2.fresh_arr('interpolated', (I2.A(pts).shape[0], I2.cur['n_high'])); I2.cur['interp_out'] = I2.A(r)
            return r
        return call
    return FuncContract(make_result=make_result)

def setup(I, hd):
    n, m = I.fresh('n', IntS), I.fresh('m', IntS); I.assume(And(n >= 1, m >= hd))
    low = [I.fresh(f'low{k}', IntS) for k in range(hd)]
    for l in low: I.assume(And(0 <= l, l < m))
    if hd == 2: I.assume(low[0] != low[1])
    X = I.fresh_arr('X', (n, m)); y = I.fresh_arr('y', (n,))
    I.cur = {}
    return n, m, low, X, y

def u_fit(hd):
    q = DCH + '.fit'
    def body(I):
        n, m, low, X, y = setup(I, hd)
        X0, y0 = I.A(X), I.A(y)
        cls = I.repo.get(DCH)
        me = I.instantiate(cls, [], dict(low_dim_idx=list(low)))
        r = I.call_func(I.find_method(cls, 'fit'), [me, X, y], {})
        o = I.O(me); H = I.cur.get('hull')
        I.ob('post[C09]:fit-returns-self', BoolVal(isinstance(r, ObjRef) and r.id == me.id), kind='post')
        I.ob('post[C19]:the-hull-is-built-once', BoolVal(H is not None), kind='post')
        if H is None: return
        Dm = H['data']; i = I.fresh('i', IntS); I.assume(And(0 <= i, i < n))
        I.ob('post[C19]:hull-data-is-the-target-followed-by-the-low-dimensional-columns-in-the-given-order',
             And(tz(Dm.shape[0]) == n, tz(Dm.shape[1]) == hd + 1, Dm.elem(i, IntVal(0)) == y0.elem(i), *[Dm.elem(i, IntVal(k + 1)) == X0.elem(i, low[k]) for k in range(hd)]), kind='post')
        E, S = I.A(H['equations']), I.A(H['simplices']); F = H['F']
        Ed, Sd = I.A(o.attrs['_directional_equations_']), I.A(o.attrs['directional_simplices_'])
        fd = tz(Ed.shape[0]); a = I.fresh('a', IntS); I.assume(And(0 <= a, a < fd))
        c = I.fresh('c', IntS); I.assume(And(0 <= c, c < hd + 2)); v = I.fresh('v', IntS); I.assume(And(0 <= v, v < hd + 1))
        sel_tag = Ed.tag
        I.ob('post[C19]:stored-equations-and-simplices-belong-to-the-same-facets', And(tz(Sd.shape[0]) == fd, tz(Sd.shape[1]) == hd + 1, tz(Ed.shape[1]) == hd + 2), kind='post')
        # the stored facets are an increasing enumeration FA of the facets with a negative target component of the normal
        fa = Int('fa!w')
        I.ob('post[C19]:every-stored-facet-is-a-lower-facet-of-the-hull (negative target component of its normal)',
             Exists([fa], And(0 <= fa, fa < F, E.elem(fa, IntVal(0)) < 0, Ed.elem(a, c) == E.elem(fa, c), Sd.elem(a, v) == S.elem(fa, v))), kind='post')
        f0 = I.fresh('f0', IntS); I.assume(And(0 <= f0, f0 < F, E.elem(f0, IntVal(0)) < 0))
        aa = Int('aa!w')
        I.ob('post[C19]:every-lower-facet-of-the-hull-is-stored', Exists([aa], And(0 <= aa, aa < fd, ForAll([p_], Implies(And(0 <= p_, p_ < hd + 1), Sd.elem(aa, p_) == S.elem(f0, p_))))), kind='post')
        sel = I.A(o.attrs['selected_idx_']); ns = tz(sel.shape[0]); s0 = I.fresh('s0', IntS); I.assume(And(0 <= s0, s0 < ns))
        I.ob('post[C19]:every-selected-sample-is-a-vertex-of-a-stored-lower-facet', And(0 <= sel.elem(s0), sel.elem(s0) < n, Exists([aa, p_], And(0 <= aa, aa < fd, 0 <= p_, p_ < hd + 1, Sd.elem(aa, p_) == sel.elem(s0)))), kind='post')
        uq = I.cur.get('unique')
        wpos = uq['pos'](a * (hd + 1) + v) if uq else IntVal(-1)          # explicit witness: the position np.unique gives to entry (a, v) of the flattened vertex table
        I.ob('post[C19]:every-vertex-of-a-stored-lower-facet-is-selected', And(0 <= wpos, wpos < ns, sel.elem(wpos) == Sd.elem(a, v)), kind='post')
        s1 = I.fresh('s1', IntS); I.assume(And(s0 < s1, s1 < ns))
        I.ob('post[C19]:selected-indices-are-distinct-and-increasing', sel.elem(s0) < sel.elem(s1), kind='post')
        hi = I.A(o.attrs['high_dim_idx_']); nh = tz(hi.shape[0]); h0 = I.fresh('h0', IntS); I.assume(And(0 <= h0, h0 < nh))
        j0 = I.fresh('j0', IntS); I.assume(And(0 <= j0, j0 < m, *[j0 != l for l in low]))
        I.ob('post[C19]:high-dimensional-columns-are-none-of-the-low-dimensional-ones', And(0 <= hi.elem(h0), hi.elem(h0) < m, *[hi.elem(h0) != l for l in low]), kind='post')
        wj = I.cur['complement']['w'](j0) if I.cur.get('complement') else IntVal(-1)          # explicit witness: the position of column j0 in the complement
        I.ob('post[C19]:every-other-column-is-a-high-dimensional-column', And(0 <= wj, wj < nh, hi.elem(wj) == j0), kind='post')
        ia = I.cur.get('interp_args')
        I.ob('post[C19]:the-interpolator-is-built-once', BoolVal(ia is not None), kind='post')
        if ia is not None:
            P, V = ia
            I.ob('post[C19]:interpolator-nodes-are-the-low-dimensional-coordinates-of-the-selected-samples-in-the-given-column-order',
                 And(tz(P.shape[0]) == ns, tz(P.shape[1]) == hd, *[P.elem(s0, IntVal(k)) == X0.elem(sel.elem(s0), low[k]) for k in range(hd)]), kind='post')
            I.ob('post[C19]:interpolator-values-are-the-high-dimensional-features-of-the-selected-samples', And(tz(V.shape[0]) == ns, tz(V.shape[1]) == nh, V.elem(s0, h0) == X0.elem(sel.elem(s0), hi.elem(h0))), kind='post')
        I.ob('post[C09]:the-data-of-the-caller-are-not-written', BoolVal(I.A(X) is X0 and I.A(y) is y0), kind='post')
    return Unit(f'DirectionalConvexHull.fit[{hd} hull dimension{"s" if hd > 1 else ""}]', body, funcs={SB + '._linear_interpolator': interp_contract()}, functions=[q])

def fitted(I, hd, n, m, low):
    cls = I.repo.get(DCH)
    me = I.instantiate(cls, [], dict(low_dim_idx=list(low)))
    o = I.O(me)
    nh = I.fresh('n_high', IntS); I.assume(nh == m - hd); I.cur['n_high'] = nh
    hi = I.fresh_arr('high_dim_idx', (nh,), IntS); Hh = I.A(hi)
    I.assume(ForAll([t_], Implies(And(0 <= t_, t_ < nh), And(0 <= Hh.elem(t_), Hh.elem(t_) < m)), patterns=[Hh.elem(t_)]))
    def interp(I2, pts):
        I2.cur['interp_call'] = I2.A(pts)
        r = I2.fresh_arr('interpolated', (n, nh)); I2.cur['interp_out'] = I2.A(r); return r
    o.attrs.update(n_features_in_=m, high_dim_idx_=hi, interpolator_high_dim_=interp, selected_idx_=I.fresh_arr('sel', (I.fresh('ns', IntS),), IntS),
                   _directional_equations_=I.fresh_arr('eqs', (I.fresh('fd', IntS), hd + 2)))
    return cls, me, hi

def u_score_samples(hd):
    q = DCH + '.score_samples'
    def dist_contract():
        def make_result(I, F):
            I.cur['dist_arg'] = I.A([v for k, v in F.items() if k != 'self' and not k.startswith('$') and isinstance(v, ArrRef)][0])
            r = I.fresh_arr('distance', (I.cur['dist_arg'].shape[0],)); I.cur['dist_out'] = r; return r
        return FuncContract(make_result=make_result)
    def body(I):
        n, m, low, X, y = setup(I, hd); X0, y0 = I.A(X), I.A(y)
        cls, me, hi = fitted(I, hd, n, m, low)
        r = I.call_func(I.find_method(cls, 'score_samples'), [me, X, y], {})
        R = I.A(r); P = I.cur.get('dist_arg'); i = I.fresh('i', IntS); I.assume(And(0 <= i, i < n))
        I.ob('post[C19]:the-directional-distance-is-evaluated-once', BoolVal(P is not None), kind='post')
        if P is None: return
        I.ob('post[C19]:distances-are-evaluated-on-the-target-followed-by-the-low-dimensional-columns-in-the-order-used-by-fit',
             And(tz(P.shape[0]) == n, tz(P.shape[1]) == hd + 1, P.elem(i, IntVal(0)) == y0.elem(i), *[P.elem(i, IntVal(k + 1)) == X0.elem(i, low[k]) for k in range(hd)]), kind='post')
        I.ob('post[C19]:one-distance-per-sample-in-input-order', And(BoolVal(R.ndim == 1), tz(R.shape[0]) == n, R.elem(i) == I.A(I.cur['dist_out']).elem(i)), kind='post')
    return Unit(f'DirectionalConvexHull.score_samples[{hd} hull dimension{"s" if hd > 1 else ""}]', body, funcs={DCH + '._directional_convex_hull_distance': dist_contract()}, functions=[q])

def u_score_feature_matrix(hd):
    q = DCH + '.score_feature_matrix'
    def body(I):
        n, m, low, X, y = setup(I, hd); X0 = I.A(X)
        I.assume(m > hd)
        cls, me, hi = fitted(I, hd, n, m, low)
        r = I.call_func(I.find_method(cls, 'score_feature_matrix'), [me, X], {})
        R = I.A(r); P = I.cur.get('interp_call'); Hh = I.A(hi); nh = I.cur['n_high']
        i = I.fresh('i', IntS); c = I.fresh('c', IntS); I.assume(And(0 <= i, i < n, 0 <= c, c < nh))
        I.ob('post[C19]:the-interpolator-is-evaluated-once', BoolVal(P is not None), kind='post')
        if P is None: return
        if hd == 1: I.ob('post[C19]:interpolator-is-evaluated-at-the-low-dimensional-coordinate', And(BoolVal(P.ndim == 1), tz(P.shape[0]) == n, P.elem(i) == X0.elem(i, low[0])), kind='post')
        else: I.ob('post[C19]:interpolator-is-evaluated-at-the-low-dimensional-coordinates-in-the-order-used-by-fit', And(tz(P.shape[0]) == n, tz(P.shape[1]) == hd, *[P.elem(i, IntVal(k)) == X0.elem(i, low[k]) for k in range(hd)]), kind='post')
        I.ob('post[C19]:residual-is-the-high-dimensional-feature-minus-its-interpolation-on-the-hull', And(tz(R.shape[0]) == n, tz(R.shape[1]) == nh, R.elem(i, c) == X0.elem(i, Hh.elem(c)) - I.cur['interp_out'].elem(i, c)), kind='post')
    return Unit(f'DirectionalConvexHull.score_feature_matrix[{hd} hull dimension{"s" if hd > 1 else ""}]', body, functions=[q])

UNITS = [lambda: u_fit(1), lambda: u_fit(2), lambda: u_score_samples(1), lambda: u_score_samples(2), lambda: u_score_feature_matrix(1), lambda: u_score_feature_matrix(2)]
RT = False
TRUSTED = ["scipy.spatial.ConvexHull returns arbitrary facet arrays of the documented shapes (equations: n_facets x (hull dims + 2), simplices: n_facets x (hull dims + 1) with entries < n); "
           "np.unique = the increasing list of the distinct values; np.setdiff1d(arange(m), idx) = the increasing complement; np.where / fancy indexing as in the main module; the interpolator is an opaque callable"]
