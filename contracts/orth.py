"""Contracts for the orthogonalisers (C07; they are the modular callees assumed by the CUR units of C01/C08).

Real functions: skmatter/utils/_orthogonalizers.py: X_orthogonalizer (loop over the columns to project out), Y_feature_orthogonalizer, Y_sample_orthogonalizer."""
from pyvc.api import *
from pyvc import matlayer as ML, skstubs
from pyvc.matlayer import Mat, mul, add, sub, T, smul, Id, at, rows, cols, isdiag, tr, fro2
from pyvc.engine import ExtNS, ExtClass, Opaque
from contracts import pcovr as P

OQ = 'skmatter.utils._orthogonalizers'
i_, j_, r_ = Int('i'), Int('j'), Int('r')
COLOF = ML.COLOF
colof_axioms = ML.colof_axioms
RES = z3.Function('RES', IntS, Mat)                # spec: residual after projecting out the first i (normalised) columns

def norm_stub(I, a, axis=None, **kw):
    npstubs.used('np.linalg.norm (Frobenius / column norm of an (n,1) matrix)')
    A = I.A(a)
    M = ML.mat_of(I, a)
    nrm = npstubs.SQRT(fro2(M))
    if axis is None: return nrm
    if axis == 0 and conc(A.shape[1]) == 1: return I.new_arr(ArrVal((1,), lambda k: nrm, RealS))
    raise Unsupported("norm axis")

def divide_stub(I, a, b, **kw):
    npstubs.used('np.divide')
    A = I.A(a)
    if isinstance(b, ArrRef) and conc(I.A(b).shape[0]) == 1 and I.A(b).ndim == 1:
        return ML.mk(I, smul(1 / I.A(b).elem(0), ML.mat_of(I, a)), A.shape)
    raise Unsupported("np.divide form")

def extend_ext(ext):
    P.extend_ext(ext)
    ext['modules']['np'].linalg.norm = norm_stub
    ext['modules']['np'].divide = divide_stub
    ext['modules']['np'].matmul = lambda I, a, b, **k: npstubs.matmul(I, a, b, 'np.matmul')
    def pinv_stub(I, a, rcond=None, **kw):
        npstubs.used('np.linalg.pinv')
        A = I.A(a); return ML.mk(I, ML.pinv(ML.mat_of(I, a)), (A.shape[1], A.shape[0]))
    ext['modules']['np'].linalg.pinv = pinv_stub
    ext['arr_attrs'] = dict(ext['arr_attrs'])
    prev = ext['arr_attrs']['astype']
    ext['arr_attrs']['astype'] = lambda I, a: (lambda I2, dt, **k: a if ML.is_mat(I2, a) else prev(I2, a)(I2, dt, **k))

def u_x_orth(copy):
    q = OQ + '.X_orthogonalizer'
    def inv(I, F, i, g):
        Xn = ML.mat_of(I, F['xnew'])
        return [('[C07]running-residual-is-the-recursively-projected-input', Xn == RES(i)),
                ('[C07]shape-kept', And(rows(Xn) == I.cur['n'], cols(Xn) == I.cur['m']))]
    def body(I):
        n, m, c = I.fresh('n', IntS), I.fresh('m', IntS), I.fresh('c', IntS)
        I.assume(And(n >= 1, m >= 1, 0 <= c, c < m))
        I.use_axioms('entries', ML.axioms('entries') + colof_axioms()); I.use_axioms('ring', ML.axioms('ring'))
        I.cur = dict(n=n, m=m)
        X = ML.fresh_mat(I, 'x1', (n, m)); Xm = ML.mat_of(I, X)
        tol = I.fresh('tol', RealS); I.assume(tol >= 0)
        col = COLOF(Xm, c)
        nrm = npstubs.SQRT(fro2(col))
        # spec of the projection step for the (single) selected column; the general loop is over RES
        chat = If(nrm < tol, col, smul(1 / nrm, col)) if False else None
        big = nrm >= tol
        ch = smul(1 / nrm, col)
        I.assume(RES(0) == Xm)
        I.assume(Implies(big, RES(1) == sub(Xm, mul(ch, mul(T(ch), Xm)))))
        I.assume(Implies(Not(big), RES(1) == sub(Xm, mul(col, mul(T(col), Xm)))))
        r = I.call_func(I.repo.get(q), [], dict(x1=X, c=c, tol=tol, copy=copy))
        Rm = ML.mat_of(I, r)
        I.ob('post[C07]:result-is-the-input-with-the-selected-column-projected-out', Rm == RES(1), kind='post')
        I.ob('post[C07]:copy-flag:' + ('input-left-untouched-and-a-new-array-returned' if copy else 'input-modified-in-place-and-returned'),
             BoolVal((r.id != X.id and ML.mat_of(I, X).eq(Xm)) if copy else (r.id == X.id)), kind='post')
        # orthogonality: in the normalising branch the selected direction is annihilated: c^T R = 0, and the selected column of R vanishes
        I.assume(big); I.assume(nrm > 0)
        hyp = mul(T(col), col) == smul(nrm * nrm, Id(1))          # ||col||^2 as a 1x1 matrix (definition of the Frobenius norm of a column)
        I.assume(hyp)
        inv = 1 / nrm
        I.assume(And(inv * nrm == 1, inv * (nrm * nrm) == nrm, nrm * inv == 1))      # arithmetic of the reciprocal of a positive number
        g1 = mul(T(col), ch) == smul(nrm, Id(1))
        I.ob('step:selected-column-times-its-unit-vector-is-its-norm', g1, kind='lemma'); I.assume(g1)
        g2 = mul(T(col), mul(ch, mul(T(ch), Xm))) == mul(T(col), Xm)
        I.ob('step:projection-onto-the-unit-vector-reproduces-the-component-along-the-column', g2, kind='lemma'); I.assume(g2)
        I.ob('post[C07]:residual-is-orthogonal-to-the-selected-column', mul(T(col), Rm) == ML.Zero(1, m), kind='post')
    return Unit(f'X_orthogonalizer[copy={copy}]', body, loops={(q, 0): LoopContract(inv)}, functions=[q])

UNITS = [lambda: u_x_orth(False), lambda: u_x_orth(True)]
RT = False
