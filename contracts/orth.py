"""Contracts for the orthogonalisers (C07; they are the modular callees assumed by the CUR units of C01/C08).

Real functions: skmatter/utils/_orthogonalizers.py: X_orthogonalizer (loop over the columns to project out), Y_feature_orthogonalizer, Y_sample_orthogonalizer."""
from pyvc.api import *
from pyvc import matlayer as ML, skstubs
from pyvc.matlayer import Mat, mul, add, sub, T, smul, Id, at, rows, cols, isdiag, tr, fro2
from pyvc.engine import ExtNS, ExtClass, Opaque
from contracts import pcovr as P

OQ = 'skmatter.utils._orthogonalizers'
i_, j_, r_ = Int('i'), Int('j'), Int('r')
COLOF = ML.COLOF
colof_axioms = ML.colof_axioms
RES = z3.Function('RES', IntS, Mat)
ZCOL = z3.Function('ZCOL', Mat, IntS, Mat)              # the matrix with column c set to zero (the store `xnew[:, c] = 0`)

def local_axioms():
    """facts about columns, zero matrices and 1x1 matrices used only here (all hold in the standard model of matrices)"""
    A, B = z3.Consts('A!o B!o', Mat); c = z3.Real('c!o'); n, m, i = z3.Ints('n!o m!o i!o')
    Zero = ML.Zero
    return [ForAll([A, B, i], COLOF(sub(A, B), i) == sub(COLOF(A, i), COLOF(B, i)), patterns=[COLOF(sub(A, B), i)]),
            ForAll([A, B, i], COLOF(mul(A, B), i) == mul(A, COLOF(B, i)), patterns=[COLOF(mul(A, B), i)]),
            ForAll([A, B, i], mul(A, COLOF(B, i)) == COLOF(mul(A, B), i), patterns=[mul(A, COLOF(B, i))]),
            ForAll([c, A, i], COLOF(smul(c, A), i) == smul(c, COLOF(A, i)), patterns=[COLOF(smul(c, A), i)]),
            ForAll([n, m, i], Implies(And(0 <= i, i < m, n >= 0), COLOF(Zero(n, m), i) == Zero(n, 1)), patterns=[COLOF(Zero(n, m), i)]),
            ForAll([A, n, m], Implies(And(cols(A) == n, m >= 0), mul(A, Zero(n, m)) == Zero(rows(A), m)), patterns=[mul(A, Zero(n, m))]),
            ForAll([B, n, m], Implies(And(rows(B) == m, n >= 0), mul(Zero(n, m), B) == Zero(n, cols(B))), patterns=[mul(Zero(n, m), B)]),
            ForAll([A, n, m], Implies(And(rows(A) == n, cols(A) == m), sub(A, Zero(n, m)) == A), patterns=[sub(A, Zero(n, m))]),
            ForAll([c, n, m], smul(c, Zero(n, m)) == Zero(n, m), patterns=[smul(c, Zero(n, m))]),
            ForAll([n, m], Implies(And(n >= 0, m >= 0), T(Zero(n, m)) == Zero(m, n)), patterns=[T(Zero(n, m))]),
            ForAll([A], Implies(And(rows(A) == 1, cols(A) == 1), A == smul(tr(A), Id(1))), patterns=[tr(A)]),
            # zeroing a column: shape kept; the other columns kept; zeroing a column that is already zero changes nothing (column-wise extensionality)
            ForAll([A, i], And(rows(ZCOL(A, i)) == rows(A), cols(ZCOL(A, i)) == cols(A)), patterns=[ZCOL(A, i)]),
            ForAll([A, i, n], Implies(And(0 <= n, n < cols(A)), COLOF(ZCOL(A, i), n) == If(n == i, Zero(rows(A), 1), COLOF(A, n))), patterns=[COLOF(ZCOL(A, i), n)]),
            ForAll([A, i], Implies(COLOF(A, i) == Zero(rows(A), 1), ZCOL(A, i) == A), patterns=[ZCOL(A, i)])]                # spec: residual after projecting out the first i (normalised) columns

def norm_stub(I, a, axis=None, **kw):
    npstubs.used('np.linalg.norm (Frobenius / column norm of an (n,1) matrix)')
    A = I.A(a)
    M = ML.mat_of(I, a)
    nrm = npstubs.SQRT(fro2(M))
    if axis is None: return nrm
    if axis == 0 and conc(A.shape[1]) == 1: return I.new_arr(ArrVal((1,), lambda k: nrm, RealS))
    raise Unsupported("norm axis")

def divide_stub(I, a, b, **kw):
    npstubs.used('np.divide')
    A = I.A(a)
    if isinstance(b, ArrRef) and conc(I.A(b).shape[0]) == 1 and I.A(b).ndim == 1:
        return ML.mk(I, smul(1 / I.A(b).elem(0), ML.mat_of(I, a)), A.shape)
    raise Unsupported("np.divide form")

def extend_ext(ext):
    P.extend_ext(ext)
    ext['modules']['np'].linalg.norm = norm_stub
    ext['modules']['np'].divide = divide_stub
    ext['modules']['np'].matmul = lambda I, a, b, **k: npstubs.matmul(I, a, b, 'np.matmul')
    def pinv_stub(I, a, rcond=None, **kw):
        npstubs.used('np.linalg.pinv')
        A = I.A(a); return ML.mk(I, ML.pinv(ML.mat_of(I, a)), (A.shape[1], A.shape[0]))
    ext['modules']['np'].linalg.pinv = pinv_stub
    prev_set = ext['arr_setitem']
    def setitem(I, b, ix, v, node=None):
        # `M[:, c] = 0` on a matrix: the matrix with column c zeroed
        if ML.is_mat(I, b) and isinstance(ix, tuple) and len(ix) == 2 and isinstance(ix[0], slice) and ix[0] == slice(None) and not isinstance(ix[1], (slice, ArrRef, list, tuple)) \
                and not isinstance(v, ArrRef) and not is_sym(v) and v == 0:
            A = I.A(b); c = tz(ix[1])
            I.ob('index:zeroed-column-in-range', And(0 <= c, c < tz(A.shape[1])), kind='index')
            M2 = ZCOL(A.tag[1], c)
            I.st.heap[b.id] = ArrVal(A.shape, lambda i, j: at(M2, tz(i), tz(j)), RealS, ('mat', M2))
            return
        return prev_set(I, b, ix, v, node)
    ext['arr_setitem'] = setitem
    ext['arr_attrs'] = dict(ext['arr_attrs'])
    prev = ext['arr_attrs']['astype']
    ext['arr_attrs']['astype'] = lambda I, a: (lambda I2, dt, **k: a if ML.is_mat(I2, a) else prev(I2, a)(I2, dt, **k))

def u_x_orth(copy):
    q = OQ + '.X_orthogonalizer'
    def inv(I, F, i, g):
        Xn = ML.mat_of(I, F['xnew'])
        return [('[C07]running-residual-is-the-recursively-projected-input', Xn == RES(i)),
                ('[C07]shape-kept', And(rows(Xn) == I.cur['n'], cols(Xn) == I.cur['m']))]
    def body(I):
        n, m, c = I.fresh('n', IntS), I.fresh('m', IntS), I.fresh('c', IntS)
        I.assume(And(n >= 1, m >= 1, 0 <= c, c < m))
        I.use_axioms('entries', ML.axioms('entries') + colof_axioms() + local_axioms()); I.use_axioms('ring', ML.axioms('ring'))
        I.cur = dict(n=n, m=m)
        X = ML.fresh_mat(I, 'x1', (n, m)); Xm = ML.mat_of(I, X)
        tol = I.fresh('tol', RealS); I.assume(tol >= 0)
        col = COLOF(Xm, c)
        nrm = npstubs.SQRT(fro2(col))
        # spec of the projection step for the (single) selected column; the general loop is over RES
        chat = If(nrm < tol, col, smul(1 / nrm, col)) if False else None
        big = nrm >= tol
        ch = smul(1 / nrm, col)
        I.assume(RES(0) == Xm)
        I.assume(Implies(big, RES(1) == sub(Xm, mul(ch, mul(T(ch), Xm)))))
        I.assume(Implies(Not(big), RES(1) == sub(Xm, mul(col, mul(T(col), Xm)))))
        r = I.call_func(I.repo.get(q), [], dict(x1=X, c=c, tol=tol, copy=copy))
        Rm = ML.mat_of(I, r)
        I.ob('post[C07]:result-is-the-input-with-the-selected-column-projected-out-and-then-zeroed-exactly', Rm == ZCOL(RES(1), c), kind='post')
        I.ob('post[C07]:copy-flag:' + ('input-left-untouched-and-a-new-array-returned' if copy else 'input-modified-in-place-and-returned'),
             BoolVal((r.id != X.id and ML.mat_of(I, X).eq(Xm)) if copy else (r.id == X.id)), kind='post')
        # orthogonality: in the normalising branch the selected direction is annihilated: c^T R = 0, and the selected column of R vanishes
        I.assume(big); I.assume(nrm > 0)
        hyp = mul(T(col), col) == smul(nrm * nrm, Id(1))          # ||col||^2 as a 1x1 matrix (definition of the Frobenius norm of a column)
        h0 = And(rows(mul(T(col), col)) == 1, cols(mul(T(col), col)) == 1, tr(mul(T(col), col)) == nrm * nrm)
        ia = And(fro2(col) == tr(mul(T(col), col)), fro2(col) >= 0)                  # instances at `col` of the matrix-layer axioms fro2(A) = tr(A^T A) >= 0
        ib = Implies(fro2(col) >= 0, And(nrm >= 0, nrm * nrm == fro2(col)))         # instance of the square-root axiom (nrm is sqrt(fro2(col)) by definition)
        I.assume(ia); I.assume(ib)
        I.ob('step:trace-of-the-1x1-product-is-the-squared-norm:dimensions', And(rows(mul(T(col), col)) == 1, cols(mul(T(col), col)) == 1), kind='lemma')
        I.ob('step:trace-of-the-1x1-product-is-the-squared-norm', tr(mul(T(col), col)) == nrm * nrm, kind='lemma', using=[ia, ib]); I.assume(h0)
        I.ob('step:squared-norm-of-the-column-as-a-1x1-product', hyp, kind='lemma'); I.assume(hyp)
        inv = 1 / nrm
        I.assume(And(inv * nrm == 1, inv * (nrm * nrm) == nrm, nrm * inv == 1))      # arithmetic of the reciprocal of a positive number
        g1 = mul(T(col), ch) == smul(nrm, Id(1))
        I.ob('step:selected-column-times-its-unit-vector-is-its-norm', g1, kind='lemma'); I.assume(g1)
        g2 = mul(T(col), mul(ch, mul(T(ch), Xm))) == mul(T(col), Xm)
        I.ob('step:projection-onto-the-unit-vector-reproduces-the-component-along-the-column', g2, kind='lemma'); I.assume(g2)
        Zn1 = ML.Zero(n, 1)
        g3 = mul(ch, mul(T(ch), col)) == col
        I.ob('step:the-column-is-its-own-projection', g3, kind='lemma'); I.assume(g3)
        g4 = COLOF(RES(1), c) == Zn1
        I.ob('step:selected-column-of-the-projected-input-is-zero (the explicit zeroing only removes round-off)', g4, kind='lemma'); I.assume(g4)
        I.assume(Rm == ZCOL(RES(1), c))
        g5 = Rm == RES(1)
        I.ob('post[C07]:result-is-the-input-with-the-selected-column-projected-out', g5, kind='post'); I.assume(g5)
        I.ob('post[C07]:residual-is-orthogonal-to-the-selected-column', mul(T(col), Rm) == ML.Zero(1, m), kind='post')
        I.ob('post[C07]:selected-column-of-the-result-is-zero', COLOF(Rm, c) == Zn1, kind='post')
        v = I.fresh('v', Mat); I.assume(And(rows(v) == n, cols(v) == 1))
        # induction step for all earlier selections: a direction orthogonal to the input stays orthogonal to the result
        I.assume(mul(T(v), Xm) == ML.Zero(1, m))
        for nm, g in [('orthogonal-direction-annihilates-the-selected-column', mul(T(v), col) == ML.Zero(1, 1)),
                      ('...and-its-unit-vector', mul(T(v), ch) == ML.Zero(1, 1)),
                      ('...and-the-projected-part', mul(T(v), mul(ch, mul(T(ch), Xm))) == ML.Zero(1, m))]:
            I.ob('step:' + nm, g, kind='lemma'); I.assume(g)
        I.ob('post[C07]:orthogonality-to-any-direction-is-inherited (induction step for all earlier selections)', mul(T(v), Rm) == ML.Zero(1, m), kind='post')
    return Unit(f'X_orthogonalizer[copy={copy}]', body, loops={(q, 0): LoopContract(inv)}, functions=[q])

def u_projector_view(copy):
    """Abstract view of the running residual: X_current = Pi X0 with Pi a symmetric idempotent matrix (orthogonal projector on the complement of the span
    of the selections).  One real call of X_orthogonalizer (normalising branch) maps the view Pi to Pi - q q^T, keeps it a symmetric projector, and so the
    residual stays orthogonal to every ORIGINAL selected column whose residual column has become zero."""
    q = OQ + '.X_orthogonalizer'
    def inv(I, F, i, g):
        Xn = ML.mat_of(I, F['xnew'])
        return [('[C07]running-residual-is-the-recursively-projected-input', Xn == RES(i)),
                ('[C07]shape-kept', And(rows(Xn) == I.cur['n'], cols(Xn) == I.cur['m']))]
    def body(I):
        n, m, c = I.fresh('n', IntS), I.fresh('m', IntS), I.fresh('c', IntS)
        I.assume(And(n >= 1, m >= 1, 0 <= c, c < m))
        I.use_axioms('entries', ML.axioms('entries') + colof_axioms() + local_axioms()); I.use_axioms('ring', ML.axioms('ring'))
        I.cur = dict(n=n, m=m)
        X0 = I.fresh('X0', Mat); Pi = I.fresh('Pi', Mat)
        I.assume(And(rows(X0) == n, cols(X0) == m, rows(Pi) == n, cols(Pi) == n, T(Pi) == Pi, mul(Pi, Pi) == Pi))
        X = ML.fresh_mat(I, 'x1', (n, m)); Xm = ML.mat_of(I, X)
        I.assume(Xm == mul(Pi, X0))
        tol = I.fresh('tol', RealS); I.assume(tol >= 0)
        col = COLOF(Xm, c); nrm = npstubs.SQRT(fro2(col)); ch = smul(1 / nrm, col)
        I.assume(And(nrm >= tol, nrm > 0))
        I.assume(RES(0) == Xm); I.assume(RES(1) == sub(Xm, mul(ch, mul(T(ch), Xm))))
        r = I.call_func(I.repo.get(q), [], dict(x1=X, c=c, tol=tol, copy=copy))
        Rm = ML.mat_of(I, r)
        g0 = Rm == ZCOL(RES(1), c)
        I.ob('post[C07]:result-is-the-input-with-the-selected-column-projected-out-and-then-zeroed-exactly', g0, kind='post'); I.assume(g0)
        inv_ = 1 / nrm
        I.assume(And(inv_ * nrm == 1, inv_ * (nrm * nrm) == nrm, nrm * inv_ == 1, inv_ * inv_ * (nrm * nrm) == 1))      # arithmetic of the reciprocal of a positive number
        ia = And(fro2(col) == tr(mul(T(col), col)), fro2(col) >= 0); ib = Implies(fro2(col) >= 0, And(nrm >= 0, nrm * nrm == fro2(col)))      # axiom instances at `col` (see u_x_orth)
        I.assume(ia); I.assume(ib)
        I.ob('step:pre:trace-is-the-squared-norm', tr(mul(T(col), col)) == nrm * nrm, kind='lemma', using=[ia, ib]); I.assume(tr(mul(T(col), col)) == nrm * nrm)
        for nm, f in [('trace-of-the-1x1-product-is-the-squared-norm', And(rows(mul(T(col), col)) == 1, cols(mul(T(col), col)) == 1, tr(mul(T(col), col)) == nrm * nrm)),
                      ('squared-norm-of-the-column-as-a-1x1-product', mul(T(col), col) == smul(nrm * nrm, Id(1))),
                      ('selected-column-times-its-unit-vector-is-its-norm', mul(T(col), ch) == smul(nrm, Id(1))),
                      ('the-column-is-its-own-projection', mul(ch, mul(T(ch), col)) == col),
                      ('selected-column-of-the-projected-input-is-zero (the explicit zeroing only removes round-off)', COLOF(RES(1), c) == ML.Zero(n, 1))]:
            I.ob('step:pre:' + nm, f, kind='lemma'); I.assume(f)
        g = Rm == RES(1)
        I.ob('post[C07]:result-is-the-input-with-the-selected-column-projected-out', g, kind='post'); I.assume(g)
        P2 = sub(Pi, mul(ch, T(ch)))
        steps = [('trace-of-the-1x1-product-is-the-squared-norm', And(rows(mul(T(col), col)) == 1, cols(mul(T(col), col)) == 1, tr(mul(T(col), col)) == nrm * nrm)),
                 ('squared-norm-of-the-column-as-a-1x1-product', mul(T(col), col) == smul(nrm * nrm, Id(1))),
                 ('selected-column-times-its-unit-vector-is-its-norm', mul(T(col), ch) == smul(nrm, Id(1))),
                 ('transposed-unit-vector', T(ch) == smul(1 / nrm, T(col))),
                 ('unit-vector-has-unit-norm', mul(T(ch), ch) == Id(1)),
                 ('selected-residual-column-lies-in-the-range-of-the-projector', mul(Pi, col) == col),
                 ('...so-does-its-unit-vector', mul(Pi, ch) == ch),
                 ('...and-transposed', mul(T(ch), Pi) == T(ch)),
                 ('rank-one-update-is-symmetric', T(mul(ch, T(ch))) == mul(ch, T(ch))),
                 ('rank-one-update-is-idempotent', mul(mul(ch, T(ch)), mul(ch, T(ch))) == mul(ch, T(ch))),
                 ('projector-absorbs-the-rank-one-update-left', mul(Pi, mul(ch, T(ch))) == mul(ch, T(ch))),
                 ('projector-absorbs-the-rank-one-update-right', mul(mul(ch, T(ch)), Pi) == mul(ch, T(ch)))]
        for nm, f in steps:
            I.ob('step:' + nm, f, kind='lemma'); I.assume(f)
        I.ob('post[C07]:view:new-projector-is-symmetric', T(P2) == P2, kind='post')
        I.ob('post[C07]:view:new-projector-is-idempotent', mul(P2, P2) == P2, kind='post')
        I.ob('post[C07]:view:result-is-the-new-projector-applied-to-the-original-input', Rm == mul(P2, X0), kind='post')
        # consequence for ANY symmetric projector view: a selected item whose residual column is zero is orthogonal (as an original column) to the residual
        j = I.fresh('j', IntS); I.assume(And(0 <= j, j < m))
        Pv = I.fresh('Pv', Mat); Rv = I.fresh('Rv', Mat)
        I.assume(And(rows(Pv) == n, cols(Pv) == n, T(Pv) == Pv, Rv == mul(Pv, X0), COLOF(Rv, j) == ML.Zero(n, 1)))
        for nm, f in [('zero-residual-column-as-projected-original-column', mul(Pv, COLOF(X0, j)) == ML.Zero(n, 1)),
                      ('...transposed', mul(T(COLOF(X0, j)), Pv) == ML.Zero(1, n))]:
            I.ob('step:' + nm, f, kind='lemma'); I.assume(f)
        I.ob('post[C07]:view:residual-is-orthogonal-to-every-original-selected-column', mul(T(COLOF(X0, j)), Rv) == ML.Zero(1, m), kind='post')
    return Unit(f'X_orthogonalizer[copy={copy}].projector-view', body, loops={(q, 0): LoopContract(inv)}, functions=[q])

def gram_pinv_axioms():
    """Moore-Penrose facts for the Gram matrix G = A^T A (range(A^T) = range(G)): A G^+ G = A and G G^+ A^T = A^T
    (Lean theorems gram_pinv_absorbs / gram_pinv_absorbs_left in lemmas/lean/Lemmas.lean: consequences of the Penrose conditions)"""
    A = z3.Const('A!g', Mat)
    G = mul(T(A), A)
    return [ForAll([A], mul(A, mul(ML.pinv(G), G)) == A, patterns=[ML.pinv(G)]),
            ForAll([A], mul(G, mul(ML.pinv(G), T(A))) == T(A), patterns=[ML.pinv(G)]),
            # normal equations of the minimum-norm least-squares solution W = A^+ B:  A^T A A^+ = A^T
            ForAll([A], mul(mul(T(A), A), ML.pinv(A)) == T(A), patterns=[ML.pinv(A)])]

def u_y_feature(copy):
    q = OQ + '.Y_feature_orthogonalizer'
    def body(I):
        n, m, p = I.fresh('n', IntS), I.fresh('m', IntS), I.fresh('p', IntS)
        I.assume(And(n >= 1, m >= 1, p >= 1))
        I.use_axioms('entries', ML.axioms('entries') + P.pinv_axioms() + local_axioms()); I.use_axioms('ring', ML.axioms('ring') + gram_pinv_axioms())
        X = ML.fresh_mat(I, 'X', (n, m)); Xm = ML.mat_of(I, X)
        Y = ML.fresh_mat(I, 'y', (n, p)); Ym = ML.mat_of(I, Y)
        tol = I.fresh('tol', RealS); I.assume(tol >= 0)
        r = I.call_func(I.repo.get(q), [], dict(y=Y, X=X, tol=tol, copy=copy))
        Rm = ML.mat_of(I, r)
        G = mul(T(Xm), Xm)
        fit = mul(Xm, mul(ML.pinv(G), mul(T(Xm), Ym)))
        I.ob('post[C07]:result-is-y-minus-its-least-squares-fit-on-the-given-columns', Rm == sub(Ym, fit), kind='post')
        I.ob('post[C07]:copy-flag:' + ('y-left-untouched-and-a-new-array-returned' if copy else 'y-modified-in-place-and-returned'),
             BoolVal((r.id != Y.id and ML.mat_of(I, Y).eq(Ym)) if copy else (r.id == Y.id)), kind='post')
        I.ob('post[C07]:X-left-untouched', BoolVal(ML.mat_of(I, X).eq(Xm)), kind='post')
        g1 = mul(T(Xm), fit) == mul(T(Xm), Ym)
        I.ob('step:normal-equations-of-the-fit', g1, kind='lemma'); I.assume(g1)
        I.ob('post[C07]:unexplained-y-is-orthogonal-to-the-given-columns', mul(T(Xm), Rm) == ML.Zero(m, p), kind='post')
    return Unit(f'Y_feature_orthogonalizer[copy={copy}]', body, functions=[q])

def u_y_sample(copy):
    q = OQ + '.Y_sample_orthogonalizer'
    def body(I):
        n, m, p, nr = I.fresh('n', IntS), I.fresh('m', IntS), I.fresh('p', IntS), I.fresh('nr', IntS)
        I.assume(And(n >= 1, m >= 1, p >= 1, nr >= 1))
        I.use_axioms('entries', ML.axioms('entries') + P.pinv_axioms() + local_axioms()); I.use_axioms('ring', ML.axioms('ring') + gram_pinv_axioms())
        X = ML.fresh_mat(I, 'X', (n, m)); Xm = ML.mat_of(I, X)
        Y = ML.fresh_mat(I, 'y', (n, p)); Ym = ML.mat_of(I, Y)
        Xr = ML.fresh_mat(I, 'X_ref', (nr, m)); Xrm = ML.mat_of(I, Xr)
        Yr = ML.fresh_mat(I, 'y_ref', (nr, p)); Yrm = ML.mat_of(I, Yr)
        tol = I.fresh('tol', RealS); I.assume(tol >= 0)
        r = I.call_func(I.repo.get(q), [], dict(y=Y, X=X, y_ref=Yr, X_ref=Xr, tol=tol, copy=copy))
        Rm = ML.mat_of(I, r)
        W = mul(ML.pinv(Xrm), Yrm)                                   # least-squares model fitted on the reference (selected) samples only
        I.ob('post[C07]:result-is-y-minus-the-prediction-of-the-model-fitted-on-the-reference-samples', Rm == sub(Ym, mul(Xm, W)), kind='post')
        I.ob('post[C07]:copy-flag:' + ('y-left-untouched-and-a-new-array-returned' if copy else 'y-modified-in-place-and-returned'),
             BoolVal((r.id != Y.id and ML.mat_of(I, Y).eq(Ym)) if copy else (r.id == Y.id)), kind='post')
        I.ob('post[C07]:other-arguments-left-untouched', BoolVal(all(ML.mat_of(I, a).eq(b) for a, b in ((X, Xm), (Xr, Xrm), (Yr, Yrm)))), kind='post')
        # the model is a least-squares solution on the reference samples: normal equations X_r^T (Y_r - X_r W) = 0
        I.ob('post[C07]:model-satisfies-the-normal-equations-on-the-reference-samples', mul(T(Xrm), sub(Yrm, mul(Xrm, W))) == ML.Zero(m, p), kind='post')
    return Unit(f'Y_sample_orthogonalizer[copy={copy}]', body, functions=[q])

UNITS = [lambda: u_x_orth(False), lambda: u_x_orth(True), lambda: u_projector_view(False), lambda: u_y_feature(False), lambda: u_y_feature(True), lambda: u_y_sample(False), lambda: u_y_sample(True)]
RT = False
