"""C14 — PCovR projectors are mutually consistent, nested and orthogonal (contracts in contracts/pcovr.py)."""
from contracts import pcovr as P
from contracts.pcovr import extend_ext
UNITS = [P.u_sample_space, P.u_feature_space, lambda: P.u_fit('sample'), lambda: P.u_fit('feature'), lambda: P.u_fit('auto'), lambda: P.u_fit('sample', y1d=True), lambda: P.u_fit('feature', y1d=True),
         lambda: P.u_fit('sample', precomputed=True)]
RT = True
TRUSTED = ["matrix layer (see C03)", "assumed modular contracts of C03; sklearn _BasePCA.transform = (X - mean_) components_^T with whiten off and centred training data (mean_ = 0)",
           "nestedness in k and monotone losses: each projector column/row depends only on its own eigenpair and _decompose_full returns a prefix of the sorted decomposition (assumed contract); checked numerically (bounded)"]
