"""C16 — QuickShift returns the basin partition of the density-ascent graph.

Functions under contract (real source: skmatter/clustering/_quick_shift.py):
  QuickShift.__init__ (executed), QuickShift.fit, QuickShift._qs_next, QuickShift._gs_next, _get_gabriel_graph
Modular callee: periodic_pairwise_euclidean_distances (its contract is C15's postcondition: symmetric, >= 0, finite).
"""
from pyvc.api import *

QS = 'skmatter.clustering._quick_shift'
j, j2, k, p_, q_, a_, b_ = Int('j'), Int('j2'), Int('k'), Int('p'), Int('q'), Int('a'), Int('b')

# ------------------------------------------------------------------ spec (from the property statement)
def higher(W, idx, x): return W(x) > W(idx)

def qs_next_spec(n, W, D, cut, nn, idx, r):
    """r is the ascent target of idx under the cut-off rule: the nearest strictly-higher-weight point within cut(idx);
    if there is none, the nearest neighbour nn(idx) when it is denser; else idx itself"""
    within = lambda x: And(higher(W, idx, x), D(idx, x) < cut)
    some = Exists([j], And(0 <= j, j < n, within(j)))
    return If(some,
              And(0 <= r, r < n, within(r), ForAll([j], Implies(And(0 <= j, j < n, within(j)), D(idx, r) <= D(idx, j)))),
              r == If(higher(W, idx, nn), nn, idx))

def gs_next_spec(n, W, D, reach, idx, r):
    """r is the nearest strictly-higher-weight point among the shell neighbourhood reach(.) of idx, idx itself if none"""
    cand = lambda x: And(higher(W, idx, x), reach(x), D(idx, x) < INF)
    some = Exists([j], And(0 <= j, j < n, cand(j)))
    return If(some,
              And(0 <= r, r < n, cand(r), ForAll([j], Implies(And(0 <= j, j < n, cand(j)), D(idx, r) <= D(idx, j)))),
              r == idx)

def gabriel_spec(n, D, a, b):
    """brute-force Gabriel graph: a-b is an edge iff a != b and no third point k lies inside the ball spanned by the edge
    (squared distances: d(a,k) + d(b,k) < d(a,b))"""
    return And(a != b, Not(Exists([k], And(0 <= k, k < n, D(a, k) + D(b, k) < D(a, b)))))

# ------------------------------------------------------------------ helpers to set up symbolic inputs
def mk_qs(I, **params):
    cls = I.repo.get(QS + '.QuickShift')
    return cls

def dist_inputs(I, n):
    dist = I.fresh_arr('dist', (n, n))
    D = I.A(dist).elem
    I.assume(ForAll([a_, b_], D(a_, b_) <= INF))
    return dist, D

# ------------------------------------------------------------------ unit: _qs_next
def u_qs_next():
    def inv(I, F, i, g):
        n = F['ngrid']; W = I.A(F['probs']).elem; D = I.A(F['distmm']).elem; idx = F['idx']; cut = F['cutoff']
        nx, dm = tz(F['next_idx']), tz(F['dmin'])
        within = lambda x: And(higher(W, idx, x), D(idx, x) < cut)
        some = Exists([j], And(0 <= j, j < i, within(j)))
        return And(0 <= nx, nx < n,
                   If(some,
                      And(0 <= nx, nx < i, within(nx), dm == D(idx, nx),
                          ForAll([j], Implies(And(0 <= j, j < i, within(j)), D(idx, nx) <= D(idx, j)))),
                      And(dm == INF, nx == If(higher(W, idx, F['idxn']), F['idxn'], idx))))
    def body(I):
        n = I.fresh('n', IntS); I.assume(n >= 1)
        probs = I.fresh_arr('probs', (n,)); dist, D = dist_inputs(I, n)
        idx, idxn, cutoff = I.fresh('idx', IntS), I.fresh('idxn', IntS), I.fresh('cutoff', RealS)
        I.assume(And(0 <= idx, idx < n, 0 <= idxn, idxn < n, cutoff < INF))
        fn = I.repo.get(QS + '.QuickShift._qs_next')
        me = I.new_obj(I.repo.get(QS + '.QuickShift'))
        r = I.call_func(fn, [me, idx, idxn, probs, dist, cutoff], {})
        W = I.A(probs).elem
        I.ob('post:next-is-nearest-higher-within-cutoff-else-denser-nn-else-self', qs_next_spec(n, W, D, cutoff, idxn, idx, tz(r)), kind='post')
        return r
    return Unit('QuickShift._qs_next', body, loops={(QS + '.QuickShift._qs_next', 0): LoopContract(inv)},
                functions=[QS + '.QuickShift._qs_next'])

# ------------------------------------------------------------------ unit: _get_gabriel_graph
def u_gabriel():
    def inv_outer(I, F, i, g):
        n = tz(F['n_points']); D = I.A(F['dist_matrix_sq']).elem; G = I.A(F['gabriel']).elem
        return ForAll([a_, b_], Implies(And(0 <= a_, a_ < n, 0 <= b_, b_ < n),
                                        G(a_, b_) == If(Or(a_ < i, b_ < i), gabriel_spec(n, D, a_, b_), True)))
    def inv_inner(I, F, jj, g):
        n = tz(F['n_points']); D = I.A(F['dist_matrix_sq']).elem; G = I.A(F['gabriel']).elem; i = tz(F['i'])
        done = lambda a, b: Or(a < i, b < i, And(a == i, b < jj), And(b == i, a < jj))
        return ForAll([a_, b_], Implies(And(0 <= a_, a_ < n, 0 <= b_, b_ < n),
                                        G(a_, b_) == If(done(a_, b_), gabriel_spec(n, D, a_, b_), If(And(a_ == i, b_ == i), False, True))))
    def body(I):
        n = I.fresh('n', IntS); I.assume(n >= 1)
        d = I.fresh_arr('d', (n, n)); D = I.A(d).elem
        I.assume(ForAll([a_, b_], D(a_, b_) == D(b_, a_)))      # callee precondition: symmetric squared distances (C15 postcondition)
        fn = I.repo.get(QS + '._get_gabriel_graph')
        r = I.call_func(fn, [d], {})
        R = I.A(r)
        I.ob('post:shape', And(tz(R.shape[0]) == n, tz(R.shape[1]) == n), kind='post')
        I.ob('post:gabriel-graph-equals-brute-force-definition',
             ForAll([a_, b_], Implies(And(0 <= a_, a_ < n, 0 <= b_, b_ < n), R.elem(a_, b_) == gabriel_spec(n, D, a_, b_))), kind='post')
    q = QS + '._get_gabriel_graph'
    return Unit('_get_gabriel_graph', body, loops={(q, 0): LoopContract(inv_outer), (q, 1): LoopContract(inv_inner)}, functions=[q])

# ------------------------------------------------------------------ unit: _gs_next
REACH = z3.Function('REACH', IntS, IntS, BoolS)      # REACH(s, x): x is within s expansion steps of idx in the Gabriel graph
def reach_axioms(n, G, idx):
    s_ = Int('s')
    return [ForAll([j], REACH(1, j) == G(idx, j)),
            ForAll([s_, j], Implies(s_ >= 1, REACH(s_ + 1, j) == Or(REACH(s_, j), Exists([k], And(0 <= k, k < n, REACH(s_, k), G(k, j))))))]

def u_gs_next():
    q = QS + '.QuickShift._gs_next'
    def inv_shell(I, F, s, g):     # loop 0: for _ in range(1, shell): neighs == REACH(s)
        n = tz(F['ngrid']); N = I.A(F['neighs'])
        return And(tz(N.shape[0]) == n, ForAll([j], Implies(And(0 <= j, j < n), N.elem(j) == REACH(s, j))))
    def inv_expand(I, F, jj, g):   # loop 1: nneighs[x] == exists k<jj: neighs[k] and gabriel[k,x]
        n = tz(F['ngrid']); N = I.A(F['neighs']); NN = I.A(F['nneighs']); G = I.A(F['gabriel']).elem
        return And(tz(NN.shape[0]) == n, tz(N.shape[0]) == n,
                   ForAll([j], Implies(And(0 <= j, j < n), NN.elem(j) == Exists([k], And(0 <= k, k < jj, N.elem(k), G(k, j))))))
    def inv_scan(I, F, i, g):      # loop 2: nearest higher-weight member among the first i points
        n = tz(F['ngrid']); W = I.A(F['probs']).elem; D = I.A(F['distmm']).elem; idx = F['idx']; N = I.A(F['neighs']).elem
        nx, dm = tz(F['next_idx']), tz(F['dmin'])
        cand = lambda x: And(higher(W, idx, x), N(x), D(idx, x) < INF)
        some = Exists([j], And(0 <= j, j < i, cand(j)))
        return And(0 <= nx, nx < n,
                   If(some, And(nx < i, cand(nx), dm == D(idx, nx), ForAll([j], Implies(And(0 <= j, j < i, cand(j)), D(idx, nx) <= D(idx, j)))),
                      And(dm == INF, nx == idx)))
    def body(I):
        n = I.fresh('n', IntS); I.assume(n >= 1)
        probs = I.fresh_arr('probs', (n,)); dist, D = dist_inputs(I, n)
        gab = I.fresh_arr('gabriel', (n, n), BoolS); G = I.A(gab).elem
        idx = I.fresh('idx', IntS); shell = I.fresh('shell', IntS)
        I.assume(And(0 <= idx, idx < n, shell >= 1))
        for ax in reach_axioms(n, G, idx): I.assume(ax)
        me = I.new_obj(I.repo.get(QS + '.QuickShift'), dict(gabriel_shell=shell))
        r = I.call_func(I.repo.get(q), [me, idx, probs, dist, gab], {})
        W = I.A(probs).elem
        I.ob('post:next-is-nearest-higher-weight-member-of-shell-neighbourhood',
             gs_next_spec(n, W, D, lambda x: REACH(shell, x), idx, tz(r)), kind='post')
    return Unit('QuickShift._gs_next', body,
                loops={(q, 0): LoopContract(inv_shell), (q, 1): LoopContract(inv_expand), (q, 2): LoopContract(inv_scan)}, functions=[q])

# ------------------------------------------------------------------ unit: fit (both modes), modular over _qs_next/_gs_next/_get_gabriel_graph/metric
NXT = z3.Function('NXT', IntS, IntS)
ROOT = z3.Function('ROOT', IntS, IntS)

def root_axioms(n, W):
    """ROOT is the fixpoint reached by iterating NXT.  Existence/uniqueness: NXT either stays or strictly increases the weight
    (that is what the contracts of _qs_next/_gs_next give), so iteration terminates on a finite set (Lean theorem `ascent_reaches_a_root`, lemmas/lean/Lemmas.lean, machine-checked)."""
    return [ForAll([p_], Implies(And(0 <= p_, p_ < n), And(0 <= NXT(p_), NXT(p_) < n)), patterns=[NXT(p_)]),
            ForAll([p_], Implies(And(0 <= p_, p_ < n, NXT(p_) != p_), W(NXT(p_)) > W(p_)), patterns=[NXT(p_)]),
            ForAll([p_], Implies(And(0 <= p_, p_ < n), And(0 <= ROOT(p_), ROOT(p_) < n, NXT(ROOT(p_)) == ROOT(p_),
                                                         ROOT(p_) == If(NXT(p_) == p_, p_, ROOT(NXT(p_))))), patterns=[ROOT(p_)])]

def ascend_lemma_qs():
    """consequences of the next-rule spec used by fit (and the property's centre clause), proved once"""
    n = Int('n'); idx, r, nn = Int('idx'), Int('r'), Int('nn'); cut = Real('cut')
    Wf = z3.Function('Wl', IntS, RealS); Df = z3.Function('Dl', IntS, IntS, RealS)
    hyp = [n >= 1, 0 <= idx, idx < n, 0 <= nn, nn < n, qs_next_spec(n, Wf, Df, cut, nn, idx, r)]
    return Lemma('next-rule[qs]', [
        ('next-in-range', hyp, And(0 <= r, r < n)),
        ('next-is-self-or-strictly-higher-weight', hyp, Or(r == idx, Wf(r) > Wf(idx))),
        ('centre-has-no-higher-weight-point-within-cutoff-and-no-denser-nearest-neighbour', hyp + [r == idx],
         And(Not(Exists([j], And(0 <= j, j < n, Wf(j) > Wf(idx), Df(idx, j) < cut))), Not(Wf(nn) > Wf(idx)))),
        ('non-centre-moves-to-nearest-allowed-higher-weight-point', hyp + [r != idx],
         And(Wf(r) > Wf(idx), Or(And(Df(idx, r) < cut, ForAll([j], Implies(And(0 <= j, j < n, Wf(j) > Wf(idx), Df(idx, j) < cut), Df(idx, r) <= Df(idx, j)))), r == nn))),
    ])

def ascend_lemma_gs():
    n = Int('n'); idx, r = Int('idx'), Int('r')
    Wf = z3.Function('Wl', IntS, RealS); Df = z3.Function('Dl', IntS, IntS, RealS); Rf = z3.Function('Rl', IntS, BoolS)
    hyp = [n >= 1, 0 <= idx, idx < n, gs_next_spec(n, Wf, Df, lambda x: Rf(x), idx, r)]
    return Lemma('next-rule[gs]', [
        ('next-in-range', hyp, And(0 <= r, r < n)),
        ('next-is-self-or-strictly-higher-weight', hyp, Or(r == idx, Wf(r) > Wf(idx))),
        ('centre-has-no-higher-weight-point-within-its-shell', hyp + [r == idx],
         Not(Exists([j], And(0 <= j, j < n, Wf(j) > Wf(idx), Rf(j), Df(idx, j) < INF)))),
    ])

def root_lemmas():
    """order/weight-map invariance are statements about the spec: next mentions weights only through comparisons"""
    n = Int('n'); idx, r, nn = Int('idx'), Int('r'), Int('nn'); cut = Real('cut')
    Wf = z3.Function('Wl', IntS, RealS); Df = z3.Function('Dl', IntS, IntS, RealS); Phi = z3.Function('Phi', RealS, RealS)
    x, y = Real('x'), Real('y')
    mono = ForAll([x, y], (x < y) == (Phi(x) < Phi(y)))
    W2 = lambda t: Phi(Wf(t))
    return Lemma('invariances', [
        ('next-rule-invariant-under-strictly-increasing-weight-map[qs]', [mono, n >= 1, 0 <= idx, idx < n],
         qs_next_spec(n, Wf, Df, cut, nn, idx, r) == qs_next_spec(n, W2, Df, cut, nn, idx, r)),
    ])

def u_fit(mode):
    qfit = QS + '.QuickShift.fit'
    def inv_outer(I, F, i, g):
        n = I.cur['n']; R = I.A(F['idxroot'])
        return And(tz(R.shape[0]) == n,
                   ForAll([p_], Implies(And(0 <= p_, p_ < n), Or(R.elem(p_) == -1, R.elem(p_) == ROOT(p_))), patterns=[R.elem(p_)]),
                   ForAll([p_], Implies(And(0 <= p_, p_ < i), R.elem(p_) != -1), patterns=[R.elem(p_)]))
    def inv_while(I, F, it, g):
        n = I.cur['n']; R = I.A(F['idxroot']); W = I.cur['W']
        L, P = seq(I, F['qspath']); cur = tz(F['current']); i = tz(F['i'])
        pos = I.A(g['pos']).elem
        return And(tz(R.shape[0]) == n, L >= 1, cur == P(L - 1), P(0) == i, R.elem(cur) == -1, 0 <= i, i < n,
                   ForAll([k], Implies(And(0 <= k, k < L), And(0 <= P(k), P(k) < n, pos(P(k)) == k, ROOT(P(k)) == ROOT(cur), W(P(k)) <= W(cur))), patterns=[P(k)]),
                   ForAll([k], Implies(And(0 <= k, k < L - 1), And(R.elem(P(k)) == NXT(P(k)), NXT(P(k)) == P(k + 1), W(P(k)) < W(cur))), patterns=[P(k)]),
                   ForAll([p_], Implies(And(0 <= p_, p_ < n), And(pos(p_) >= -1, pos(p_) < L, Implies(pos(p_) >= 0, P(pos(p_)) == p_),
                                                                 Implies(pos(p_) == -1, Or(R.elem(p_) == -1, R.elem(p_) == ROOT(p_))))), patterns=[pos(p_), R.elem(p_)]),
                   ForAll([p_], Implies(And(0 <= p_, p_ < i), R.elem(p_) != -1), patterns=[R.elem(p_)]))
    def pos_init(I, F):
        n = I.cur['n']; i = tz(F['i'])
        return I.new_arr(ArrVal((n,), lambda x: If(tz(x) == i, IntVal(0), IntVal(-1)), IntS))
    def pos_step(I, Fpre, Fpost, gpos, heap_pre):
        L, P = seq(I, Fpost['qspath'])
        old = I.A(gpos).elem
        last = P(L - 1)
        return I.new_arr(ArrVal(I.A(gpos).shape, lambda x: If(tz(x) == last, L - 1, old(x)), IntS))

    def nxt_contract(which):
        # contract of _qs_next/_gs_next as used by fit: called with exactly the data the property's rule is stated over
        def requires(I, F):
            n = I.cur['n']; idx = tz(F['idx'])
            Dm = I.A(F['distmm']); Pr = I.A(F['probs'])
            out = [('idx-in-range', And(0 <= idx, idx < n)),
                   ('weights-are-the-sample-weights', And(tz(Pr.shape[0]) == n, ForAll([p_], Implies(And(0 <= p_, p_ < n), Pr.elem(p_) == I.cur['W'](p_))))),
                   ('distances-are-the-metric-with-infinite-diagonal', ForAll([a_, b_], Implies(And(0 <= a_, a_ < n, 0 <= b_, b_ < n), Dm.elem(a_, b_) == If(a_ == b_, INF, I.cur['DM'](a_, b_)))))]
            if which == 'qs':
                nnv = tz(F['idxn'])
                out.append(('fallback-is-the-nearest-neighbour', And(0 <= nnv, nnv < n, ForAll([j], Implies(And(0 <= j, j < n), Dm.elem(idx, nnv) <= Dm.elem(idx, j))),
                                                                      ForAll([j], Implies(And(0 <= j, j < nnv), Dm.elem(idx, nnv) < Dm.elem(idx, j))))))
                out.append(('cutoff-is-the-scaled-cutoff-of-the-point-itself', tz(F['cutoff']) == I.cur['cut'](idx)))
            else:
                G = I.A(F['gabriel'])
                out.append(('graph-is-the-gabriel-graph-of-the-distances', ForAll([a_, b_], Implies(And(0 <= a_, a_ < n, 0 <= b_, b_ < n), G.elem(a_, b_) == I.cur['GAB'](a_, b_)))))
                out.append(('shell-is-the-configured-shell', BoolVal(True)))
            return out
        def make_result(I, F): return NXT(tz(F['idx']))
        return FuncContract(requires=requires, make_result=make_result)

    def metric_contract():
        def requires(I, F):
            return [('squared-distances-requested', BoolVal(F['squared'] is True)),
                    ('cell-is-the-configured-cell', BoolVal(F['cell_length'] is I.cur['cell']))]
        def make_result(I, F):
            X = I.A(F['X'])
            r = I.fresh_arr('dist', (X.shape[0], I.A(F['Y']).shape[0]))
            D = I.A(r).elem
            I.assume(ForAll([a_, b_], And(D(a_, b_) >= 0, D(a_, b_) < INF)))
            if F['X'].id == F['Y'].id: I.assume(ForAll([a_, b_], D(a_, b_) == D(b_, a_)))
            I.cur['DM'] = D
            I.cur['metric_args'] = (F['X'], F['Y'])
            return r
        return FuncContract(requires=requires, make_result=make_result)
    def gabriel_contract():
        def requires(I, F):
            A = I.A(F['dist_matrix_sq'])
            return [('symmetric-distances', ForAll([a_, b_], A.elem(a_, b_) == A.elem(b_, a_)))]
        def make_result(I, F):
            A = I.A(F['dist_matrix_sq'])
            r = I.fresh_arr('gab', (A.shape[0], A.shape[0]), BoolS)
            n = tz(A.shape[0]); G = I.A(r).elem
            I.assume(ForAll([a_, b_], Implies(And(0 <= a_, a_ < n, 0 <= b_, b_ < n), G(a_, b_) == gabriel_spec(n, A.elem, a_, b_))))
            I.cur['GAB'] = G
            return r
        return FuncContract(requires=requires, make_result=make_result)

    def body(I):
        n = I.fresh('n', IntS); d = I.fresh('d', IntS); I.assume(And(n >= 1, d >= 1))
        X = I.fresh_arr('X', (n, d)); w = I.fresh_arr('w', (n,)); W = I.A(w).elem
        cls = I.repo.get(QS + '.QuickShift')
        I.cur = dict(n=n, W=W, cell=None)
        if mode == 'qs':
            cuts = I.fresh_arr('cuts', (n,)); c0 = I.A(cuts).elem
            I.assume(ForAll([p_], c0(p_) < INF))
            scale = I.fresh('scale', RealS)
            I.cur['cut'] = lambda x: c0(x) * (scale * scale)
            me = I.instantiate(cls, [], dict(dist_cutoff_sq=cuts, scale=scale))
        else:
            shell = I.fresh('shell', IntS); I.assume(shell >= 1)
            me = I.instantiate(cls, [], dict(gabriel_shell=shell))
        for ax in root_axioms(n, W): I.assume(ax)
        fit = I.find_method(cls, 'fit')
        r = I.call_func(fit, [me, X], dict(samples_weight=w))
        labels = I.A(I.attr(me, 'labels_')); cen = I.A(I.attr(me, 'cluster_centers_idx_')); C = I.A(I.attr(me, 'cluster_centers_'))
        m = tz(cen.shape[0])
        t_ = Int('t')
        I.ob('post:metric-called-on-the-data', BoolVal(I.cur.get('metric_args') is not None and I.cur['metric_args'][0].id == X.id and I.cur['metric_args'][1].id == X.id), kind='post')
        I.ob('post:every-point-labelled-with-its-ascent-root', And(tz(labels.shape[0]) == n, ForAll([p_], Implies(And(0 <= p_, p_ < n), labels.elem(p_) == ROOT(p_)))), kind='post')
        I.ob('post:every-centre-labels-itself', ForAll([t_], Implies(And(0 <= t_, t_ < m), And(0 <= cen.elem(t_), cen.elem(t_) < n, labels.elem(cen.elem(t_)) == cen.elem(t_)))), kind='post')
        wit = cen.tag[2] if cen.tag and cen.tag[0] == 'where' else None
        I.ob('post:every-label-is-a-centre', BoolVal(False) if wit is None else
             ForAll([p_], Implies(And(0 <= p_, p_ < n), And(0 <= wit(labels.elem(p_)), wit(labels.elem(p_)) < m, cen.elem(wit(labels.elem(p_))) == labels.elem(p_)))), kind='post')
        I.ob('post:centres-are-exactly-the-fixpoints-of-next', ForAll([t_], Implies(And(0 <= t_, t_ < m), NXT(cen.elem(t_)) == cen.elem(t_))), kind='post')
        I.ob('post:highest-weight-point-is-a-centre',
             ForAll([p_], Implies(And(0 <= p_, p_ < n, ForAll([q_], Implies(And(0 <= q_, q_ < n, q_ != p_), W(q_) < W(p_)))), labels.elem(p_) == p_)), kind='post')
        I.ob('post:cluster-centres-are-the-rows-of-X', And(tz(C.shape[0]) == m, tz(C.shape[1]) == d,
             ForAll([t_, j], Implies(And(0 <= t_, t_ < m, 0 <= j, j < d), C.elem(t_, j) == I.A(X).elem(cen.elem(t_), j)))), kind='post')
        I.ob('post:fit-returns-self', BoolVal(isinstance(r, ObjRef) and r.id == me.id), kind='post')
    funcs = {'skmatter.metrics._pairwise.periodic_pairwise_euclidean_distances': metric_contract(),
             QS + '.QuickShift._qs_next': nxt_contract('qs'), QS + '.QuickShift._gs_next': nxt_contract('gs'),
             QS + '._get_gabriel_graph': gabriel_contract()}
    loops = {(qfit, 0): LoopContract(inv_outer), (qfit, 1): LoopContract(inv_while, ghost={'pos': (pos_init, pos_step)})}
    return Unit(f'QuickShift.fit[{mode}]', body, loops=loops, funcs=funcs, functions=[qfit, QS + '.QuickShift.__init__'])

UNITS = [u_qs_next, u_gabriel, u_gs_next, lambda: u_fit('qs'), lambda: u_fit('gs'), ascend_lemma_qs, ascend_lemma_gs, root_lemmas]
RT = True
LEAN_LEMMAS = "lemmas/lean/Lemmas.lean"
