"""C15 — periodic and Mahalanobis distances obey the metric laws under minimum image.

Real functions: periodic_pairwise_euclidean_distances, _periodic_euclidean_distances, pairwise_mahalanobis_distances (+ nested _mahalanobis), _check_dimension
(skmatter/metrics/_pairwise.py), for every number of points, every dimension, every cell.

Formula conformance is proved on the real code: entry (i, j) of the result is sqrt(SUM_d w_d^2) with w_d = u_d - rne(u_d / cell_d) cell_d, u_d = X[i,d] - Y[j,d]
(rne = numpy's round-half-to-even, exact), its square with squared=True, the call to sklearn's Euclidean distance without a cell; entry (c, i, j) of the Mahalanobis
result is sqrt(SUM_d w_d SUM_e C[c,d,e] w_e) (w = u without a cell), so every matrix of a stack is treated independently; a mismatched cell dimension is rejected.
The finite sum over the coordinates is an uninterpreted functional SUMD(lambda d. f(d), D) (only the instances 'a sum of non-negative terms is non-negative',
'equal terms give equal sums', 'smaller terms give smaller sums', 'a sum of zeros is zero' are used, each as an instance for concrete term functions).
Metric laws: non-negativity, zero at periodic images, invariance under integer image shifts of X and Y, never above the free-space distance, symmetry are lemmas
over the scalar wrap function + those SUMD instances.  The one-dimensional triangle inequality |F(p+q)| <= |F(p)| + |F(q)| (F = signed distance to the nearest integer) is proved from the
minimality lemma |F(q)| <= |q - n| (two cases n <= floor q, n >= floor q + 1); its l2 lift is Minkowski's inequality (cited)."""
from pyvc.api import *
from pyvc import skstubs
from pyvc.engine import ExtNS, ExtClass, Opaque

PW = 'skmatter.metrics._pairwise'
d_, e_ = Int('d!s'), Int('e!s')
SUMD = z3.Function('SUMD', z3.ArraySort(IntS, RealS), IntS, RealS)     # SUMD(f, D) = sum of f(d) for 0 <= d < D
SQRT = npstubs.SQRT
rne = npstubs.rne

class SymList:
    """[body(x) for x in X] for the rows x = X[k] of a symbolic 2-D array: one array value depending on the bound row index k"""
    def __init__(self, k, n, item): self.k, self.n, self.item = k, n, item

def comp_rows(I, e, g, it, F):
    if not isinstance(it, ArrRef) or I.A(it).ndim != 2 or g.ifs: raise Unsupported("comprehension over symbolic iterable")
    A = I.A(it)
    k = I.fresh('k!row', IntS)
    row = I.new_arr(ArrVal((A.shape[1],), lambda d: A.elem(k, tz(d)), A.sort))
    G = dict(F); I.assign(g.target, row, G)
    I.st.guards.append(And(0 <= k, k < tz(A.shape[0])))
    try: body = I.ev(e.elt, G)
    finally: I.st.guards.pop()
    if not isinstance(body, ArrRef) or I.A(body).ndim != 2: raise Unsupported("row comprehension with a non-matrix body")
    return SymList(k, A.shape[0], I.A(body))

def flat_match(r, ny):
    """r == i*ny + j built by the reshape stub below -> (i, j)"""
    if z3.is_expr(r) and z3.is_add(r) and r.num_args() == 2:
        a, j = r.arg(0), r.arg(1)
        if z3.is_mul(a) and a.num_args() == 2 and z3.eq(a.arg(1), ny): return a.arg(0), j
    return None

def np_concatenate(I, seq, axis=0, **kw):
    if not isinstance(seq, SymList): return I.cur['prev_concatenate'](I, seq, axis=axis, **kw)
    npstubs.used('np.concatenate of a per-row list (block structure kept)')
    it = seq.item; nx, ny = tz(seq.n), tz(it.shape[0])
    def elem(r, d):
        m = flat_match(r, ny)
        if m is None: i, j = tz(r) / ny, tz(r) % ny
        else: i, j = m
        return z3.substitute(tz(it.elem(j, tz(d))), (seq.k, i))
    return I.new_arr(ArrVal((nx * ny, it.shape[1]), elem, it.sort, ('blocks', nx, ny)))

def lam(f): return z3.Lambda([d_], f(d_))

def np_norm(I, a, axis=None, **kw):
    A = I.A(a)
    if A.ndim == 2 and axis in (1, -1):
        npstubs.used('np.linalg.norm(axis=1) = sqrt of the sum of squares over the coordinates')
        D = tz(A.shape[1])
        return I.new_arr(ArrVal((A.shape[0],), lambda r: SQRT(SUMD(lam(lambda d: to_real(A.elem(tz(r), d)) * to_real(A.elem(tz(r), d))), D)), RealS, ('rownorm', A.tag)))
    raise Unsupported("np.linalg.norm form")

def reshape_attr(I, a):
    def f(I2, *shape, **kw):
        A = I2.A(a)
        shp = shape[0] if len(shape) == 1 and isinstance(shape[0], (tuple, list)) else shape
        shp = tuple(shp)
        if A.ndim == 1 and len(shp) == 2:
            n, m = tz(shp[0]), tz(shp[1])
            I2.ob('shape:reshape size', tz(A.shape[0]) == n * m, kind='shape')
            return I2.new_arr(ArrVal((conc(n), conc(m)), lambda i, j: A.elem(tz(i) * m + tz(j)), A.sort))
        if A.ndim == 2 and len(shp) == 3:
            p, n, m = tz(shp[0]), tz(shp[1]), tz(shp[2])
            I2.ob('shape:reshape size', And(tz(A.shape[0]) == p, tz(A.shape[1]) == n * m), kind='shape')
            return I2.new_arr(ArrVal((conc(p), conc(n), conc(m)), lambda c, i, j: A.elem(tz(c), tz(i) * m + tz(j)), A.sort))
        return npstubs.np_reshape(I2, a, shp)
    return f

def matmul_hook(I, a, b, what):
    if not (isinstance(I.cur, dict) and I.cur.get('c15')): return None
    if not (isinstance(a, ArrRef) and isinstance(b, ArrRef)): return None
    A, B = I.A(a), I.A(b)
    if A.ndim == 3 and B.ndim == 2:
        npstubs.used('@ of a stack of matrices with a matrix (entry = sum over the contracted index)')
        sd = npstubs.same_dim(A.shape[2], B.shape[0])
        if sd is False: raise RaiseEx('ValueError')
        if sd is None: I.ob(f'shape:{what}', tz(A.shape[2]) == tz(B.shape[0]), kind='shape')
        D = tz(A.shape[2])
        return I.new_arr(ArrVal((A.shape[0], A.shape[1], B.shape[1]),
                                lambda c, d, r: SUMD(z3.Lambda([e_], to_real(A.elem(tz(c), tz(d), e_)) * to_real(B.elem(e_, tz(r)))), D), RealS))
    return None

def sum_hook(I, a, axis, kw):
    A = I.A(a)
    if A.ndim == 3 and axis in (-1, 2):
        npstubs.used('np.sum(axis=-1) over the coordinates')
        D = tz(A.shape[2])
        return I.new_arr(ArrVal((A.shape[0], A.shape[1]), lambda c, r: SUMD(lam(lambda d: to_real(A.elem(tz(c), tz(r), d))), D), RealS))
    return None

def check_pairwise_arrays(I, X, Y, **kw):
    npstubs.used('sklearn check_pairwise_arrays (returns X and Y, Y = X when None; rejects different numbers of columns)')
    if Y is None: Y = X
    if I.branch(tz(I.A(X).shape[1]) != tz(I.A(Y).shape[1])): raise RaiseEx('ValueError')
    return (X, Y)

def euclid_stub(I, X, Y, *a, **kw):
    npstubs.used('sklearn _euclidean_distances (external)')
    I.cur['euclid_call'] = (X, Y, a, kw)
    return I.fresh_arr('euclid', (I.A(X).shape[0], I.A(Y).shape[0]))

def extend_ext(ext):
    skstubs.install(ext)
    if matmul_hook not in npstubs.MATMUL_HOOKS: npstubs.MATMUL_HOOKS.insert(0, matmul_hook)
    ext['comp_sym'] = comp_rows
    np_ = ext['modules']['np']
    prev = np_.concatenate
    def conc_(I, seq, axis=0, **kw):
        I.cur['prev_concatenate'] = prev
        return np_concatenate(I, seq, axis=axis, **kw)
    np_.concatenate = conc_
    np_.linalg.norm = np_norm
    ext['sum_hook'] = sum_hook
    ext['arr_attrs'] = dict(ext['arr_attrs']); ext['arr_attrs']['reshape'] = reshape_attr
    ext['names']['sklearn.metrics.pairwise.check_pairwise_arrays'] = check_pairwise_arrays
    ext['names']['sklearn.metrics.pairwise._euclidean_distances'] = euclid_stub
    ext['names']['typing.Union'] = Opaque('Union')

def wrap(u, c): return u - z3.ToReal(rne(u / c)) * c

def setup(I, same=False):
    nx, ny, D = I.fresh('nx', IntS), I.fresh('ny', IntS), I.fresh('D', IntS)
    I.assume(And(nx >= 1, ny >= 1, D >= 1))
    I.cur = dict(c15=True)
    X = I.fresh_arr('X', (nx, D)); Y = X if same else I.fresh_arr('Y', (ny, D))
    if same: ny = nx
    cell = I.fresh_arr('cell', (D,)); c = I.A(cell).elem
    I.assume(ForAll([d_], Implies(And(0 <= d_, d_ < D), c(d_) > 0), patterns=[c(d_)]))
    i, j = I.fresh('i', IntS), I.fresh('j', IntS); I.assume(And(0 <= i, i < nx, 0 <= j, j < ny))
    return dict(nx=nx, ny=ny, D=D, X=X, Y=Y, cell=cell, i=i, j=j)

def spec_sq(I, s, i, j, X=None, Y=None):
    """SUM_d wrap(X[i,d] - Y[j,d], cell_d)^2"""
    Xe, Ye, c = I.A(X or s['X']).elem, I.A(Y or s['Y']).elem, I.A(s['cell']).elem
    w = lambda d: wrap(Xe(i, d) - Ye(j, d), c(d))
    return SUMD(lam(lambda d: w(d) * w(d)), s['D'])

def u_periodic(squared, y_none=False):
    q = PW + '.periodic_pairwise_euclidean_distances'
    def body(I):
        s = setup(I, same=y_none); i, j = s['i'], s['j']
        X0, Y0, c0 = I.A(s['X']), I.A(s['Y']), I.A(s['cell'])
        r = I.call_func(I.repo.get(q), [s['X'], None if y_none else s['Y']], dict(squared=squared, cell_length=s['cell']))
        R = I.A(r)
        I.ob('post[C15]:one-entry-per-pair', And(BoolVal(R.ndim == 2), tz(R.shape[0]) == s['nx'], tz(R.shape[1]) == s['ny']), kind='post')
        S = spec_sq(I, s, i, j)
        if squared: I.ob('post[C15]:squared=True-returns-the-square-of-the-minimum-image-distance', R.elem(i, j) == SQRT(S) * SQRT(S), kind='post')
        else: I.ob('post[C15]:distance-is-the-norm-of-the-minimum-image-difference', R.elem(i, j) == SQRT(S), kind='post')
        I.ob('post[C15]:inputs-left-untouched', BoolVal(I.A(s['X']) is X0 and I.A(s['Y']) is Y0 and I.A(s['cell']) is c0), kind='post')
    return Unit(f'periodic_pairwise_euclidean_distances[squared={squared}{",Y=None" if y_none else ""}]', body, functions=[q, PW + '._periodic_euclidean_distances', PW + '._check_dimension'])

def u_no_cell(squared):
    q = PW + '.periodic_pairwise_euclidean_distances'
    def body(I):
        s = setup(I)
        r = I.call_func(I.repo.get(q), [s['X'], s['Y']], dict(squared=squared))
        ec = I.cur.get('euclid_call')
        I.ob('post[C15]:without-a-cell-the-result-is-sklearns-euclidean-distance-of-the-same-arguments',
             BoolVal(ec is not None and ec[0].id == s['X'].id and ec[1].id == s['Y'].id and not ec[2] and ec[3] == dict(squared=squared)), kind='post')
    return Unit(f'periodic_pairwise_euclidean_distances[no-cell,squared={squared}]', body, functions=[q])

def u_reject():
    q = PW + '.periodic_pairwise_euclidean_distances'
    def body(I):
        s = setup(I)
        bad = I.fresh_arr('badcell', (I.fresh('Dc', IntS),)); I.assume(tz(I.A(bad).shape[0]) != s['D']); I.assume(tz(I.A(bad).shape[0]) >= 0)
        I.cur['expect_raise'] = True
        I.call_func(I.repo.get(q), [s['X'], s['Y']], dict(cell_length=bad))
        I.ob('reject[C15]:mismatched-cell-dimension-is-rejected', BoolVal(False), kind='post')
    return Unit('periodic_pairwise_euclidean_distances[mismatched-cell]', body, functions=[q, PW + '._check_dimension'],
                on_raise=lambda I, st, r: r.kind == 'ValueError', reject_name='reject[C15]:mismatched-cell-dimension-is-rejected')

def u_reject_m():
    q = PW + '.pairwise_mahalanobis_distances'
    def body(I):
        s = setup(I)
        bad = I.fresh_arr('badcell', (I.fresh('Dc', IntS),)); I.assume(tz(I.A(bad).shape[0]) != s['D']); I.assume(tz(I.A(bad).shape[0]) >= 0)
        C = I.fresh_arr('cov_inv', (s['D'], s['D']))
        I.call_func(I.repo.get(q), [s['X'], s['Y'], C], dict(cell_length=bad))
        I.ob('reject[C15]:mismatched-cell-dimension-is-rejected', BoolVal(False), kind='post')
    return Unit('pairwise_mahalanobis_distances[mismatched-cell]', body, functions=[q, PW + '._check_dimension'], on_raise=lambda I, st, r: r.kind == 'ValueError', reject_name='reject[C15]:mismatched-cell-dimension-is-rejected')

def u_mahalanobis(stack, with_cell, squared):
    q = PW + '.pairwise_mahalanobis_distances'
    def body(I):
        s = setup(I); i, j, D = s['i'], s['j'], s['D']
        nc = I.fresh('n_cov', IntS); I.assume(nc >= 1)
        C = I.fresh_arr('cov_inv', (nc, D, D) if stack else (D, D)); Ce = I.A(C).elem
        cc = I.fresh('c', IntS); I.assume(And(0 <= cc, cc < (nc if stack else 1)))
        X0, Y0, C0 = I.A(s['X']), I.A(s['Y']), I.A(C)
        r = I.call_func(I.repo.get(q), [s['X'], s['Y'], C], dict(cell_length=s['cell'] if with_cell else None, squared=squared))
        R = I.A(r)
        I.ob('post[C15]:one-entry-per-precision-matrix-and-pair', And(BoolVal(R.ndim == 3), tz(R.shape[0]) == (nc if stack else 1), tz(R.shape[1]) == s['nx'], tz(R.shape[2]) == s['ny']), kind='post')
        Xe, Ye, c = I.A(s['X']).elem, I.A(s['Y']).elem, I.A(s['cell']).elem
        w = (lambda d: wrap(Xe(i, d) - Ye(j, d), c(d))) if with_cell else (lambda d: Xe(i, d) - Ye(j, d))
        Cm = (lambda d, e: Ce(cc, d, e)) if stack else (lambda d, e: Ce(d, e))
        Q = SUMD(lam(lambda d: w(d) * SUMD(z3.Lambda([e_], Cm(d, e_) * w(e_)), D)), D)
        if squared: I.ob('post[C15]:squared-mahalanobis-distance-is-the-quadratic-form-of-that-precision-matrix-only', R.elem(cc, i, j) == Q, kind='post')
        else: I.ob('post[C15]:mahalanobis-distance-is-the-root-of-the-quadratic-form-of-that-precision-matrix-only', R.elem(cc, i, j) == SQRT(Q), kind='post')
        I.ob('post[C15]:inputs-left-untouched', BoolVal(I.A(s['X']) is X0 and I.A(s['Y']) is Y0 and I.A(C) is C0), kind='post')
    return Unit(f'pairwise_mahalanobis_distances[{"stack" if stack else "single"},{"cell" if with_cell else "free"},squared={squared}]', body, functions=[q])

# ------------------------------------------------------------------ metric laws as lemmas over the proved formula
def ab(x): return If(x >= 0, x, -x)
def Fr(q): return q - z3.ToReal(rne(q))          # signed distance to the nearest integer (ties to even): wrap(u, c) = c * Fr(u / c)

def u_scalar_lemmas():
    """the one-dimensional facts, for every real q, p and integers k, n (linear arithmetic with to_int; exact round-half-even)"""
    def body(I):
        q, p = I.fresh('q', RealS), I.fresh('p', RealS); k, n = I.fresh('k', IntS), I.fresh('n', IntS)
        fl = z3.ToInt(q)
        I.ob('lemma[C15]:wrap-is-odd', Fr(-q) == -Fr(q), kind='lemma')
        I.ob('lemma[C15]:wrap-magnitude-is-unchanged-by-integer-shifts', ab(Fr(q + z3.ToReal(k))) == ab(Fr(q)), kind='lemma')
        I.ob('lemma[C15]:wrap-magnitude-is-at-most-one-half', ab(Fr(q)) <= RealVal('1/2'), kind='lemma')
        I.ob('lemma[C15]:wrap-magnitude-is-at-most-the-free-magnitude', ab(Fr(q)) <= ab(q), kind='lemma')
        I.ob('lemma[C15]:wrap-vanishes-at-integers', Fr(z3.ToReal(k)) == 0, kind='lemma')
        I.ob('lemma[C15]:wrap-magnitude-is-the-distance-to-the-nearest-integer:below', Implies(n <= fl, ab(Fr(q)) <= ab(q - z3.ToReal(n))), kind='lemma')
        I.ob('lemma[C15]:wrap-magnitude-is-the-distance-to-the-nearest-integer:above', Implies(n >= fl + 1, ab(Fr(q)) <= ab(q - z3.ToReal(n))), kind='lemma')
        # triangle inequality in one dimension, from minimality at the integer rne(p) + rne(q)
        m = rne(p) + rne(q); flpq = z3.ToInt(p + q)
        I.assume(Implies(m <= flpq, ab(Fr(p + q)) <= ab((p + q) - z3.ToReal(m))))      # instances of the two lemmas above (proved for every q and n)
        I.assume(Implies(m >= flpq + 1, ab(Fr(p + q)) <= ab((p + q) - z3.ToReal(m))))
        I.ob('lemma[C15]:wrap-magnitude-obeys-the-triangle-inequality', ab(Fr(p + q)) <= ab(Fr(p)) + ab(Fr(q)), kind='lemma')
    return Unit('lemmas[wrap-in-units-of-the-cell]', body, functions=[])

def u_lift_lemmas():
    """from units of the cell to lengths: wrap(u, c) = c Fr(u / c) for c > 0, and the squared forms used coordinate by coordinate"""
    def body(I):
        u, v, c = I.fresh('u', RealS), I.fresh('v', RealS), I.fresh('c', RealS); k = I.fresh('k', IntS)
        I.assume(c > 0)
        q = u / c
        I.assume(q * c == u)                                    # definition of division by a non-zero number
        I.ob('lemma[C15]:wrap-in-lengths-is-the-cell-times-wrap-in-cell-units', wrap(u, c) == c * Fr(q), kind='lemma')
        F = I.fresh('Fq', RealS); I.assume(F == Fr(q)); W = c * F
        I.assume(And(ab(F) <= RealVal('1/2'), ab(F) <= ab(q)))            # scalar lemmas (proved above) at q
        g = W * W <= c * c * RealVal('1/4')
        I.ob('lemma[C15]:squared-wrapped-coordinate-is-at-most-a-quarter-of-the-squared-cell-length', g, kind='lemma')
        I.ob('lemma[C15]:squared-wrapped-coordinate-is-at-most-the-squared-free-coordinate', W * W <= u * u, kind='lemma')
    return Unit('lemmas[wrap-in-lengths]', body, functions=[])

def u_scale_lemma():
    def body(I):
        c, F = I.fresh('c', RealS), I.fresh('F', RealS); I.assume(c > 0)
        I.ob('lemma[C15]:magnitude-of-a-positive-multiple', ab(c * F) == c * ab(F), kind='lemma')
    return Unit('lemmas[magnitude-of-a-positive-multiple]', body, functions=[])

def _unused():
    def body(I):
        pass
    return Unit('lemmas[wrap-in-lengths]', body, functions=[])

class Laws:
    """instances of the proved scalar lemmas and of the finite-sum facts, for concrete terms (manual instantiation of universally proved / true statements)"""
    def __init__(self, I, D): self.I, self.D = I, D
    def rng(self, d): return And(0 <= d, d < self.D)
    def coord(self, u, c):
        """u = coordinate difference, c = cell length (> 0): returns (q, w) with w = wrap(u, c) and the lemma instances at q = u / c"""
        I = self.I; q = u / c
        I.assume(q * c == u)                                            # division by a non-zero number
        I.assume(wrap(u, c) == c * Fr(q))                               # lemma wrap-in-lengths-is-the-cell-times-wrap-in-cell-units
        I.assume(And(ab(Fr(q)) <= RealVal('1/2'), ab(Fr(q)) <= ab(q)))  # lemmas at-most-one-half, at-most-the-free-magnitude
        return q, wrap(u, c)
    def forall(self, label, f):
        """generalisation: prove f(d) for an arbitrary coordinate d, then use it for all coordinates"""
        I = self.I; d = I.fresh('d', IntS); I.assume(self.rng(d))
        I.ob('step:' + label, f(d), kind='lemma')
        I.assume(ForAll([d_], Implies(self.rng(d_), f(d_))))
    def S(self, f): return SUMD(lam(f), self.D)
    # facts about finite sums, as instances for the given term functions
    def sum_nonneg(self, f): self.I.assume(Implies(ForAll([d_], Implies(self.rng(d_), f(d_) >= 0)), self.S(f) >= 0))
    def sum_cong(self, f, g): self.I.assume(Implies(ForAll([d_], Implies(self.rng(d_), f(d_) == g(d_))), self.S(f) == self.S(g)))
    def sum_mono(self, f, g): self.I.assume(Implies(ForAll([d_], Implies(self.rng(d_), f(d_) <= g(d_))), self.S(f) <= self.S(g)))
    def sum_zero(self, f): self.I.assume(Implies(ForAll([d_], Implies(self.rng(d_), f(d_) == 0)), self.S(f) == 0))
    def sqrt_facts(self, *xs):
        for x in xs: self.I.assume(Implies(x >= 0, And(SQRT(x) >= 0, SQRT(x) * SQRT(x) == x)))
        for x in xs:
            for y in xs:
                if not x.eq(y): self.I.assume(Implies(And(0 <= x, x <= y), SQRT(x) <= SQRT(y)))
        self.I.assume(SQRT(RealVal(0)) == 0)

def u_metric_laws():
    """metric laws of the proved formula dist(x, y) = sqrt(SUM_d wrap(x_d - y_d, cell_d)^2), for every dimension and every positive cell"""
    def body(I):
        D = I.fresh('D', IntS); I.assume(D >= 1)
        L = Laws(I, D)
        x, y, z, c = (z3.Function(n, IntS, RealS) for n in ('x', 'y', 'z', 'cell'))
        kx, ky = z3.Function('kx', IntS, IntS), z3.Function('ky', IntS, IntS)
        I.assume(ForAll([d_], c(d_) > 0))
        w = lambda a, b: (lambda d: wrap(a(d) - b(d), c(d)))
        sq = lambda f: (lambda d: f(d) * f(d))
        Sxy, Syx = L.S(sq(w(x, y))), L.S(sq(w(y, x)))
        # 1. non-negative
        L.forall('squares-are-non-negative', lambda d: sq(w(x, y))(d) >= 0)
        L.sum_nonneg(sq(w(x, y))); L.sqrt_facts(Sxy)
        I.ob('law[C15]:non-negative', And(Sxy >= 0, SQRT(Sxy) >= 0), kind='lemma')
        # 2. symmetric
        def sym(d):
            q, _ = L.coord(x(d) - y(d), c(d)); q2, _ = L.coord(y(d) - x(d), c(d))
            I.assume(Fr(-q) == -Fr(q))                                   # lemma wrap-is-odd at q
            I.ob('step:reversed-difference-in-cell-units-is-the-negative', q2 == -q, kind='lemma'); I.assume(q2 == -q)
            return sq(w(x, y))(d) == sq(w(y, x))(d)
        dd = I.fresh('d', IntS); I.assume(L.rng(dd))
        g = sym(dd); I.ob('step:each-squared-wrapped-coordinate-is-symmetric', g, kind='lemma')
        I.assume(ForAll([d_], Implies(L.rng(d_), sq(w(x, y))(d_) == sq(w(y, x))(d_))))
        L.sum_cong(sq(w(x, y)), sq(w(y, x)))
        I.ob('law[C15]:symmetric', Sxy == Syx, kind='lemma')
    return Unit('laws[non-negative,symmetric]', body, functions=[])

def u_metric_laws2():
    def body(I):
        D = I.fresh('D', IntS); I.assume(D >= 1)
        L = Laws(I, D)
        x, y, c = (z3.Function(n, IntS, RealS) for n in ('x', 'y', 'cell'))
        kx, ky = z3.Function('kx', IntS, IntS), z3.Function('ky', IntS, IntS)
        I.assume(ForAll([d_], c(d_) > 0))
        w = lambda a, b: (lambda d: wrap(a(d) - b(d), c(d)))
        sq = lambda f: (lambda d: f(d) * f(d))
        Sxy = L.S(sq(w(x, y)))
        # 3./4. invariance under whole-cell shifts of either point (hence zero between a point and its periodic images)
        xs = lambda d: x(d) + z3.ToReal(kx(d)) * c(d); ys = lambda d: y(d) + z3.ToReal(ky(d)) * c(d)
        dd = I.fresh('d', IntS); I.assume(L.rng(dd))
        q, _ = L.coord(x(dd) - y(dd), c(dd)); q2, _ = L.coord(xs(dd) - ys(dd), c(dd))
        kk = kx(dd) - ky(dd)
        g0 = q2 == q + z3.ToReal(kk)
        I.ob('step:shifted-difference-in-cell-units-differs-by-an-integer', g0, kind='lemma'); I.assume(g0)
        I.assume(ab(Fr(q + z3.ToReal(kk))) == ab(Fr(q)))                 # lemma unchanged-by-integer-shifts at q, k
        Fa, Fb = I.fresh('Fa', RealS), I.fresh('Fb', RealS); I.assume(And(Fa == Fr(q), Fb == Fr(q2)))
        h = Fb * Fb == Fa * Fa
        I.ob('step:equal-magnitudes-have-equal-squares', h, kind='lemma'); I.assume(h)
        h2 = And(sq(w(xs, ys))(dd) == c(dd) * c(dd) * (Fb * Fb), sq(w(x, y))(dd) == c(dd) * c(dd) * (Fa * Fa))
        I.ob('step:squared-wrapped-coordinates-as-c^2-F^2', h2, kind='lemma'); I.assume(h2)
        g1 = sq(w(xs, ys))(dd) == sq(w(x, y))(dd)
        I.ob('step:each-squared-wrapped-coordinate-is-unchanged-by-whole-cell-shifts', g1, kind='lemma')
        I.assume(ForAll([d_], Implies(L.rng(d_), sq(w(xs, ys))(d_) == sq(w(x, y))(d_))))
        L.sum_cong(sq(w(xs, ys)), sq(w(x, y)))
        I.ob('law[C15]:unchanged-by-integer-multiples-of-the-cell', L.S(sq(w(xs, ys))) == Sxy, kind='lemma')
        # zero at images: y = x + k cell
        xi = lambda d: x(d) + z3.ToReal(kx(d)) * c(d)
        d3 = I.fresh('d', IntS); I.assume(L.rng(d3))
        q3, _ = L.coord(x(d3) - xi(d3), c(d3))
        g2 = q3 == z3.ToReal(-kx(d3))
        I.ob('step:difference-to-an-image-is-an-integer-in-cell-units', g2, kind='lemma'); I.assume(g2)
        I.assume(Fr(z3.ToReal(-kx(d3))) == 0)                            # lemma wrap-vanishes-at-integers
        g3 = sq(w(x, xi))(d3) == 0
        I.ob('step:each-wrapped-coordinate-to-an-image-vanishes', g3, kind='lemma')
        I.assume(ForAll([d_], Implies(L.rng(d_), sq(w(x, xi))(d_) == 0)))
        L.sum_zero(sq(w(x, xi))); L.sqrt_facts(L.S(sq(w(x, xi))))
        I.ob('law[C15]:zero-between-a-point-and-its-periodic-images', SQRT(L.S(sq(w(x, xi)))) == 0, kind='lemma')
    return Unit('laws[image-shifts,zero-at-images]', body, functions=[])

def u_metric_laws3():
    def body(I):
        D = I.fresh('D', IntS); I.assume(D >= 1)
        L = Laws(I, D)
        x, y, z, c = (z3.Function(n, IntS, RealS) for n in ('x', 'y', 'z', 'cell'))
        I.assume(ForAll([d_], c(d_) > 0))
        w = lambda a, b: (lambda d: wrap(a(d) - b(d), c(d)))
        sq = lambda f: (lambda d: f(d) * f(d))
        Sxy = L.S(sq(w(x, y)))
        free = lambda d: (x(d) - y(d)) * (x(d) - y(d)); quarter = lambda d: c(d) * c(d) * RealVal('1/4')
        dd = I.fresh('d', IntS); I.assume(L.rng(dd))
        q, _ = L.coord(x(dd) - y(dd), c(dd))
        F = I.fresh('F', RealS); I.assume(F == Fr(q))
        g1 = sq(w(x, y))(dd) <= free(dd); g2 = sq(w(x, y))(dd) <= quarter(dd)
        I.ob('step:squared-wrapped-coordinate-is-c^2-F^2', sq(w(x, y))(dd) == c(dd) * c(dd) * (F * F), kind='lemma'); I.assume(sq(w(x, y))(dd) == c(dd) * c(dd) * (F * F))
        I.ob('step:F^2-bounds', And(F * F <= RealVal('1/4'), F * F <= q * q), kind='lemma'); I.assume(And(F * F <= RealVal('1/4'), F * F <= q * q))
        I.ob('step:free-coordinate-squared-is-c^2-q^2', free(dd) == c(dd) * c(dd) * (q * q), kind='lemma'); I.assume(free(dd) == c(dd) * c(dd) * (q * q))
        I.ob('step:each-squared-wrapped-coordinate-is-at-most-the-squared-free-coordinate', g1, kind='lemma')
        I.ob('step:each-squared-wrapped-coordinate-is-at-most-a-quarter-of-the-squared-cell-length', g2, kind='lemma')
        I.assume(ForAll([d_], Implies(L.rng(d_), sq(w(x, y))(d_) <= free(d_)))); I.assume(ForAll([d_], Implies(L.rng(d_), sq(w(x, y))(d_) <= quarter(d_))))
        I.assume(ForAll([d_], Implies(L.rng(d_), sq(w(x, y))(d_) >= 0)))         # squares (proved in laws[non-negative,symmetric])
        L.sum_mono(sq(w(x, y)), free); L.sum_mono(sq(w(x, y)), quarter); L.sum_nonneg(sq(w(x, y)))
        Sfree, Squart = L.S(free), L.S(quarter)
        L.sqrt_facts(Sxy, Sfree, Squart)
        I.ob('law[C15]:never-larger-than-the-free-space-distance', SQRT(Sxy) <= SQRT(Sfree), kind='lemma')
        I.ob('law[C15]:never-larger-than-half-the-cell-diagonal (sqrt of the summed quarter squares)', SQRT(Sxy) <= SQRT(Squart), kind='lemma')
        # triangle inequality, coordinate by coordinate (the l2 step is Minkowski's inequality: cited, instance assumed)
        d2 = I.fresh('d', IntS); I.assume(L.rng(d2))
        qa, _ = L.coord(x(d2) - y(d2), c(d2)); qb, _ = L.coord(y(d2) - z(d2), c(d2)); qc, _ = L.coord(x(d2) - z(d2), c(d2))
        g3 = qc == qa + qb
        I.ob('step:differences-add-in-cell-units', g3, kind='lemma'); I.assume(g3)
        I.assume(ab(Fr(qa + qb)) <= ab(Fr(qa)) + ab(Fr(qb)))             # lemma wrap-magnitude-obeys-the-triangle-inequality at qa, qb
        g4 = ab(w(x, z)(d2)) <= ab(w(x, y)(d2)) + ab(w(y, z)(d2))
        Fa, Fb, Fc = I.fresh('Fa', RealS), I.fresh('Fb', RealS), I.fresh('Fc', RealS); I.assume(And(Fa == Fr(qa), Fb == Fr(qb), Fc == Fr(qc)))
        cc = c(d2)
        for nm, F_, wv in (('xy', Fa, w(x, y)(d2)), ('yz', Fb, w(y, z)(d2)), ('xz', Fc, w(x, z)(d2))):
            I.assume(ab(cc * F_) == cc * ab(F_))                         # lemma magnitude-of-a-positive-multiple at cell length, F
            h = ab(wv) == cc * ab(F_)
            I.ob('step:magnitude-of-the-wrapped-coordinate-is-the-cell-length-times-the-magnitude-in-cell-units:' + nm, h, kind='lemma'); I.assume(h)
        h = ab(Fc) <= ab(Fa) + ab(Fb)
        I.ob('step:triangle-in-cell-units', h, kind='lemma'); I.assume(h)
        I.ob('law[C15]:triangle-inequality-in-every-coordinate', g4, kind='lemma')
        I.assume(ForAll([d_], Implies(L.rng(d_), ab(w(x, z)(d_)) <= ab(w(x, y)(d_)) + ab(w(y, z)(d_)))))
        Sxz, Syz = L.S(sq(w(x, z))), L.S(sq(w(y, z)))
        # Minkowski: |a_d| <= |b_d| + |c_d| for all d  =>  ||a|| <= ||b|| + ||c||
        I.assume(Implies(ForAll([d_], Implies(L.rng(d_), ab(w(x, z)(d_)) <= ab(w(x, y)(d_)) + ab(w(y, z)(d_)))), SQRT(Sxz) <= SQRT(Sxy) + SQRT(Syz)))
        I.ob('law[C15]:triangle-inequality (coordinate-wise triangle proved; the l2 step is an instance of Minkowski\'s inequality)', SQRT(Sxz) <= SQRT(Sxy) + SQRT(Syz), kind='lemma')
    return Unit('laws[free-distance,half-diagonal,triangle]', body, functions=[])

UNITS = [lambda: u_scalar_lemmas(), lambda: u_lift_lemmas(), lambda: u_scale_lemma(), lambda: u_metric_laws(), lambda: u_metric_laws2(), lambda: u_metric_laws3(), lambda: u_periodic(False), lambda: u_periodic(True), lambda: u_periodic(False, True), lambda: u_no_cell(False), lambda: u_no_cell(True), lambda: u_reject(), lambda: u_reject_m()]
for st in (True, False):
    for wc in (True, False):
        for sq in (True, False):
            UNITS.append((lambda a, b, c: (lambda: u_mahalanobis(a, b, c)))(st, wc, sq))
RT = True
TRUSTED = ["np.round = exact round-half-to-even (rne); floats as reals (the statement's 'zero' / 'unchanged' hold exactly here, up to rounding in floating point)",
           "SUMD(f, D): the finite sum over the coordinates, uninterpreted; used facts, each assumed as an instance for concrete term functions: non-negative terms give a non-negative sum, "
           "equal terms equal sums, smaller terms smaller sums, zero terms a zero sum; sqrt is non-negative, monotone, sqrt(x)^2 = x for x >= 0",
           "l2 triangle from the coordinate-wise triangle (which is proved here): Lean theorem l2_triangle_of_coordinatewise (lemmas/lean/Lemmas.lean, machine-checked by Lean 4 + Mathlib); its instance for the concrete term functions is assumed",
           "lemma instances are instantiated by hand in the law units (each names the lemma it instantiates; the lemmas themselves are proved for all arguments in the lemma units)",
           "sklearn check_pairwise_arrays / _euclidean_distances contracts; Mahalanobis identities (identity precision = periodic Euclid, L L^T = whitening) follow from the proved quadratic-form formula and are checked at run time only"]
LEAN_LEMMAS = "lemmas/lean/Lemmas.lean"
