"""Contracts for the greedy selectors (C01 bookkeeping, C02 FPS distances, C06 Voronoi FPS, C08 history independence).

Real functions interpreted: GreedySelector.__init__/fit/_init_greedy_search/_continue_greedy_search/_get_best_new_selection/
_update_post_selection/_postprocess/get_support/_get_support_mask/transform and the overrides of _FPS, _PCovFPS, _CUR, _PCovCUR,
VoronoiFPS, through the public classes of feature_selection / sample_selection.
"""
from pyvc.api import *
from pyvc import veclayer as VL, skstubs
from pyvc.veclayer import dot, sqd, Vec

SEL = 'skmatter._selection'
t_, s_, j_, c_ = Int('t'), Int('s'), Int('j'), Int('c')

def extend_ext(ext):
    VL.install(ext)
    skstubs.install(ext)
    sc = ExtNS('scipy', linalg=ExtNS('scipy.linalg'), sparse=ExtNS('scipy.sparse', linalg=ExtNS('scipy.sparse.linalg')))
    ext['modules']['scipy'] = sc
from pyvc.engine import ExtNS

PUBLIC = {
    ('FPS', 'sample'): 'skmatter.sample_selection._base.FPS', ('FPS', 'feature'): 'skmatter.feature_selection._base.FPS',
    ('PCovFPS', 'sample'): 'skmatter.sample_selection._base.PCovFPS', ('PCovFPS', 'feature'): 'skmatter.feature_selection._base.PCovFPS',
    ('CUR', 'sample'): 'skmatter.sample_selection._base.CUR', ('CUR', 'feature'): 'skmatter.feature_selection._base.CUR',
    ('PCovCUR', 'sample'): 'skmatter.sample_selection._base.PCovCUR', ('PCovCUR', 'feature'): 'skmatter.feature_selection._base.PCovCUR',
    ('VoronoiFPS', 'sample'): 'skmatter.sample_selection._voronoi_fps.VoronoiFPS',
}

class Cfg:
    """one configuration class: everything that selects a code path is concrete, all numbers and data are symbolic"""
    def __init__(self, family, direction, nsel='int', thr=None, warm=False, init='int', with_y=False, recompute=1):
        self.family, self.direction, self.nsel, self.thr, self.warm, self.init, self.with_y, self.recompute = family, direction, nsel, thr, warm, init, with_y, recompute
        self.axis = 1 if direction == 'feature' else 0
    @property
    def name(self):
        return f"{self.family}[{self.direction},n={self.nsel},thr={self.thr},{'warm' if self.warm else 'cold'},init={self.init}" + (",y" if self.with_y else "") + (f",re={self.recompute}" if self.family in ('CUR', 'PCovCUR') else "") + "]"

# ------------------------------------------------------------------ views of the selector state
class SelView:
    def __init__(self, I, me, ctx):
        self.I, self.me, self.ctx = I, me, ctx
        o = I.O(me)
        self.o = o
    def a(self, name): return self.I.A(self.o.attrs[name])
    def has(self, name): return name in self.o.attrs
    @property
    def nsel(self): return tz(self.o.attrs['n_selected_'])
    def idx(self, t): return self.a('selected_idx_').elem(t)

def vecs_of(A, ax):
    """vector view of a 2-D buffer along axis ax: its tracked vectors, or the zero vector for a buffer still holding np.zeros"""
    if A.vecs is not None and A.vecs[0] == ax: return A.vecs[1]
    if A.vecs is None and A.tag and A.tag[0] == 'const' and z3.is_rational_value(z3.simplify(A.tag[1])) and z3.simplify(A.tag[1]).numerator_as_long() == 0:
        return lambda t: VL.ZEROV
    return None

def sel_invariant(I, me, ctx, cap):
    """representation invariant Sel(self, X, y) with buffer capacity `cap` — list of (label, formula)"""
    v = SelView(I, me, ctx)
    X = I.A(ctx['X']); N = ctx['N']; ax = ctx['axis']
    Xs = v.a('X_selected_'); idx = v.a('selected_idx_'); n = v.nsel
    other = 1 - ax
    out = [('[C01]count-in-range', And(0 <= n, n <= cap)),
           ('[C01]index-buffer-has-capacity', And(idx.ndim == 1, tz(idx.shape[0]) == cap)),
           ('[C01]data-buffer-has-capacity', And(tz(Xs.shape[ax]) == cap, tz(Xs.shape[other]) == tz(X.shape[other]))),
           ('[C01]indices-in-range', ForAll([t_], Implies(And(0 <= t_, t_ < n), And(0 <= idx.elem(t_), idx.elem(t_) < N)), patterns=[idx.elem(t_)])),
           ]
    xsv = vecs_of(Xs, ax)
    if xsv is not None and X.vecs is not None and X.vecs[0] == ax:
        out.append(('[C01]stored-slices-equal-input-at-indices', ForAll([t_], Implies(And(0 <= t_, t_ < n), xsv(t_) == X.vecs[1](idx.elem(t_))), patterns=[xsv(t_)])))
    else:
        out.append(('[C01]stored-slices-equal-input-at-indices', BoolVal(False)))
    if ctx.get('y') is not None and ax == 0:
        Y = I.A(ctx['y'])
        if v.has('y_selected_'):
            Ys = v.a('y_selected_')
            out.append(('[C01]target-buffer-has-capacity', And(tz(Ys.shape[0]) == cap, tz(Ys.shape[1]) == tz(Y.shape[1]))))
            out.append(('[C01]stored-targets-equal-input-at-indices', ForAll([t_, c_], Implies(And(0 <= t_, t_ < n, 0 <= c_, c_ < tz(Y.shape[1])), Ys.elem(t_, c_) == Y.elem(idx.elem(t_), c_)))))
        else:
            out.append(('[C01]target-buffer-exists', BoolVal(False)))
    return out

def distinct(I, me):
    v = SelView(I, me, None); idx = v.a('selected_idx_'); n = v.nsel
    return ForAll([s_, t_], Implies(And(0 <= s_, s_ < t_, t_ < n), idx.elem(s_) != idx.elem(t_)), patterns=[z3.MultiPattern(idx.elem(s_), idx.elem(t_))])

def dist_fn(I, me, ctx):
    """the squared distance the selector is specified over: Euclidean between rows/columns (FPS, Voronoi FPS) or the one induced by
    the PCovR-modified Gram/covariance matrix D: d(a,b) = D_aa + D_bb - 2 D_ab (PCov-FPS)"""
    if ctx['cfg'].family == 'PCovFPS':
        D = I.A(I.attr(me, 'pcovr_distance_')).elem
        return (lambda a, b: D(a, a) + D(b, b) - 2 * D(a, b)), (lambda a: D(a, a))
    V = I.A(ctx['X']).vecs[1]
    return (lambda a, b: sqd(V(a), V(b))), (lambda a: dot(V(a), V(a)))

def fps_invariant(I, me, ctx, wit, ok=None, wit2=None, ninit=None):
    """C02: norms, distance table = true minimum distance to the selected set (wit = ghost/real nearest-selected rank)"""
    v = SelView(I, me, ctx); X = I.A(ctx['X']); N = ctx['N']; n = v.nsel
    idx = v.a('selected_idx_'); H = v.a('hausdorff_'); Hs = v.a('hausdorff_at_select_'); Nm = v.a('norms_')
    d, selfdot = dist_fn(I, me, ctx)
    out = [('[C02]norms-are-squared-norms', And(tz(Nm.shape[0]) == N, ForAll([j_], Implies(And(0 <= j_, j_ < N), Nm.elem(j_) == selfdot(j_)), patterns=[Nm.elem(j_)]))),
           ('[C02]table-shape', And(tz(H.shape[0]) == N, tz(Hs.shape[0]) == N)),
           ('[C02]table-is-lower-bound-of-distances-to-selected', ForAll([j_, t_], Implies(And(0 <= j_, j_ < N, 0 <= t_, t_ < n), H.elem(j_) <= d(j_, idx.elem(t_))), patterns=[z3.MultiPattern(H.elem(j_), idx.elem(t_))])),
           ('[C02]table-is-attained-at-witness', ForAll([j_], Implies(And(0 <= j_, j_ < N, n >= 1), And(0 <= wit(j_), wit(j_) < n, H.elem(j_) == d(j_, idx.elem(wit(j_))))), patterns=[H.elem(j_)])),
           ('[C02]table-infinite-before-first-selection', ForAll([j_], Implies(And(0 <= j_, j_ < N, n == 0), H.elem(j_) == INF), patterns=[H.elem(j_)])),
           ]
    if ok is not None and wit2 is not None:
        # reported per-selection distances (under pairwise distinct picks, so that no entry was overwritten)
        out += [('[C02]first-selection-reports-infinity', Implies(And(ok, n >= 1), Hs.elem(idx.elem(0)) == INF)),
                ('[C02]selection-distance-is-lower-bound-to-earlier-picks', Implies(ok, ForAll([t_, s_], Implies(And(0 <= s_, s_ < t_, t_ < n), Hs.elem(idx.elem(t_)) <= d(idx.elem(t_), idx.elem(s_))), patterns=[z3.MultiPattern(idx.elem(t_), idx.elem(s_))]))),
                ('[C02]selection-distance-is-attained-at-an-earlier-pick', Implies(ok, ForAll([t_], Implies(And(1 <= t_, t_ < n), And(0 <= wit2(t_), wit2(t_) < t_, Hs.elem(idx.elem(t_)) == d(idx.elem(t_), idx.elem(wit2(t_))))), patterns=[idx.elem(t_)]))),
                ('[C02]table-bounded-by-last-greedy-pick-distance', Implies(And(ok, n > ninit, n >= 1), ForAll([j_], Implies(And(0 <= j_, j_ < N), H.elem(j_) <= Hs.elem(idx.elem(n - 1))), patterns=[H.elem(j_)]))),
                ('[C02]selection-distances-never-increase-along-greedy-picks', Implies(ok, ForAll([t_], Implies(And(ninit <= t_, t_ + 1 < n, 0 <= t_), Hs.elem(idx.elem(t_ + 1)) <= Hs.elem(idx.elem(t_))), patterns=[idx.elem(t_)])))]
    return out

# ------------------------------------------------------------------ units
def build_selector(I, cfg):
    """symbolic inputs + constructed selector for a configuration; returns ctx"""
    n_s = I.fresh('n_samples', IntS); n_f = I.fresh('n_features', IntS)
    I.assume(And(n_s >= 1, n_f >= 1))
    X = I.fresh_arr('X', (n_s, n_f), layout=cfg.axis)
    ctx = dict(X=X, axis=cfg.axis, N=(n_f if cfg.axis == 1 else n_s), n_s=n_s, n_f=n_f, cfg=cfg,
               score_attr=('pi_' if cfg.family in ('CUR', 'PCovCUR') else 'hausdorff_'))
    for ax in VL.axioms(): I.assume(ax)
    u, w = z3.Consts('u!fin w!fin', Vec)
    I.assume(ForAll([u, w], dot(u, w) < INF))      # finite data (A-REAL): every inner product is below the np.inf constant
    I.assume(ForAll([u, w], sqd(u, w) < INF))
    if cfg.family == 'VoronoiFPS': I.assume(VL.voronoi_prune_axiom())
    kw = {}
    N_ = ctx['N']
    ninit = 2 if cfg.init == 'list2' else 1
    # quantifier of C01: n_to_select in {None, int in [1,n], float in (0,1] resolving to at least one selection}; initialisations no longer than the request
    if cfg.nsel == 'int':
        kw['n_to_select'] = I.fresh('n_to_select', IntS)
        if ninit > 1: I.assume(kw['n_to_select'] >= ninit)
    elif cfg.nsel == 'float':
        kw['n_to_select'] = I.fresh('n_to_select_frac', RealS)
        I.assume(z3.ToReal(N_) * kw['n_to_select'] >= ninit)
    else:
        I.assume(N_ >= 2 * ninit)
    if cfg.thr is not None:
        kw['score_threshold'] = I.fresh('score_threshold', RealS); kw['score_threshold_type'] = cfg.thr
    if cfg.family in ('FPS', 'PCovFPS', 'VoronoiFPS'):
        N_ = ctx['N']
        if cfg.init == 'int':
            kw['initialize'] = I.fresh('initialize', IntS); I.assume(And(0 <= kw['initialize'], kw['initialize'] < N_))
        elif cfg.init == 'random': kw['initialize'] = 'random'
        elif cfg.init == 'list2':
            a0, a1 = I.fresh('init0', IntS), I.fresh('init1', IntS)
            I.assume(And(0 <= a0, a0 < N_, 0 <= a1, a1 < N_, a0 != a1))     # quantifier: distinct in-range initial indices
            kw['initialize'] = [a0, a1]
    if cfg.family in ('CUR', 'PCovCUR'): kw['recompute_every'] = cfg.recompute
    if cfg.family in ('PCovFPS', 'PCovCUR'): kw['mixing'] = I.fresh('mixing', RealS)
    ctx['params'] = dict(kw)
    y = None
    if cfg.with_y or cfg.family in ('PCovFPS', 'PCovCUR'):
        y = I.fresh_arr('y', (n_s,))
    ctx['y_in'] = y
    ctx['X_in'] = X
    cls = I.repo.get(PUBLIC[(cfg.family, cfg.direction)])
    ctx['cls'] = cls
    me = I.instantiate(cls, [], kw)
    ctx['me'] = me
    return ctx

def havoc_fitted_state(I, ctx):
    """an arbitrary state left by a previous complete fit on the same data (warm-start precondition): every learned attribute is a fresh
    symbol constrained only by the representation invariant with capacity = number selected"""
    cfg = ctx['cfg']; me = ctx['me']; o = I.O(me); ax = cfg.axis; N = ctx['N']; X = I.A(ctx['X'])
    k = I.fresh('k_prev', IntS); I.assume(k >= 1)
    o.attrs['_axis'] = ax
    o.attrs['n_selected_'] = k
    o.attrs['selected_idx_'] = I.fresh_arr('idx_prev', (k,), IntS)
    shp = [X.shape[0], X.shape[1]]; shp[ax] = k
    o.attrs['X_selected_'] = I.fresh_arr('Xsel_prev', tuple(shp), layout=ax)
    o.attrs['first_score_'] = None if cfg.thr is None else I.fresh('first_score_prev', RealS)
    o.attrs['support_'] = I.fresh_arr('support_prev', (N,), BoolS)
    o.attrs['n_samples_in_'] = X.shape[0]; o.attrs['n_features_in_'] = X.shape[1]
    if ctx.get('y_in') is not None and ax == 0:
        o.attrs['y_selected_'] = I.fresh_arr('ysel_prev', (k, 1))
    fam = cfg.family
    if fam in ('FPS', 'PCovFPS', 'VoronoiFPS'):
        o.attrs['norms_'] = I.fresh_arr('norms_prev', (N,)); o.attrs['hausdorff_'] = I.fresh_arr('H_prev', (N,)); o.attrs['hausdorff_at_select_'] = I.fresh_arr('Hs_prev', (N,))
        if fam == 'PCovFPS': o.attrs['pcovr_distance_'] = I.fresh_arr('D_prev', (N, N))
        if fam == 'VoronoiFPS':
            o.attrs['vlocation_of_idx'] = I.fresh_arr('vloc_prev', (N,), IntS); o.attrs['dSL_'] = I.fresh_arr('dSL_prev', (k,))
            o.attrs['new_dist_'] = I.fresh_arr('newdist_prev', (N,))
            ff = I.fresh('full_fraction_prev', RealS); I.assume(And(0 <= ff, ff <= 1)); o.attrs['full_fraction'] = ff
        else:
            ctx['wit_prev'] = I.fresh_arr('wit_prev', (N,), IntS)
    else:
        o.attrs['X_current_'] = I.fresh_arr('Xcur_prev', (X.shape[0], X.shape[1]), layout=ax)
        o.attrs['pi_'] = I.fresh_arr('pi_prev', (N,))
        if fam == 'PCovCUR':
            o.attrs['X_ref_'] = ctx['X']; o.attrs['y_ref_'] = ctx.get('y2d'); o.attrs['y_current_'] = I.fresh_arr('ycur_prev', (X.shape[0], 1))
    ctx['ok_prev'] = I.fresh('ok_prev', BoolS)
    ctx['y'] = ctx.get('y2d')
    items = list(sel_invariant(I, me, ctx, k)) + [('n', o.attrs['n_selected_'] == k), ('distinct', Implies(ctx['ok_prev'], distinct(I, me)))]
    if fam in ('FPS', 'PCovFPS', 'VoronoiFPS'):
        wit = I.A(ctx['wit_prev']).elem if fam != 'VoronoiFPS' else I.A(o.attrs['vlocation_of_idx']).elem
        ctx['wit2_prev'] = I.fresh_arr('wit2_prev', (N,), IntS)
        ctx['ninit_prev'] = I.fresh('ninit_prev', IntS); I.assume(And(1 <= ctx['ninit_prev'], ctx['ninit_prev'] <= k))
        items += fps_invariant(I, me, ctx, wit, ctx['ok_prev'], I.A(ctx['wit2_prev']).elem, ctx['ninit_prev'])
        if fam == 'PCovFPS':
            D = I.A(o.attrs['pcovr_distance_']).elem; a, b = Int('a!p'), Int('b!p')
            I.assume(ForAll([a, b], D(a, b) == D(b, a))); I.assume(ForAll([a, b], D(a, a) + D(b, b) - 2 * D(a, b) < INF))
    else:
        items += cur_invariant(I, me, ctx, ctx['ok_prev'])
        P = I.A(o.attrs['pi_']).elem
        I.assume(ForAll([j_], And(P(j_) >= 0, P(j_) < INF)))
    for _, f in items: I.assume(f)
    ctx['k_prev'] = k

def fit_loop_contract(cfg):
    """loop 0 of GreedySelector.fit"""
    fam = cfg.family
    def ctx_of(I): return I.cur
    def inv(I, F, n, g):
        ctx = I.cur; me = F['self']
        ctx['X'] = F['X']; ctx['y'] = F['y']
        v = SelView(I, me, ctx)
        k0 = g['k0']; cap = g['cap']
        out = list(sel_invariant(I, me, ctx, cap))
        out.append(('[C01]count-advances-with-the-loop', And(v.nsel == k0 + n, 0 <= n, n <= tz(F['n_iterations']), cap == k0 + tz(F['n_iterations']))))
        out.append(('[C01]selected-indices-distinct-while-scores-positive', Implies(g['ok'], distinct(I, me))))
        if fam in ('FPS', 'PCovFPS', 'VoronoiFPS'):
            wit = I.A(g['wit']).elem if fam != 'VoronoiFPS' else v.a('vlocation_of_idx').elem
            out += fps_invariant(I, me, ctx, wit, g['ok'], I.A(g['wit2']).elem, g['ninit'])
            out.append(('[C02]at-least-one-selected', v.nsel >= 1))
        if fam in ('CUR', 'PCovCUR'):
            out += cur_invariant(I, me, ctx, g['ok'])
        if fam in ('FPS', 'PCovFPS', 'VoronoiFPS'):
            if fam == 'VoronoiFPS':
                out.append(('[C06]cell-table-shape', And(tz(v.a('vlocation_of_idx').shape[0]) == ctx['N'], tz(v.a('dSL_').shape[0]) == cap)))
        return And(*[f for _, f in out]) if not g.get('$labelled') else out
    def inv_labelled(I, F, n, g):
        g2 = dict(g); g2['$labelled'] = True
        return inv(I, F, n, g2)
    # ghost: k0 (selected at loop entry), cap (buffer capacity), wit (nearest selected rank per candidate)
    def k0_init(I, F): return tz(I.attr(F['self'], 'n_selected_'))
    def k0_step(I, Fpre, Fpost, g, heap_pre): return g
    def cap_init(I, F): return tz(I.attr(F['self'], 'n_selected_')) + tz(F['n_iterations'])
    def wit_init(I, F):
        # witness of the table after the initial selections: nearest of the (concretely many) initial picks; warm start: the previous fit's witness
        ctx = I.cur; me = F['self']
        if 'wit_prev' in ctx: return ctx['wit_prev']
        k0 = conc(I.attr(me, 'n_selected_'))
        if is_sym(k0): raise Unsupported("symbolic number of initial selections without a previous witness")
        d, _ = dist_fn(I, me, ctx); idx = I.A(I.attr(me, 'selected_idx_'))
        def w(j):
            r = IntVal(max(k0 - 1, 0))
            for t in range(k0 - 2, -1, -1):
                better = And(*[d(tz(j), idx.elem(t)) <= d(tz(j), idx.elem(u)) for u in range(t + 1, k0)])
                r = If(better, IntVal(t), r)
            return r
        return I.new_arr(ArrVal((ctx['N'],), w, IntS))
    def wit_step(I, Fpre, Fpost, gw, heap_pre):
        # new rank where the new distance is strictly smaller than the table (np.minimum keeps the old value on ties)
        me = Fpost['self']; ctx = I.cur
        ctx['$wit_pre'] = I.A(gw).elem
        d, _ = dist_fn(I, me, ctx)
        Hpre = heap_pre[heap_pre[me.id].attrs['hausdorff_'].id]
        npre = tz(heap_pre[me.id].attrs['n_selected_'])
        idx = I.A(I.attr(me, 'selected_idx_'))
        L = idx.elem(npre)
        old = I.A(gw).elem
        return I.new_arr(ArrVal(I.A(gw).shape, lambda j: If(d(tz(j), L) < Hpre.elem(j), npre, old(j)), IntS))
    def ok_init(I, F): return BoolVal(True) if 'ok_prev' not in I.cur else I.cur['ok_prev']
    def ok_step(I, Fpre, Fpost, ok, heap_pre):
        # the greedy pick had a score strictly above 0 (= the score of every already selected item)
        me = Fpost['self']
        I.cur['$heap_pre'] = heap_pre
        sc = heap_pre[heap_pre[me.id].attrs[I.cur['score_attr']].id]
        bigs = I.cur.pop('orth_big', [])
        return And(ok, sc.elem(tz(Fpost['new_idx'])) > 0, *bigs)
    ghost = {'k0': (k0_init, k0_step), 'cap': (cap_init, k0_step), 'ok': (ok_init, ok_step)}
    if fam in ('FPS', 'PCovFPS'): ghost['wit'] = (wit_init, wit_step)
    def wit2_init(I, F):
        ctx = I.cur; me = F['self']
        if 'wit2_prev' in ctx: return ctx['wit2_prev']
        k0 = conc(I.attr(me, 'n_selected_'))
        d, _ = dist_fn(I, me, ctx); idx = I.A(I.attr(me, 'selected_idx_'))
        def w(t):       # among the (concretely many) initial picks: nearest earlier one
            r = IntVal(0)
            for tt in range(1, k0):
                best = IntVal(tt - 1)
                for s in range(tt - 2, -1, -1):
                    best = If(And(*[d(idx.elem(tt), idx.elem(s)) <= d(idx.elem(tt), idx.elem(u)) for u in range(s + 1, tt)]), IntVal(s), best)
                r = If(tz(t) == tt, best, r)
            return r
        return I.new_arr(ArrVal((ctx['N'],), w, IntS))
    def wit2_step(I, Fpre, Fpost, gw, heap_pre):
        me = Fpost['self']
        npre = tz(heap_pre[me.id].attrs['n_selected_'])
        r = tz(Fpost['new_idx'])
        if fam == 'VoronoiFPS': wpre = heap_pre[heap_pre[me.id].attrs['vlocation_of_idx'].id].elem
        else: wpre = heap_pre[Fpost['$ghost_pre_wit'].id].elem if False else I.cur['$wit_pre']
        old = I.A(gw).elem
        return I.new_arr(ArrVal(I.A(gw).shape, lambda t: If(tz(t) == npre, wpre(r), old(t)), IntS))
    def ninit_init(I, F): return I.cur.get('ninit_prev', tz(I.attr(F['self'], 'n_selected_')))
    if fam in ('FPS', 'PCovFPS', 'VoronoiFPS'):
        ghost['wit2'] = (wit2_init, wit2_step); ghost['ninit'] = (ninit_init, k0_step)
    lc = LoopContract(inv_labelled, ghost=ghost)
    lc.const_ghost = {'k0', 'cap', 'ninit'}
    def hints(I, Fpre, Fpost, n, gpre, gpost):
        # C02: the greedy pick maximises the table (which the invariant identifies with the true minimum distance to the selected set)
        if fam not in ('FPS', 'PCovFPS', 'VoronoiFPS'): return []
        me = Fpost['self']; hp = I.cur['$heap_pre']
        Hpre = hp[hp[me.id].attrs['hausdorff_'].id]; npre = tz(hp[me.id].attrs['n_selected_'])
        r = tz(Fpost['new_idx']); idx = I.A(I.attr(me, 'selected_idx_'))
        Hs_pre = hp[hp[me.id].attrs['hausdorff_at_select_'].id]; idx_pre = hp[hp[me.id].attrs['selected_idx_'].id]
        Hs = I.A(I.attr(me, 'hausdorff_at_select_')); okp = gpost['ok']
        return [('[C02]pick-maximises-the-minimum-distance-to-the-selected-set', And(idx.elem(npre) == r, 0 <= r, r < I.cur['N'],
                 ForAll([j_], Implies(And(0 <= j_, j_ < I.cur['N']), Hpre.elem(j_) <= Hpre.elem(r))))),
                # proof steps (each discharged, then available to the invariant obligations): the step touches only slot n of the index
                # list and only the entry of the new pick in the per-selection distances
                ('[C02]step-keeps-earlier-indices', ForAll([t_], Implies(And(0 <= t_, t_ < npre), idx.elem(t_) == idx_pre.elem(t_)), patterns=[idx.elem(t_)])),
                ('[C02]step-records-the-table-value-of-the-pick', Hs.elem(r) == Hpre.elem(r)),
                ('[C02]new-pick-was-not-selected-before', Implies(okp, ForAll([t_], Implies(And(0 <= t_, t_ < npre), idx_pre.elem(t_) != r), patterns=[idx_pre.elem(t_)]))),
                ('[C02]step-keeps-earlier-selection-distances', Implies(okp, ForAll([t_], Implies(And(0 <= t_, t_ < npre), Hs.elem(idx_pre.elem(t_)) == Hs_pre.elem(idx_pre.elem(t_))), patterns=[idx_pre.elem(t_)]))),
                ('[C02]new-selection-distance-does-not-exceed-the-previous-one', Implies(And(okp, npre > gpre['ninit'], npre >= 1), Hs.elem(idx.elem(npre)) <= Hs.elem(idx.elem(npre - 1))))]
    lc.hints = hints
    lc.types = {'self.X_selected_': ('vec', cfg.axis)}
    return lc

def y_is_targets(I, Y, ctx):
    if not isinstance(Y, ArrRef) or ctx.get('y_in') is None: return BoolVal(False)
    A = I.A(Y); yin = I.A(ctx['y_in']); i = Int('i!y')
    if A.ndim == 2:
        return And(tz(A.shape[0]) == tz(yin.shape[0]), tz(A.shape[1]) == 1, ForAll([i], Implies(And(0 <= i, i < tz(yin.shape[0])), A.elem(i, 0) == yin.elem(i))))
    return And(tz(A.shape[0]) == tz(yin.shape[0]), ForAll([i], Implies(And(0 <= i, i < tz(yin.shape[0])), A.elem(i) == yin.elem(i))))

def pcov_dist_contract(which):
    """pcovr_kernel / pcovr_covariance as used by the selectors: called with the selector's mixing on the validated data;
    returns a symmetric N x N matrix (its formula is the subject of the units in contracts/pcovr_utils, C02/C03)"""
    def requires(I, F):
        ctx = I.cur
        return [('mixing-is-the-configured-mixing', BoolVal(F['mixing'] is ctx['params'].get('mixing') or (is_sym(F['mixing']) and z3.eq(F['mixing'], ctx['params'].get('mixing'))))),
                ('X-is-the-data', BoolVal(isinstance(F['X'], ArrRef) and F['X'].id == ctx['X_in'].id)),
                ('Y-is-the-targets', y_is_targets(I, F['Y'], ctx))]
    def make_result(I, F):
        X = I.A(F['X']); n = X.shape[0] if which == 'kernel' else X.shape[1]
        r = I.fresh_arr('pcovD', (n, n)); D = I.A(r).elem
        a, b = Int('a!d'), Int('b!d')
        I.assume(ForAll([a, b], D(a, b) == D(b, a)))
        I.assume(ForAll([a, b], D(a, b) < INF)); I.assume(ForAll([a, b], D(a, a) + D(b, b) - 2 * D(a, b) < INF))
        return r
    return FuncContract(requires=requires, make_result=make_result)

def zero_slice(A, j):
    return A.vecs[1](j) == VL.ZEROV

def compute_pi_contract():
    """leverage scores (C07 states what they are); used here only through: one non-negative score per candidate, and a candidate whose
    residual slice is the zero vector has score 0 (its singular-vector component vanishes)"""
    def make_result(I, F):
        me = F['self']; ax = I.attr(me, '_axis')
        Xc = I.A(F['X'])
        n = Xc.shape[0] if ax == 0 else Xc.shape[1]
        r = I.fresh_arr('pi', (n,)); P = I.A(r).elem
        I.assume(ForAll([j_], And(P(j_) >= 0, P(j_) < INF), patterns=[P(j_)]))
        if Xc.vecs is not None and Xc.vecs[0] == ax:
            # holds when the residual still has rank >= k (singular vectors of vanishing singular values are arbitrary): ghost flag, part of `ok`
            rank_ok = I.fresh('residual_rank_at_least_k', BoolS)
            I.cur.setdefault('orth_big', []).append(rank_ok)
            I.assume(Implies(rank_ok, ForAll([j_], Implies(And(0 <= j_, j_ < tz(n), zero_slice(Xc, j_)), P(j_) == 0), patterns=[P(j_)])))
        return r
    return FuncContract(make_result=make_result)

def x_orth_contract():
    """X_orthogonalizer(x1, c): (C07 proves the projection formula) used here through: same shape; column c of the result is the zero
    vector when its norm reached the tolerance (normalising branch); zero columns stay zero"""
    def requires(I, F):
        A = I.A(F['x1'])
        return [('column-in-range', And(0 <= tz(F['c']), tz(F['c']) < tz(A.shape[1]))), ('x2-unused', BoolVal(F['x2'] is None))]
    def make_result(I, F):
        A = I.A(F['x1'])
        if A.vecs is None or A.vecs[0] != 1: raise Unsupported("orthogonalizer on an array without column vectors")
        r = I.fresh_arr('xorth', A.shape, layout=1); R = I.A(r)
        big = I.fresh('norm_reached_tolerance', BoolS)
        I.cur.setdefault('orth_big', []).append(big)
        I.assume(Implies(big, R.vecs[1](tz(F['c'])) == VL.ZEROV))
        I.assume(ForAll([j_], Implies(A.vecs[1](j_) == VL.ZEROV, R.vecs[1](j_) == VL.ZEROV), patterns=[R.vecs[1](j_)]))
        return r
    return FuncContract(requires=requires, make_result=make_result)

def y_orth_contract():
    def make_result(I, F):
        Y = I.A(F['y']); return I.fresh_arr('yorth', Y.shape)
    return FuncContract(make_result=make_result)

def cur_invariant(I, me, ctx, ok):
    v = SelView(I, me, ctx); X = I.A(ctx['X']); N = ctx['N']; ax = ctx['axis']; n = v.nsel
    Xc = v.a('X_current_'); P = v.a('pi_'); idx = v.a('selected_idx_')
    out = [('[C07]residual-has-the-shape-of-the-data', And(tz(Xc.shape[0]) == tz(X.shape[0]), tz(Xc.shape[1]) == tz(X.shape[1]), BoolVal(Xc.vecs is not None and Xc.vecs[0] == ax))),
           ('[C07]one-score-per-candidate', tz(P.shape[0]) == N),
           ('[C07]selected-items-have-zero-score', Implies(ok, ForAll([t_], Implies(And(0 <= t_, t_ < n), P.elem(idx.elem(t_)) == 0), patterns=[idx.elem(t_)])))]
    if ctx['cfg'].recompute != 0 and Xc.vecs is not None:
        out.append(('[C07]selected-slices-of-the-residual-are-zero', Implies(ok, ForAll([t_], Implies(And(0 <= t_, t_ < n), zero_slice(Xc, idx.elem(t_))), patterns=[idx.elem(t_)]))))
    return out

VUPD = 'skmatter.sample_selection._voronoi_fps.VoronoiFPS._update_post_selection'

def voronoi_update_spec(I, me, ctx, old_heap, L):
    """functional postcondition of VoronoiFPS._update_post_selection(X, y, L) over the pre-state `old_heap` — list of (label, formula)"""
    o = I.O(me); po = old_heap[me.id]; N = ctx['N']; ax = 0
    pre = lambda a: old_heap[po.attrs[a].id]
    post = lambda a: I.A(o.attrs[a])
    n = tz(po.attrs['n_selected_']); L = tz(L)
    V = I.A(ctx['X']).vecs[1]
    d = lambda a, b: sqd(V(a), V(b))
    H, H2 = pre('hausdorff_'), post('hausdorff_'); Hs, Hs2 = pre('hausdorff_at_select_'), post('hausdorff_at_select_')
    vl, vl2 = pre('vlocation_of_idx'), post('vlocation_of_idx'); idx, idx2 = pre('selected_idx_'), post('selected_idx_')
    Xs, Xs2 = pre('X_selected_'), post('X_selected_')
    xsv, xsv2 = vecs_of(Xs, ax), vecs_of(Xs2, ax)
    out = [('count', tz(o.attrs['n_selected_']) == n + 1),
           ('index-list', And(tz(idx2.shape[0]) == tz(idx.shape[0]), idx2.elem(n) == L, ForAll([t_], Implies(And(0 <= t_, t_ < tz(idx.shape[0]), t_ != n), idx2.elem(t_) == idx.elem(t_)), patterns=[idx2.elem(t_)]))),
           ('stored-data', BoolVal(False) if xsv is None or xsv2 is None else And(tz(Xs2.shape[0]) == tz(Xs.shape[0]), tz(Xs2.shape[1]) == tz(Xs.shape[1]), xsv2(n) == V(L),
                                ForAll([t_], Implies(And(0 <= t_, t_ < tz(Xs.shape[0]), t_ != n), xsv2(t_) == xsv(t_)), patterns=[xsv2(t_)]))),
           ('table-is-running-minimum', And(tz(H2.shape[0]) == N, ForAll([j_], Implies(And(0 <= j_, j_ < N), H2.elem(j_) == If(d(j_, L) < H.elem(j_), d(j_, L), H.elem(j_))), patterns=[H2.elem(j_)]))),
           ('selection-distance-recorded', And(tz(Hs2.shape[0]) == N, ForAll([j_], Implies(And(0 <= j_, j_ < N), Hs2.elem(j_) == If(j_ == L, H.elem(L), Hs.elem(j_))), patterns=[Hs2.elem(j_)]))),
           ('cell-of-each-point', And(tz(vl2.shape[0]) == N, ForAll([j_], Implies(And(0 <= j_, j_ < N), vl2.elem(j_) == If(Or(d(j_, L) < H.elem(j_), j_ == L), n, vl.elem(j_))), patterns=[vl2.elem(j_)]))),
           ('buffers-keep-their-size', tz(post('dSL_').shape[0]) == tz(pre('dSL_').shape[0]))]
    if 'y_selected_' in po.attrs and ctx.get('y') is not None:
        Ys, Ys2 = pre('y_selected_'), post('y_selected_'); Y = I.A(ctx['y'])
        out.append(('stored-targets', And(tz(Ys2.shape[0]) == tz(Ys.shape[0]), tz(Ys2.shape[1]) == tz(Ys.shape[1]),
                    ForAll([t_, c_], Implies(And(0 <= t_, t_ < tz(Ys.shape[0]), 0 <= c_, c_ < tz(Ys.shape[1])), Ys2.elem(t_, c_) == If(t_ == n, Y.elem(L, c_), Ys.elem(t_, c_)))))))
    return out

def voronoi_update_pre(I, me, ctx, L, heap=None):
    """precondition: representation invariant with room for one more selection, exact table with cell witnesses, candidate in range"""
    o = I.O(me); N = ctx['N']; n = tz(o.attrs['n_selected_'])
    cap = tz(I.A(o.attrs['selected_idx_']).shape[0])
    out = [('candidate-in-range', And(0 <= tz(L), tz(L) < N)), ('room-for-one-more', n < cap)]
    out += sel_invariant(I, me, ctx, cap)
    out += fps_invariant(I, me, ctx, I.A(o.attrs['vlocation_of_idx']).elem)
    out.append(('cell-table-shape', And(tz(I.A(o.attrs['vlocation_of_idx']).shape[0]) == N, tz(I.A(o.attrs['dSL_']).shape[0]) == cap)))
    ff = o.attrs['full_fraction']
    out.append(('switching-point-in-range', And(0 <= to_real(tz(ff)), to_real(tz(ff)) <= 1)))
    return out

def voronoi_update_contract():
    def requires(I, F):
        ctx = I.cur
        return voronoi_update_pre(I, F['self'], ctx, F['last_selected'])
    def ensures(I, F, res, old):
        return voronoi_update_spec(I, F['self'], I.cur, old['$heap'], F['last_selected'])
    fc = FuncContract(requires=requires, ensures=ensures,
                        modifies_self=['selected_idx_', ('X_selected_', ('vec', 0)), 'y_selected_', 'hausdorff_', 'hausdorff_at_select_', 'vlocation_of_idx', 'dSL_', 'new_dist_'])
    fc.assign_self = lambda I, F, old: {'n_selected_': conc(z3.simplify(tz(old['$heap'][F['self'].id].attrs['n_selected_']) + 1))}
    return fc

def u_voronoi_update(with_y=False, thr=None):
    """the real VoronoiFPS._update_post_selection (with _get_active and the base-class bookkeeping inlined) against its functional contract,
    for every switching point in [0,1] and both update branches"""
    cfg = Cfg('VoronoiFPS', 'sample', with_y=with_y, thr=thr)      # thr: a score threshold is configured (any real value): the update must not depend on it
    def body(I):
        ctx = build_selector(I, cfg); I.cur = ctx
        N = ctx['N']; X = ctx['X']
        if ctx['y_in'] is not None:
            yin = I.A(ctx['y_in']); ctx['y2d'] = I.new_arr(ArrVal((yin.shape[0], 1), lambda i, c: yin.elem(i), RealS))
        ctx['y'] = ctx.get('y2d')
        k = I.fresh('k', IntS); cap = I.fresh('cap', IntS); I.assume(And(k >= 0, cap > k))
        shared = dict(norms_=I.fresh_arr('norms', (N,)), hausdorff_=I.fresh_arr('H', (N,)), hausdorff_at_select_=I.fresh_arr('Hs', (N,)),
                      vlocation_of_idx=I.fresh_arr('vloc', (N,), IntS))
        me = mk_fitted(I, ctx, '', cap, k, shared)
        L = I.fresh('last_selected', IntS)
        for _, f in voronoi_update_pre(I, me, ctx, L): I.assume(f)
        # the pruning rule, stated over the pre-state only: a point whose cell centre is at least twice as far from the new selection as
        # the point is from its centre cannot get closer (Lean lemma voronoi_prune + the exact table with cell witnesses); proved, then used
        o = I.O(me); V = I.A(X).vecs[1]; H0 = I.A(o.attrs['hausdorff_']); vl0 = I.A(o.attrs['vlocation_of_idx']); idx0 = I.A(o.attrs['selected_idx_'])
        prune = ForAll([j_], Implies(And(k >= 1, 0 <= j_, j_ < N, sqd(V(idx0.elem(vl0.elem(j_))), V(L)) * RealVal('1/4') >= H0.elem(j_)), sqd(V(j_), V(L)) >= H0.elem(j_)), patterns=[H0.elem(j_)])
        I.ob('post[C06]:pruning-rule-is-sound-no-skipped-candidate-could-lower-its-distance', prune, kind='post')
        I.assume(prune)
        old = I.snapshot()
        I.call_func(I.find_method(ctx['cls'], '_update_post_selection'), [me, X, ctx['y'], L], {})
        for label, f in voronoi_update_spec(I, me, ctx, old, L):
            I.ob(f'post[C06]:update-{label}', f, kind='post')
    return Unit('VoronoiFPS._update_post_selection' + ('[y]' if with_y else '') + (f'[score threshold {thr}]' if thr else ''), body, functions=[VUPD, 'skmatter.sample_selection._voronoi_fps.VoronoiFPS._get_active'])

def u_fit(cfg):
    qfit = SEL + '.GreedySelector.fit'
    def body(I):
        ctx = build_selector(I, cfg)
        I.cur = ctx
        me, X = ctx['me'], ctx['X']
        fit = I.find_method(ctx['cls'], 'fit')
        kw = dict(y=ctx['y_in'])
        if cfg.warm:
            if ctx['y_in'] is not None:
                yin = I.A(ctx['y_in'])
                ctx['y2d'] = I.new_arr(ArrVal((yin.shape[0], 1), lambda i, c: yin.elem(i), RealS))
            havoc_fitted_state(I, ctx)
            kw['warm_start'] = True
            # C08 quantifier: increasing schedules of n_to_select on the same data
            nts = ctx['params'].get('n_to_select'); N_ = ctx['N']; k_ = ctx['k_prev']
            target = (N_ / 2) if nts is None else (nts if nts.sort() == IntS else z3.ToInt(z3.ToReal(N_) * nts))
            I.assume(target >= k_)
        r = I.call_func(fit, [me, X], kw)
        post_fit(I, ctx, r)
    loops = {(qfit, 0): fit_loop_contract(cfg)}
    if cfg.family == 'VoronoiFPS':
        # timing calibration (bisection on wall-clock measurements): every outcome is covered by havocking the fractions
        def inv_cal(I, F, it, g):
            lo, hi = to_real(tz(F['lower_fraction'])), to_real(tz(F['top_fraction']))
            return And(0 <= lo, lo <= hi, hi <= 1)
        lcal = LoopContract(inv_cal)
        lcal.types = {'lower_fraction': RealS, 'top_fraction': RealS, 'self.full_fraction': RealS, 'voronoi_fps_timing': RealS}
        loops[('skmatter.sample_selection._voronoi_fps.VoronoiFPS._init_greedy_search', 1)] = lcal
    if cfg.family in ('CUR', 'PCovCUR') and cfg.warm:
        def inv_reorth(I, F, kk, g):
            ctx = I.cur; me = F['self']
            return [(l, f) for l, f in cur_invariant(I, me, ctx, ctx['ok_prev']) if 'score' not in l]
        loops[(SEL + '._' + cfg.family + '._continue_greedy_search', 0)] = LoopContract(inv_reorth)
    funcs = {'skmatter.utils._pcovr_utils.pcovr_kernel': pcov_dist_contract('kernel'), 'skmatter.utils._pcovr_utils.pcovr_covariance': pcov_dist_contract('covariance')}
    if cfg.family == 'VoronoiFPS': funcs[VUPD] = voronoi_update_contract()
    if cfg.family in ('CUR', 'PCovCUR'):
        funcs = {SEL + '._CUR._compute_pi': compute_pi_contract(), SEL + '._PCovCUR._compute_pi': compute_pi_contract(),
                 'skmatter.utils._orthogonalizers.X_orthogonalizer': x_orth_contract(),
                 'skmatter.utils._orthogonalizers.Y_feature_orthogonalizer': y_orth_contract(),
                 'skmatter.utils._orthogonalizers.Y_sample_orthogonalizer': y_orth_contract()}
    return Unit(cfg.name + '.fit', body, loops=loops, funcs=funcs, functions=[qfit])

def post_fit(I, ctx, r):
    me = ctx['me']; cfg = ctx['cfg']; v = SelView(I, me, ctx); X = I.A(ctx['X']); N = ctx['N']; ax = ctx['axis']
    idx = v.a('selected_idx_'); Xs = v.a('X_selected_'); n = v.nsel
    qfit = SEL + '.GreedySelector.fit'
    stopped = (qfit, 0, 'returned-inside') in I.last_ghost      # the score threshold ended the search inside the loop
    sfx = '@threshold-stop' if stopped else ''
    I.ob('post[C09]:fit-returns-self', BoolVal(isinstance(r, ObjRef) and r.id == me.id), kind='post')
    I.ob('post[C01]:reported-length-equals-number-selected' + sfx, And(tz(idx.shape[0]) == n, tz(Xs.shape[ax]) == n), kind='post')
    if stopped:
        # exact shape of the recorded finding (known_findings.txt): the index list is cut at the loop counter instead of n_selected_
        nloop, Fpre = I.last_ghost[(qfit, 0, 'returned-inside')]
        I.ob('post[C01]:reported-length-equals-number-selected' + sfx + '~known-defect-shape', And(tz(idx.shape[0]) == tz(nloop), tz(Xs.shape[ax]) == n), kind='post')
    if not stopped:
        lg0 = I.last_ghost.get((qfit, 0))
        I.ob('post[C01]:number-selected-is-the-size-implied-by-n_to_select', n == lg0['cap'] if lg0 else BoolVal(False), kind='post')
        nts = ctx['params'].get('n_to_select')
        expect_n = (N / 2) if nts is None else (nts if nts.sort() == IntS else z3.ToInt(z3.ToReal(N) * nts))
        I.ob('post[C01]:size-implied-by-n_to_select-is-half-or-count-or-floor-of-fraction', (lg0['cap'] == expect_n) if lg0 else BoolVal(False), kind='post')
    I.ob('post[C01]:indices-in-range' + sfx, ForAll([t_], Implies(And(0 <= t_, t_ < n), And(0 <= idx.elem(t_), idx.elem(t_) < N))), kind='post')
    lg = I.last_ghost.get((SEL + '.GreedySelector.fit', 0))
    ok = lg['ok'] if lg else None
    I.ob('post[C01]:indices-pairwise-distinct-while-scores-positive' + sfx, Implies(ok, distinct(I, me)) if ok is not None else BoolVal(False), kind='post')
    xsv = vecs_of(Xs, ax)
    if xsv is not None and X.vecs is not None:
        I.ob('post[C01]:stored-data-equal-input-sliced-at-indices' + sfx, ForAll([t_], Implies(And(0 <= t_, t_ < n), xsv(t_) == X.vecs[1](idx.elem(t_)))), kind='post')
    else:
        I.ob('post[C01]:stored-data-equal-input-sliced-at-indices', BoolVal(False), kind='post')
    sup = v.a('support_')
    inset = lambda j: Exists([t_], And(0 <= t_, t_ < n, idx.elem(t_) == j))
    I.ob('post[C01]:support-mask-marks-exactly-the-selected-indices' + sfx,
         And(tz(sup.shape[0]) == N, ForAll([j_], Implies(And(0 <= j_, j_ < N), sup.elem(j_) == inset(j_)))), kind='post')
    if stopped:
        inset_cut = lambda j: Exists([t_], And(0 <= t_, t_ < tz(nloop), idx.elem(t_) == j))
        I.ob('post[C01]:support-mask-marks-exactly-the-selected-indices' + sfx + '~known-defect-shape',
             And(tz(sup.shape[0]) == N, ForAll([j_], Implies(And(0 <= j_, j_ < N), sup.elem(j_) == inset_cut(j_)))), kind='post')


# ------------------------------------------------------------------ derived views on a fitted selector (C01 / C02)
def u_views(cfg):
    def body(I):
        ctx = build_selector(I, cfg); I.cur = ctx
        me = ctx['me']; X = I.A(ctx['X']); N = ctx['N']; ax = ctx['axis']
        if ctx['y_in'] is not None:
            yin = I.A(ctx['y_in']); ctx['y2d'] = I.new_arr(ArrVal((yin.shape[0], 1), lambda i, c: yin.elem(i), RealS))
        havoc_fitted_state(I, ctx)
        o = I.O(me); idx = I.A(o.attrs['selected_idx_']); n = ctx['k_prev']
        sup = I.A(o.attrs['support_'])
        # fitted state: the mask marks exactly the selected indices (postcondition of fit, with explicit witnesses)
        w = I.fresh_fn('supwit', IntS, IntS)
        I.assume(ForAll([t_], Implies(And(0 <= t_, t_ < n), sup.elem(idx.elem(t_))), patterns=[idx.elem(t_)]))
        I.assume(ForAll([j_], Implies(And(0 <= j_, j_ < N, sup.elem(j_)), And(0 <= w(j_), w(j_) < n, idx.elem(w(j_)) == j_)), patterns=[sup.elem(j_)]))
        cls = ctx['cls']
        gs = I.find_method(cls, 'get_support')
        r1 = I.A(I.call_func(gs, [me], dict(indices=True, ordered=True)))
        I.ob('post[C01]:ordered-support-is-the-selection-sequence', And(tz(r1.shape[0]) == n, ForAll([t_], Implies(And(0 <= t_, t_ < n), r1.elem(t_) == idx.elem(t_)))), kind='post')
        r2v = I.call_func(gs, [me], dict(indices=True))
        r2 = I.A(r2v)
        p = r2.tag[2] if r2.tag and r2.tag[0] == 'sorted' else None
        I.ob('post[C01]:index-support-is-the-sorted-list-of-selected-indices',
             And(tz(r2.shape[0]) == n, ForAll([t_, s_], Implies(And(0 <= t_, t_ < s_, s_ < n), r2.elem(t_) <= r2.elem(s_))),
                 BoolVal(p is not None) if p is None else ForAll([t_], Implies(And(0 <= t_, t_ < n), And(0 <= p(t_), p(t_) < n, r2.elem(t_) == idx.elem(p(t_)))))), kind='post')
        r3 = I.A(I.call_func(gs, [me], {}))
        I.ob('post[C01]:mask-support-marks-exactly-the-selected-indices', And(tz(r3.shape[0]) == N, ForAll([j_], Implies(And(0 <= j_, j_ < N), r3.elem(j_) == sup.elem(j_)))), kind='post')
        if ax == 1:
            m2 = I.fresh('n_new', IntS); I.assume(m2 >= 1)
            X2 = I.fresh_arr('Xnew', (m2, X.shape[1]))
            tr = I.find_method(cls, 'transform')
            R = I.A(I.call_func(tr, [me, X2], {}))
            f = R.tag[2] if R.tag and R.tag[0] == 'take' else None
            J = I.A(f) if f is not None else None
            i_ = Int('i!tr')
            I.ob('post[C01]:transform-returns-exactly-the-masked-columns',
                 BoolVal(False) if J is None else And(tz(R.shape[0]) == m2, tz(R.shape[1]) == tz(J.shape[0]),
                     ForAll([t_], Implies(And(0 <= t_, t_ < tz(J.shape[0])), And(sup.elem(J.elem(t_)), 0 <= J.elem(t_), J.elem(t_) < N))),
                     ForAll([t_, s_], Implies(And(0 <= t_, t_ < s_, s_ < tz(J.shape[0])), J.elem(t_) < J.elem(s_))),
                     ForAll([j_], Implies(And(0 <= j_, j_ < N, sup.elem(j_)), Exists([t_], And(0 <= t_, t_ < tz(J.shape[0]), J.elem(t_) == j_)))),
                     ForAll([i_, t_], Implies(And(0 <= i_, i_ < m2, 0 <= t_, t_ < tz(J.shape[0])), R.elem(i_, t_) == I.A(X2).elem(i_, J.elem(t_))))), kind='post')
        if cfg.family in ('FPS', 'PCovFPS', 'VoronoiFPS'):
            d, _ = dist_fn(I, me, ctx)
            Hs = I.A(o.attrs['hausdorff_at_select_']); H = I.A(o.attrs['hausdorff_'])
            gd = I.A(I.call_func(I.find_method(cls, 'get_select_distance'), [me], {}))
            ok = ctx['ok_prev']; ninit = ctx['ninit_prev']
            I.ob('post[C02]:reported-selection-distances-are-the-true-minimum-distances-to-earlier-selections',
                 Implies(ok, And(tz(gd.shape[0]) == n, gd.elem(0) == INF,
                                 ForAll([t_, s_], Implies(And(0 <= s_, s_ < t_, t_ < n), gd.elem(t_) <= d(idx.elem(t_), idx.elem(s_)))),
                                 ForAll([t_], Implies(And(1 <= t_, t_ < n), Exists([s_], And(0 <= s_, s_ < t_, gd.elem(t_) == d(idx.elem(t_), idx.elem(s_)))))))), kind='post')
            I.ob('post[C02]:reported-selection-distances-never-increase-after-the-initial-picks',
                 Implies(ok, ForAll([t_], Implies(And(ninit <= t_, t_ + 1 < n, 0 <= t_), gd.elem(t_ + 1) <= gd.elem(t_)))), kind='post')
            gdist = I.A(I.call_func(I.find_method(cls, 'get_distance'), [me], {}))
            I.ob('post[C02]:reported-distance-table-is-the-true-minimum-distance-to-the-selected-set',
                 And(tz(gdist.shape[0]) == N, ForAll([j_, t_], Implies(And(0 <= j_, j_ < N, 0 <= t_, t_ < n), gdist.elem(j_) <= d(j_, idx.elem(t_)))),
                     ForAll([j_], Implies(And(0 <= j_, j_ < N), Exists([t_], And(0 <= t_, t_ < n, gdist.elem(j_) == d(j_, idx.elem(t_))))))), kind='post')
    return Unit(cfg.name + '.views', body, functions=[SEL + '.GreedySelector.get_support', SEL + '.GreedySelector.transform'])

def u_reject_warm_unfitted(cfg):
    def body(I):
        ctx = build_selector(I, cfg); I.cur = ctx
        fit = I.find_method(ctx['cls'], 'fit')
        I.call_func(fit, [ctx['me'], ctx['X']], dict(y=ctx['y_in'], warm_start=True))
        I.ob('reject[C08]:warm-start-on-a-never-fitted-selector-is-rejected', BoolVal(False), kind='reject')
    return Unit(cfg.name + '.reject-warm-unfitted', body, on_raise=lambda I, st, r: r.kind == 'ValueError')



# ------------------------------------------------------------------ C01 threshold clause: one pick under a score threshold
def u_pick_threshold(thr, first_known):
    """GreedySelector._get_best_new_selection on an arbitrary score vector: the search stops (None) exactly when the best score is below the
    (absolute / relative-to-the-first-score) threshold, otherwise the arg-max is returned; the first score is recorded by the first call only"""
    cfg = Cfg('FPS', 'sample', thr=thr)
    def body(I):
        ctx = build_selector(I, cfg); I.cur = ctx
        me = ctx['me']; o = I.O(me); N = ctx['N']; cls = ctx['cls']
        o.attrs['_axis'] = 0
        scores = I.fresh_arr('scores', (N,)); S = I.A(scores).elem
        first0 = I.fresh('first_score', RealS) if first_known else None
        o.attrs['first_score_'] = first0
        if thr == 'relative':
            I.assume(ForAll([j_], S(j_) >= 0, patterns=[S(j_)]))
            if first_known: I.assume(first0 > 0)
        thrv = tz(o.attrs['score_threshold'])
        scorer = lambda I2, X, y: scores
        r = I.call_func(I.find_method(cls, '_get_best_new_selection'), [me, scorer, ctx['X'], None], {})
        o = I.O(me)
        j = I.fresh('j', IntS); I.assume(And(0 <= j, j < N))
        best = I.fresh('best', RealS)
        I.assume(And(ForAll([j_], Implies(And(0 <= j_, j_ < N), S(j_) <= best), patterns=[S(j_)]), Exists([j_], And(0 <= j_, j_ < N, S(j_) == best))))      # best = the largest score
        first = first0 if first_known else best
        stop = (best < thrv) if thr == 'absolute' else (best / first < thrv)
        if thr == 'relative' and not first_known: I.assume(best > 0)        # a relative threshold needs a positive first score
        if r is None:
            I.ob('post[C01]:the-search-stops-only-when-the-best-score-is-below-the-threshold', stop, kind='post')
        else:
            I.ob('post[C01]:a-pick-is-made-only-when-the-best-score-is-at-or-above-the-threshold', Not(stop), kind='post')
            I.ob('post[C01]:the-pick-has-the-best-score', And(0 <= tz(r), tz(r) < N, S(tz(r)) == best), kind='post')
        I.ob('post[C01]:the-first-score-is-recorded-by-the-first-call-and-kept-afterwards', to_real(tz(o.attrs['first_score_'])) == first, kind='post')
    return Unit(f'GreedySelector._get_best_new_selection[thr={thr},{"later-call" if first_known else "first-call"}]', body, functions=[SEL + '.GreedySelector._get_best_new_selection'])

# ------------------------------------------------------------------ C08: history independence by self-composition
# Abstraction A(self) = the state modulo buffer capacity.  Three per-function relational obligations:
#   (a) _init_greedy_search: A does not depend on the requested size
#   (b) one iteration of the search loop maps equal A to equal A (and so never reads a buffer cell >= n_selected_)
#   (c) _continue_greedy_search leaves A unchanged
# The chain property for every increasing schedule follows by induction on the schedule (DESIGN section 4, C08).
def abstraction(I, me, ctx):
    """list of (name, kind, value): kind in scalar | full1d | prefix1d | prefixvec | full2d"""
    o = I.O(me); fam = ctx['cfg'].family
    out = [('n_selected_', 'scalar'), ('selected_idx_', 'prefix1d'), ('X_selected_', 'prefixvec')]
    if 'y_selected_' in o.attrs: out.append(('y_selected_', 'prefix2d'))
    if fam in ('FPS', 'PCovFPS', 'VoronoiFPS'): out += [('hausdorff_', 'full1d'), ('hausdorff_at_select_', 'full1d'), ('norms_', 'full1d')]
    if fam == 'PCovFPS': out.append(('pcovr_distance_', 'full2d'))
    if fam == 'VoronoiFPS': out += [('vlocation_of_idx', 'full1d')]
    return out

def abs_equal(I, me1, me2, ctx, which=None):
    """A(me1) == A(me2) as a list of (label, formula)"""
    o1, o2 = I.O(me1), I.O(me2); ax = ctx['axis']; N = ctx['N']
    n1, n2 = tz(o1.attrs['n_selected_']), tz(o2.attrs['n_selected_'])
    out = []
    for name, kind in abstraction(I, me1, ctx):
        if name not in o2.attrs:
            out.append((name, BoolVal(False))); continue
        if kind == 'scalar':
            out.append((name, tz(o1.attrs[name]) == tz(o2.attrs[name]))); continue
        A1, A2 = I.A(o1.attrs[name]), I.A(o2.attrs[name])
        if kind == 'full1d':
            out.append((name, And(tz(A1.shape[0]) == tz(A2.shape[0]), ForAll([j_], Implies(And(0 <= j_, j_ < tz(A1.shape[0])), A1.elem(j_) == A2.elem(j_))))))
        elif kind == 'full2d':
            out.append((name, ForAll([j_, t_], Implies(And(0 <= j_, j_ < tz(A1.shape[0]), 0 <= t_, t_ < tz(A1.shape[1])), A1.elem(j_, t_) == A2.elem(j_, t_)))))
        elif kind == 'prefix1d':
            out.append((name, ForAll([t_], Implies(And(0 <= t_, t_ < n1), A1.elem(t_) == A2.elem(t_)))))
        elif kind == 'prefix2d':
            out.append((name, ForAll([t_, c_], Implies(And(0 <= t_, t_ < n1, 0 <= c_, c_ < tz(A1.shape[1])), A1.elem(t_, c_) == A2.elem(t_, c_)))))
        elif kind == 'prefixvec':
            v1, v2 = vecs_of(A1, ax), vecs_of(A2, ax)
            out.append((name, BoolVal(False) if v1 is None or v2 is None else ForAll([t_], Implies(And(0 <= t_, t_ < n1), v1(t_) == v2(t_)))))
    return out

def mk_fitted(I, ctx, tag, cap, k, shared):
    """a selector object in an arbitrary mid-search state with k selections and buffer capacity cap; `shared` holds the abstract state"""
    cfg = ctx['cfg']; cls = ctx['cls']; ax = cfg.axis; N = ctx['N']; X = I.A(ctx['X'])
    kw = dict(ctx['params'])
    me = I.instantiate(cls, [], kw)
    o = I.O(me)
    o.attrs['_axis'] = ax; o.attrs['n_selected_'] = k; o.attrs['first_score_'] = None
    o.attrs['selected_idx_'] = I.fresh_arr('idx' + tag, (cap,), IntS)
    shp = [X.shape[0], X.shape[1]]; shp[ax] = cap
    o.attrs['X_selected_'] = I.fresh_arr('Xsel' + tag, tuple(shp), layout=ax)
    if ctx.get('y2d') is not None and ax == 0: o.attrs['y_selected_'] = I.fresh_arr('ysel' + tag, (cap, 1))
    for name in ('norms_', 'hausdorff_', 'hausdorff_at_select_'):
        src = I.A(shared[name]); o.attrs[name] = I.new_arr(ArrVal(src.shape, src.elem, src.sort))     # own buffer, equal content
    if cfg.family == 'PCovFPS': o.attrs['pcovr_distance_'] = shared['pcovr_distance_']
    if cfg.family == 'VoronoiFPS':
        src = I.A(shared['vlocation_of_idx']); o.attrs['vlocation_of_idx'] = I.new_arr(ArrVal(src.shape, src.elem, src.sort))
        o.attrs['dSL_'] = I.fresh_arr('dSL' + tag, (cap,)); o.attrs['new_dist_'] = I.fresh_arr('nd' + tag, (N,))
        ff = I.fresh('full_fraction' + tag, RealS); I.assume(And(0 <= ff, ff <= 1)); o.attrs['full_fraction'] = ff
    return me

def u_step_functional(cfg):
    def body(I):
        ctx = build_selector(I, cfg); I.cur = ctx
        N = ctx['N']; X = ctx['X']
        if ctx['y_in'] is not None:
            yin = I.A(ctx['y_in']); ctx['y2d'] = I.new_arr(ArrVal((yin.shape[0], 1), lambda i, c: yin.elem(i), RealS))
        ctx['y'] = ctx.get('y2d')
        k = I.fresh('k', IntS); cap1, cap2 = I.fresh('cap1', IntS), I.fresh('cap2', IntS)
        I.assume(And(k >= 1, cap1 > k, cap2 > k))
        shared = dict(norms_=I.fresh_arr('norms', (N,)), hausdorff_=I.fresh_arr('H', (N,)), hausdorff_at_select_=I.fresh_arr('Hs', (N,)),
                      vlocation_of_idx=I.fresh_arr('vloc', (N,), IntS))
        if cfg.family == 'PCovFPS':
            shared['pcovr_distance_'] = I.fresh_arr('D', (N, N)); D = I.A(shared['pcovr_distance_']).elem; a, b = Int('a!p'), Int('b!p')
            I.assume(ForAll([a, b], D(a, b) == D(b, a))); I.assume(ForAll([a, b], D(a, a) + D(b, b) - 2 * D(a, b) < INF))
        me1 = mk_fitted(I, ctx, '1', cap1, k, shared); me2 = mk_fitted(I, ctx, '2', cap2, k, shared)
        # both satisfy the representation invariant; equal abstract state
        ok = BoolVal(True)
        for me, cap in ((me1, cap1), (me2, cap2)):
            for _, f in sel_invariant(I, me, ctx, cap): I.assume(f)
            wit = I.A(I.O(me).attrs['vlocation_of_idx']).elem if cfg.family == 'VoronoiFPS' else I.A(I.fresh_arr('wit', (N,), IntS)).elem
            for _, f in fps_invariant(I, me, ctx, wit): I.assume(f)
        for _, f in abs_equal(I, me1, me2, ctx): I.assume(f)
        cls = ctx['cls']
        picks = []
        for me in (me1, me2):
            gb = I.find_method(cls, '_get_best_new_selection'); up = I.find_method(cls, '_update_post_selection'); sc = I.find_method(cls, 'score')
            from pyvc.engine import Bound
            new = I.call_func(gb, [me, Bound(me, sc), X, ctx['y']], {})
            picks.append(new)
            I.call_func(up, [me, X, ctx['y'], new], {})
        I.ob('relational[C08]:one-search-step-picks-the-same-item-from-equal-abstract-states', tz(picks[0]) == tz(picks[1]), kind='relational')
        for name, f in abs_equal(I, me1, me2, ctx):
            I.ob(f'relational[C08]:one-search-step-maps-equal-abstract-states-to-equal-abstract-states:{name}', f, kind='relational')
    return Unit(cfg.name + '.step-functional', body, functions=[SEL + '.GreedySelector._get_best_new_selection', SEL + '.GreedySelector._update_post_selection'])

def u_continue_frame(cfg):
    def body(I):
        ctx = build_selector(I, cfg); I.cur = ctx
        if ctx['y_in'] is not None:
            yin = I.A(ctx['y_in']); ctx['y2d'] = I.new_arr(ArrVal((yin.shape[0], 1), lambda i, c: yin.elem(i), RealS))
        havoc_fitted_state(I, ctx)
        me = ctx['me']; cls = ctx['cls']; k = ctx['k_prev']
        snap = I.snapshot()
        # a second handle on the pre-state: an object whose attributes are the pre-state values
        pre = I.new_obj(cls, dict(snap[me.id].attrs))
        for name, v in list(I.O(pre).attrs.items()):
            if isinstance(v, ArrRef): I.O(pre).attrs[name] = I.new_arr(snap[v.id])
        nn = I.fresh('n_new', IntS); I.assume(nn >= k)
        I.call_func(I.find_method(cls, '_continue_greedy_search'), [me, ctx['X'], ctx.get('y2d'), nn], {})
        for name, f in abs_equal(I, pre, me, ctx):
            I.ob(f'relational[C08]:continuing-a-search-leaves-the-abstract-state-unchanged:{name}', f, kind='relational')
        o = I.O(me)
        I.ob('relational[C08]:continuing-a-search-grows-the-buffers-to-the-new-size',
             And(tz(I.A(o.attrs['selected_idx_']).shape[0]) == nn, tz(I.A(o.attrs['X_selected_']).shape[ctx['axis']]) == nn), kind='relational')
    loops = {}
    if cfg.family in ('CUR', 'PCovCUR'):
        def inv_reorth(I, F, kk, g):
            ctx = I.cur; me = F['self']
            return [(l, f) for l, f in cur_invariant(I, me, ctx, ctx['ok_prev']) if 'score' not in l]
        loops[(SEL + '._' + cfg.family + '._continue_greedy_search', 0)] = LoopContract(inv_reorth)
    funcs = {}
    if cfg.family in ('CUR', 'PCovCUR'):
        funcs = {SEL + '._CUR._compute_pi': compute_pi_contract(), SEL + '._PCovCUR._compute_pi': compute_pi_contract(),
                 'skmatter.utils._orthogonalizers.X_orthogonalizer': x_orth_contract(),
                 'skmatter.utils._orthogonalizers.Y_feature_orthogonalizer': y_orth_contract(), 'skmatter.utils._orthogonalizers.Y_sample_orthogonalizer': y_orth_contract()}
    return Unit(cfg.name + '.continue-frame', body, loops=loops, funcs=funcs, functions=[SEL + '.GreedySelector._continue_greedy_search'])
