"""pcovr_covariance (skmatter/utils/_pcovr_utils.py): WHAT it computes, on the dense-eigh route (rank=None), for every X, Y, mixing in [0,1], rcond > 0.

External contract (assumed): np.linalg.eigh(G) returns the eigenvalues EV(G, i) in ascending order and the eigenvectors as the columns of EVECM(G).
Operators: REV (columns reversed), COLP (first r columns), DG (diagonal matrix of a function), CNTE(G, t) = number of eigenvalues above t (a prefix of the
descending order).  Spec:  C^-1/2 = U_r diag(1/sqrt(l_i)) U_r^T over the r eigenpairs with l_i > rcond (U_r = the first r columns of the reversed eigenvector
matrix, l_i the i-th largest eigenvalue);  result = (1 - mixing) (C^-1/2 X^T Y)(C^-1/2 X^T Y)^T + mixing X^T X  (each term only when its weight is non-zero);
with return_isqrt the second result is that C^-1/2.  The algebraic consequences used by the PCovR units (C^-1/2 symmetric, projector identities) are NOT derived
here: they need the orthonormality of the eigenvectors and 'eigenvalues not above rcond vanish', and stay assumed in contracts/pcovr.py."""
from pyvc.api import *
from pyvc import matlayer as ML, skstubs
from pyvc.matlayer import Mat, mul, add, sub, T, smul, Id, at, rows, cols
from pyvc.engine import ExtNS, ExtClass, Opaque
import ast

PU = 'skmatter.utils._pcovr_utils'
i_ = Int('i')
EV = z3.Function('EV', Mat, IntS, RealS); EVECM = z3.Function('EVECM', Mat, Mat)
REV = z3.Function('REVC', Mat, Mat)                  # columns in reversed order
COLP = z3.Function('COLP', Mat, IntS, Mat)
DG = z3.Function('DG', z3.ArraySort(IntS, RealS), IntS, Mat)
CNTE = z3.Function('CNTE', Mat, RealS, IntS)
SQRT = npstubs.SQRT

def local_axioms():
    A = z3.Const('A!u', Mat); t = z3.Real('t!u'); i, n = Int('i!u'), Int('n!u'); f = z3.Const('f!u', z3.ArraySort(IntS, RealS))
    return [ForAll([A], And(rows(EVECM(A)) == rows(A), cols(EVECM(A)) == rows(A)), patterns=[EVECM(A)]),
            ForAll([A], And(rows(REV(A)) == rows(A), cols(REV(A)) == cols(A)), patterns=[REV(A)]),
            ForAll([A, t], And(0 <= CNTE(A, t), CNTE(A, t) <= rows(A)), patterns=[CNTE(A, t)]),
            # descending eigenvalue number i (0-based) is ascending number rows-1-i; a threshold cuts a prefix of the descending order
            ForAll([A, t, i], Implies(And(0 <= i, i < rows(A)), (i < CNTE(A, t)) == (EV(A, rows(A) - 1 - i) > t)), patterns=[z3.MultiPattern(CNTE(A, t), EV(A, rows(A) - 1 - i))]),
            ForAll([A, n], Implies(And(0 <= n, n <= cols(A)), And(cols(COLP(A, n)) == n, rows(COLP(A, n)) == rows(A))), patterns=[COLP(A, n)]),
            ForAll([f, n], Implies(n >= 0, And(rows(DG(f, n)) == n, cols(DG(f, n)) == n)), patterns=[DG(f, n)])]

def eigh_stub(I, a, **kw):
    npstubs.used('np.linalg.eigh (eigenvalues ascending, eigenvectors as columns)')
    M = ML.mat_of(I, a); n = I.A(a).shape[0]
    I.cur['eigh_arg'] = M
    return (I.new_arr(ArrVal((n,), lambda i: EV(M, tz(i)), RealS, ('ev', M, False))), ML.mk(I, EVECM(M), (n, n)))

def flip_stub(I, a, axis=None, **kw):
    A = I.A(a)
    if A.ndim == 1 and A.tag and A.tag[0] == 'ev' and axis is None:
        npstubs.used('np.flip of the eigenvalues (descending order)')
        M = A.tag[1]; n = tz(A.shape[0])
        return I.new_arr(ArrVal(A.shape, lambda i: EV(M, n - 1 - tz(i)), RealS, ('ev', M, True)))
    if A.ndim == 2 and axis == 1 and A.tag and A.tag[0] == 'mat':
        npstubs.used('np.flip(axis=1) (columns reversed)')
        return ML.mk(I, REV(A.tag[1]), A.shape)
    raise Unsupported("np.flip form")

def prefix_of(I, mask):
    """vC > rcond on the DESCENDING eigenvalues: a prefix of length CNTE(G, rcond)"""
    Mk = I.A(mask)
    if Mk.tag and Mk.tag[0] == 'cmp' and Mk.tag[1] == 'Gt' and isinstance(Mk.tag[2], ArrRef) and not isinstance(Mk.tag[3], ArrRef):
        S = I.A(Mk.tag[2])
        if S.tag and S.tag[0] == 'ev' and S.tag[2] is True: return S.tag[1], CNTE(S.tag[1], to_real(tz(Mk.tag[3]))), S
    return None

def getitem_hook(I, b, ix):
    A = I.A(b)
    if A.ndim == 2 and isinstance(ix, tuple) and len(ix) == 2 and isinstance(ix[0], slice) and ix[0] == slice(None) and isinstance(ix[1], ArrRef) and I.A(ix[1]).sort == BoolS:
        pr = prefix_of(I, ix[1])
        if pr is None: raise Unsupported("boolean column mask that is not an eigenvalue threshold")
        G, r, S = pr
        return ML.mk(I, COLP(ML.mat_of(I, b), r), (A.shape[0], conc(r)))
    if A.ndim == 1 and isinstance(ix, ArrRef) and I.A(ix).sort == BoolS:
        pr = prefix_of(I, ix)
        if pr is None or I.A(b) is not pr[2]: raise Unsupported("boolean mask that is not an eigenvalue threshold of the same vector")
        G, r, S = pr
        return I.new_arr(ArrVal((conc(r),), lambda i: S.elem(tz(i)), RealS, ('evpre', G, r)))
    return ML.getitem_hook(I, b, ix)

def sqrt_stub(I, a):
    if isinstance(a, ArrRef):
        A = I.A(a)
        return I.new_arr(ArrVal(A.shape, lambda *ix: SQRT(to_real(A.elem(*ix))), RealS, ('sqrt', A)))
    return npstubs.np_sqrt(I, a)

def binop_hook(I, op, a, b, what):
    # scalar / vector -> vector (kept element-wise, outside the matrix layer)
    return ML.binop_hook(I, op, a, b, what)

def diagflat_stub(I, v, **kw):
    npstubs.used('np.diagflat (diagonal matrix of a vector)')
    V = I.A(v)
    if V.ndim != 1: raise Unsupported("diagflat of nd")
    return ML.mk(I, DG(z3.Lambda([i_], to_real(V.elem(i_))), tz(V.shape[0])), (V.shape[0], V.shape[0]))

def extend_ext(ext):
    ML.install(ext); skstubs.install(ext)
    ext['mat_getitem'] = getitem_hook
    np_ = ext['modules']['np']
    np_.linalg.eigh = eigh_stub; np_.flip = flip_stub; np_.sqrt = sqrt_stub; np_.diagflat = diagflat_stub
    np_.real = lambda I, a: a
    prev_array = np_.array
    np_.array = lambda I, a, *x, **k: (a if isinstance(a, ArrRef) and ML.is_mat(I, a) else prev_array(I, a, *x, **k))
    prev_reshape = ext['arr_attrs']['reshape']
    ext['arr_attrs'] = dict(ext['arr_attrs'])
    def reshape_attr(I, a):
        def f(I2, *shape, **kw):
            A = I2.A(a); shp = tuple(shape[0]) if len(shape) == 1 and isinstance(shape[0], (tuple, list)) else tuple(shape)
            if A.ndim == 2 and len(shp) == 2 and conc(shp[1]) == -1 and npstubs.same_dim(shp[0], A.shape[0]) is True: return a
            return prev_reshape(I2, a)(I2, *shape, **kw)
        return f
    ext['arr_attrs']['reshape'] = reshape_attr
    for k in ('copy.deepcopy', 'sklearn.base.clone', 'sklearn.exceptions.NotFittedError', 'sklearn.metrics.pairwise.pairwise_kernels', 'sklearn.utils.extmath.randomized_svd', 'sklearn.utils.validation.check_is_fitted'):
        ext['names'].setdefault(k, ExtClass(k.split('.')[-1]))

def u_covariance(return_isqrt):
    q = PU + '.pcovr_covariance'
    def body(I):
        n, m, p = I.fresh('n', IntS), I.fresh('m', IntS), I.fresh('p', IntS); I.assume(And(n >= 1, m >= 1, p >= 1))
        I.use_axioms('entries', ML.axioms('entries') + local_axioms()); I.use_axioms('ring', ML.axioms('ring'))
        I.cur = {}
        X = ML.fresh_mat(I, 'X', (n, m)); Y = ML.fresh_mat(I, 'Y', (n, p)); Xm, Ym = ML.mat_of(I, X), ML.mat_of(I, Y)
        al = I.fresh('mixing', RealS); rc = I.fresh('rcond', RealS); I.assume(And(0 <= al, al <= 1, rc > 0))
        r = I.call_func(I.repo.get(q), [al, X, Y], dict(rcond=rc, return_isqrt=return_isqrt))
        G = mul(T(Xm), Xm)
        k = CNTE(G, rc)
        Ur = COLP(REV(EVECM(G)), k)
        iC = mul(mul(Ur, DG(z3.Lambda([i_], 1 / SQRT(EV(G, m - 1 - i_))), k)), T(Ur))
        CY = mul(iC, mul(T(Xm), Ym))
        if return_isqrt:
            C, isq = r
            I.ob('post:the-second-result-is-C^-1/2-over-the-eigenpairs-above-rcond', ML.mat_of(I, isq) == iC, kind='post')
        else: C = r
        Cm = ML.mat_of(I, C)
        full = add(smul(1 - al, mul(CY, T(CY))), smul(al, G))
        I.ob('post:eigen-decomposition-of-X^T-X-is-used', BoolVal(I.cur.get('eigh_arg') is not None and I.cur['eigh_arg'].eq(G)) if (return_isqrt) else BoolVal(True), kind='post')
        I.ob('post:result-is-(1-mixing)-C^-1/2-X^T-Y-Y^T-X-C^-1/2-plus-mixing-X^T-X', Implies(And(al > 0, al < 1), Cm == full), kind='post')
        I.ob('post:at-mixing-one-the-result-is-X^T-X', Implies(al == 1, Cm == smul(al, G)), kind='post')
        I.ob('post:at-mixing-zero-the-result-is-the-regression-term-only', Implies(al == 0, Cm == smul(1 - al, mul(CY, T(CY)))), kind='post')
    return Unit(f'pcovr_covariance[return_isqrt={return_isqrt}]', body, functions=[q])

UNITS = [lambda: u_covariance(False), lambda: u_covariance(True)]
