#!/usr/bin/env python3
"""copies confirmed seeded changes from /tmp/seed + /tmp/confirm into /verif/seeded/<id>_<k>/ (patch.diff against the current /repo HEAD, demo.py, meta.json)"""
import glob, json, os, re, shutil, subprocess, sys
CONF = os.environ.get('CONFIRM_DIR', '/tmp/confirm'); SEED = os.environ.get('SEED_DIR', '/tmp/seed'); OFF = int(os.environ.get('SEED_K_OFFSET', '0'))
R = '/verif/seeded'
head = subprocess.run(['git', '-C', '/repo', 'rev-parse', '--short', 'HEAD'], capture_output=True, text=True).stdout.strip()
for res in sorted(glob.glob(CONF + '/*.result')):
    line = open(res).read().strip()
    m = re.match(r'(C\d+) (\d) (.*)', line)
    if not m: continue
    pid, k, rest = m.groups()
    ok = 'applies=yes' in rest and 'demo_with_patch_exit=1' in rest and 'demo_without_patch_exit=0' in rest and 'suite_exit=0' in rest
    d = os.path.join(R, f'{pid}_{int(k) + OFF}')
    if not ok:
        print('NOT CONFIRMED', line[:200]); continue
    os.makedirs(d, exist_ok=True)
    shutil.copy(f'{CONF}/{pid}_{k}.patch_on_head.diff', os.path.join(d, 'patch.diff'))
    shutil.copy(f'{SEED}/{pid}.out/demo_{k}.py', os.path.join(d, 'demo.py'))
    try: am = json.load(open(f'{SEED}/{pid}.out/meta_{k}.json'))
    except Exception: am = {}
    suite = re.search(r"suite='([^']*)'", rest)
    meta_path = os.path.join(d, 'meta.json')
    old = json.load(open(meta_path)) if os.path.exists(meta_path) else {}
    meta = dict(property=pid, breaks=am.get('clause_broken'), needs_to_manifest=am.get('needs_to_manifest'), files_touched=am.get('files_touched'),
                origin='written by an independent sub-agent that saw only the property text and a scratch worktree of the repository (nothing from /verif)',
                confirmed_by_me=dict(on_repo_head=head, how='tools/confirm_seed.sh: scratch worktree of /repo HEAD; git apply; demo.py exits 1 with the patch and 0 without; complete suite (network tests of test_sample_simple_cur.py deselected) passes with the patch',
                                     demo_with_patch='FAIL (exit 1)', demo_without_patch='PASS (exit 0)', suite_with_patch=suite.group(1) if suite else None),
                run='PYTHONPATH=<worktree>/src /venv/bin/python demo.py   # after: git -C <worktree> apply patch.diff',
                detected_by=old.get('detected_by'))
    json.dump(meta, open(meta_path, 'w'), indent=1)
    print('stored', d)
