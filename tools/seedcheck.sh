#!/bin/sh
# usage: tools/seedcheck.sh <patch file> <scratch worktree> <prop> [<prop>...]   -- applies the patch in the scratch worktree, runs the checks against it, restores
patch="$1"; wt="$2"; shift 2
git -C "$wt" checkout -q --detach "$(git -C /repo rev-parse HEAD)" || exit 3
git -C "$wt" apply "$patch" || { echo "PATCH DOES NOT APPLY"; exit 3; }
for p in "$@"; do
  echo "--- $p on $(basename $patch)"
  (cd /verif && PYVC_REPO_SRC="$wt/src" ./vcheck "$p" 2>&1 | grep -v WARNING | grep -E "VIOLATION|UNDECIDED|KNOWN|CHECKER|\[quick\]|not discharged" | cut -c1-260 | head -12; echo "exit=$?")
done
git -C "$wt" checkout -q -- . 
