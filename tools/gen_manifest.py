#!/usr/bin/env python3
"""Regenerates MANIFEST.json from tools/claims.json (claimed checks) + properties.jsonl (everything else -> not_applicable)."""
import json, os
R = os.path.dirname(os.path.dirname(os.path.abspath(__file__)))
claims = json.load(open(os.path.join(R, 'tools', 'claims.json')))
ids = [json.loads(l)['id'] for l in open(os.path.join(R, 'properties.jsonl'))]
checks = []
for i in ids:
    if i in claims['checks']:
        c = claims['checks'][i]
        checks.append(dict(property_id=i, quick_cmd=f"./vcheck {i} --tier quick", thorough_cmd=f"./vcheck {i} --tier thorough",
                           evidence_file=f"/verif/evidence/{i}.json", replay_cmd_template="./vcheck replay {path}", engine="pyvc",
                           level_claimed=dict(category=c.get("category", "proof"), text=c['text'], design_ref=c.get('design_ref', 'DESIGN.md section 4 / ' + i)),
                           level_note=c['note'], technique=c.get('technique', "contract-based deductive verification: sidecar contracts on the real functions, VCs generated from the AST of /repo/src on every run (pyvc), discharged by z3/cvc5; runtime form of the same contracts replays counterexamples")))
na = [dict(property_id=i, reason=claims['not_applicable'].get(i, "check not built yet (work in progress; DESIGN.md section 4 has the plan)")) for i in ids if i not in claims['checks']]
m = dict(version=1, setup_cmd=claims['setup_cmd'],
         hooks=dict(guard="SKMATTER_VERIF", enable="no hooks in /repo are needed: pyvc only parses /repo/src (python3-vt), the runtime side imports skmatter from /repo/src under /venv/bin/python and wraps functions from the harness side",
                    baseline_off_cmd="cd /repo && /venv/bin/python -m pytest -ra -q -p no:cacheprovider --timeout=900 --continue-on-collection-errors",
                    source_commits=[], add_only=True),
         engines=[dict(name="pyvc", path="/verif/pyvc", serves_properties=[c['property_id'] for c in checks],
                       kind_free_text="verification-condition generator over the real Python AST (symbolic interpreter with loop invariants, modular function contracts, external contracts for numpy/scipy/sklearn) + SMT portfolio z3 5.1 / z3 4.8 / cvc5; runtime side rt/ evaluates the same contracts concretely on the real code for refutation/replay (bounded)")],
         checks=checks, notes=claims.get('notes', ''), not_applicable=na)
json.dump(m, open(os.path.join(R, 'MANIFEST.json'), 'w'), indent=1)
print(len(checks), 'checks', len(na), 'not applicable')
