#!/bin/sh
# usage: tools/confirm_seed.sh <id> <k>   -- confirms a seeded change myself in a scratch worktree of the CURRENT /repo HEAD:
#   patch applies; demo FAILs with it and PASSes without it; the complete suite gives the baseline result with it.  Writes ${CONFIRM_DIR:-/tmp/confirm}/<id>_<k>.json
id=$1; k=$2; out=${CONFIRM_DIR:-/tmp/confirm}; mkdir -p $out
wt=$out/wt_${id}_$k
src=${SEED_DIR:-/tmp/seed}/$id.out
rm -rf $wt; git -C /repo worktree add -q --detach $wt HEAD || exit 3
res="applies=no"
if git -C $wt apply $src/patch_$k.diff 2>/dev/null || git -C $wt apply -3 $src/patch_$k.diff 2>/dev/null; then
  res="applies=yes"
  (cd $wt && PYTHONPATH=$wt/src TQDM_DISABLE=1 timeout 900 /venv/bin/python $src/demo_$k.py > $out/${id}_$k.demo_with.log 2>&1); dw=$?
  (cd $wt && OMP_NUM_THREADS=2 OPENBLAS_NUM_THREADS=2 PYTHONPATH=$wt/src timeout 3000 /venv/bin/python -m pytest -q -p no:cacheprovider --timeout=900 -x --deselect tests/test_sample_simple_cur.py > $out/${id}_$k.suite.log 2>&1); st=$?
  suite=$(tail -1 $out/${id}_$k.suite.log)
  git -C $wt diff HEAD > $out/${id}_$k.patch_on_head.diff
  git -C $wt checkout -q -- . ; git -C $wt reset -q --hard
  (cd $wt && PYTHONPATH=$wt/src TQDM_DISABLE=1 timeout 900 /venv/bin/python $src/demo_$k.py > $out/${id}_$k.demo_without.log 2>&1); dn=$?
  res="applies=yes demo_with_patch_exit=$dw demo_without_patch_exit=$dn suite_exit=$st suite='$suite'"
fi
echo "$id $k $res" > $out/${id}_$k.result
git -C /repo worktree remove --force $wt
cat $out/${id}_$k.result
