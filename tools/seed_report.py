#!/usr/bin/env python3
"""writes the table 'which check catches which seeded change' into DESIGN.md (between the SEEDED-TABLE markers) from seeded/*/meta.json"""
import glob, json, os, re
R = os.path.dirname(os.path.dirname(os.path.abspath(__file__)))
rows = []
for d in sorted(glob.glob(os.path.join(R, 'seeded', 'C*_*'))):
    m = json.load(open(os.path.join(d, 'meta.json')))
    db = m.get('detected_by') or {}
    what = (m.get('breaks') or '').replace('\n', ' ').replace('|', '/')
    files = ', '.join(os.path.basename(f) for f in (m.get('files_touched') or []))
    how = []
    nd = [x for x in db.get('obligations_not_discharged', []) if x]
    vio = db.get('violations', [])
    if db.get('verdict') == 'VIOLATION':
        if nd: how.append('proof: ' + '; '.join(re.sub(r'^[^/]*/[^/]*/', '', x)[:90] for x in nd[:2]))
        rep = [v for v in vio if 'replayed input' in v]
        if rep: how.append('runtime replay: ' + '; '.join(v.replace(' [replayed input]', '')[:90] for v in rep[:2]))
        if not how and vio: how.append('; '.join(v[:90] for v in vio[:2]))
        verdict = f"VIOLATION by `./vcheck {m['property']}`"
    else:
        rc = db.get('related_check') or {}
        if rc:
            verdict = f"not by `./vcheck {m['property']}` ({db.get('verdict')}); VIOLATION by `{rc['check'].replace(' (quick)', '')}`"
            how.append('proof: ' + '; '.join(re.sub(r'^[^/]*/[^/]*/', '', x)[:90] for x in rc.get('obligations_not_discharged', [])[:2]) if rc.get('obligations_not_discharged') else 'runtime replay (refit history)')
        else:
            verdict = f"**not detected** ({db.get('verdict')})"
    rows.append(f"| {os.path.basename(d)} | {files} | {what[:230]} | {verdict} | {' / '.join(how).replace('|', '/')} |")
tab = "| seeded change | file | what it breaks (the sub-agent's description, shortened) | verdict | failing obligation / runtime signature |\n|---|---|---|---|---|\n" + "\n".join(rows)
p = os.path.join(R, 'DESIGN.md'); s = open(p).read()
b, e = '<!-- SEEDED-TABLE-BEGIN -->', '<!-- SEEDED-TABLE-END -->'
if b in s: s = s[:s.index(b) + len(b)] + "\n" + tab + "\n" + s[s.index(e):]
else: s += f"\n{b}\n{tab}\n{e}\n"
open(p, 'w').write(s)
print(len(rows), 'rows')
