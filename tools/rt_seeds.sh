#!/bin/sh
# usage: tools/rt_seeds.sh <prop> <nseeds> [tier]  -- runs the runtime contracts on the unchanged tree for many seeds; prints every signature found
p=$1; n=$2; tier=${3:-quick}
for s in $(seq 0 $((n-1))); do
  PYTHONPATH=${PYVC_REPO_SRC:-/repo/src}:/verif /venv/bin/python -m rt.run $p --tier $tier --seed $s --out /tmp/rt_$p_$s.json 2>/dev/null
  python3 -c "
import json,sys; d=json.load(open('/tmp/rt_$p_$s.json')); print('$p seed $s', d['coverage']['evaluations'], sorted(set(v['signature'] for v in d['violations'])))"
done
