#!/usr/bin/env python3
"""runs the property's check (quick) against every stored seeded change in a scratch worktree and records the verdict in meta.json"""
import glob, json, os, re, subprocess, sys
wt = os.environ.get('SEEDWT', '/tmp/seedwt')
subprocess.run(['git', '-C', '/repo', 'worktree', 'remove', '--force', wt], capture_output=True)
subprocess.run(['git', '-C', '/repo', 'worktree', 'add', '-q', '--detach', wt, 'HEAD'], check=True)
only = sys.argv[1:] 
rows = []
for d in sorted(glob.glob('/verif/seeded/C*_*')):
    meta = json.load(open(os.path.join(d, 'meta.json'))); pid = meta['property']
    if only and os.path.basename(d) not in only and pid not in only: continue
    subprocess.run(['git', '-C', wt, 'checkout', '-q', '--', '.'])
    a = subprocess.run(['git', '-C', wt, 'apply', os.path.join(d, 'patch.diff')], capture_output=True, text=True)
    if a.returncode != 0:
        rows.append((os.path.basename(d), 'PATCH DOES NOT APPLY')); continue
    env = dict(os.environ, PYVC_REPO_SRC=wt + '/src')
    p = subprocess.run(['./vcheck', pid], cwd='/verif', env=env, capture_output=True, text=True)
    out = p.stdout
    viol = [l for l in out.splitlines() if l.startswith('VIOLATION')]
    und = [l for l in out.splitlines() if l.startswith('UNDECIDED')]
    nd = [l.strip()[len('not discharged:'):].strip()[:140] for l in out.splitlines() if l.strip().startswith('not discharged:')]
    sigs = []
    for v in viol[:6]:
        m = re.search(r'replay=(\S+)', v)
        if m and os.path.exists(m.group(1)):
            try:
                r = json.load(open(m.group(1))); sigs.append((r.get('signature') or r.get('obligation') or '')[:140] + (' [no-failing-input-found]' if 'no-failing-input-found' in v else ' [replayed input]'))
            except Exception: pass
    verdict = 'VIOLATION' if viol else ('UNDECIDED' if und else ('exit %d' % p.returncode))
    meta['detected_by'] = dict(check=f'./vcheck {pid} (quick)', exit=p.returncode, verdict=verdict, violations=sigs, obligations_not_discharged=[x for x in nd if '@threshold-stop' not in x and 'centerer_.transform(K_VV)' not in x and 'VoronoiFPS' not in x][:8],
                               undecided=[u[:160] for u in und[:3]])
    if not viol:
        # the change is filed under this property but may be decided by the check of a related property (refit histories are C09's subject)
        other = {}
        for q in ['C09', 'C08', 'C01', 'C03']:
            if q == pid: continue
            p2 = subprocess.run(['./vcheck', q], cwd='/verif', env=env, capture_output=True, text=True)
            v2 = [l for l in p2.stdout.splitlines() if l.startswith('VIOLATION')]
            if v2:
                nd2 = [l.strip()[len('not discharged:'):].strip()[:140] for l in p2.stdout.splitlines() if l.strip().startswith('not discharged:')]
                other = dict(check=f'./vcheck {q} (quick)', exit=p2.returncode, verdict='VIOLATION', n_violation_lines=len(v2),
                             obligations_not_discharged=[x for x in nd2 if 'VoronoiFPS' not in x and '@threshold-stop' not in x][:6])
                break
        meta['detected_by']['related_check'] = other or None
    json.dump(meta, open(os.path.join(d, 'meta.json'), 'w'), indent=1)
    rows.append((os.path.basename(d), verdict, len(viol), len(nd)))
    print(rows[-1], flush=True)
subprocess.run(['git', '-C', wt, 'checkout', '-q', '--', '.'])
subprocess.run(['git', '-C', '/repo', 'worktree', 'remove', '--force', wt])
