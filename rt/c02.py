"""C02 runtime contracts: FPS / PCov-FPS against a brute-force O(n^2) distance oracle with tie-aware acceptance."""
import numpy as np
from .common import expect
from . import selectors as S

RULE = "FPS/PCovFPS x direction x data kinds (incl. lattices with exact ties, duplicates) x initialize (int/list/random) x mixing; distinct = (family, direction, kind, shape, init kind, mixing)"

def cases(rng, tier, focus):
    reps = 4 if tier == 'quick' else 40
    for rep in range(reps):
        for fam in [f for f in S.FAMS if f[0] in ('FPS', 'PCovFPS')]:
            for dkind in S.KINDS:
                n, m = int(rng.integers(3, 14)), int(rng.integers(3, 10))
                if rep % 4 == 0: m = n      # square inputs: axis mix-ups are invisible on tall data only
                X = S.gen_X(rng, dkind, n, m); N = S.N_of(fam, X)
                kw = {}
                r = rng.random()
                if fam[0] == 'FPS' and r < 0.3 and N >= 4: kw['initialize'] = [int(x) for x in rng.choice(N, size=int(rng.integers(2, 4)), replace=False)]
                elif r < 0.5: kw['initialize'] = 'random'; kw['random_state'] = int(rng.integers(0, 5))
                else: kw['initialize'] = int(rng.integers(0, N))
                y = None
                if fam[0] == 'PCovFPS':
                    y = rng.normal(size=n); kw['mixing'] = float(rng.choice([0.0, 0.1, 0.5, 0.8, 0.95]))
                ninit = len(kw['initialize']) if isinstance(kw['initialize'], list) else 1
                yield dict(fam=fam, X=X, y=y, kw=kw, nsel=int(rng.integers(ninit, N + 1)), dkind=dkind)

def nontrivial(c):
    return (tuple(c['fam']), c['dkind'], c['X'].shape, str(c['kw'].get('initialize'))[:12], c['kw'].get('mixing'), c['nsel'])

def check(c):
    fam = tuple(c['fam']); X, y = c['X'], c['y']; kw = dict(c['kw'])
    if isinstance(kw.get('initialize'), list): kw['initialize'] = [int(v) for v in kw['initialize']]
    sel = S.make(fam, dict(kw, n_to_select=c['nsel']))
    try: S.fit(sel, fam, X, y)
    except ValueError: return []
    N = S.N_of(fam, X)
    idx = np.asarray(sel.selected_idx_)
    init = kw['initialize']
    sig = lambda s: f"{s}[{fam[0]},{fam[1]}]"
    if isinstance(init, list):
        expect(idx[:len(init)].tolist() == init, sig('post[C02]:first-selections-are-the-requested-initial-indices'), f"{idx[:len(init)].tolist()} vs {init}")
        ninit = len(init)
    elif init == 'random':
        sel2 = S.make(fam, dict(kw, n_to_select=c['nsel'])); S.fit(sel2, fam, X, y)
        expect(idx[0] == sel2.selected_idx_[0], sig('post[C02]:random-initial-index-is-a-reproducible-draw'))
        ninit = 1
    else:
        expect(idx[0] == init, sig('post[C02]:first-selections-are-the-requested-initial-indices'), f"{idx[0]} vs {init}")
        ninit = 1
    S.check_fps_oracle(sel, fam, X, y, ninit, mixing=kw.get('mixing'))
    if fam[0] == 'FPS' and not isinstance(init, list) and init != 'random':
        other = ('FPS', 'feature' if fam[1] == 'sample' else 'sample')
        sel3 = S.make(other, dict(kw, n_to_select=c['nsel']))
        try:
            S.fit(sel3, other, X.T.copy(), None)
            D = S.dist_matrix(fam, X); i1 = idx; i2 = np.asarray(sel3.selected_idx_)
            # identical unless a tie within rounding: compare up to the first step where the two best candidates are tied
            for t in range(1, len(i1)):
                mind = D[:, i1[:t]].min(axis=1); srt = np.sort(mind)[::-1]
                if len(srt) > 1 and srt[0] - srt[1] <= 1e-9 * max(1.0, srt[0]): break
                expect(i1[t] == i2[t], sig('post[C02]:sample-selection-on-X-equals-feature-selection-on-X-transpose'), f"{i1.tolist()} vs {i2.tolist()}")
        except ValueError: pass
    return []
