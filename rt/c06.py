"""C06 runtime contracts: VoronoiFPS selects what plain sample FPS selects; exact distance table after every step."""
import numpy as np, warnings
from .common import expect
from . import selectors as S

RULE = "VoronoiFPS x data kinds (uniform, strongly clustered, duplicates, lattices) x full_fraction in {None(calibrated), tiny, mid, 1.0} x n_to_select kinds x initial point; distinct = (kind, shape, full_fraction, init, n kind)"

def cases(rng, tier, focus):
    reps = 6 if tier == 'quick' else 60
    for rep in range(reps):
        for dkind in S.KINDS:
            n, m = int(rng.integers(4, 30)), int(rng.integers(2, 6))
            X = S.gen_X(rng, dkind, n, m)
            if rep % 5 == 0: X = X * 1e-4
            ff = [None, 0.01, 0.5, 0.9, 1.0][int(rng.integers(0, 5))]
            nk = int(rng.integers(0, 3)); nsel = [None, int(rng.integers(1, n + 1)), float(rng.uniform(1.0 / n, 1.0))][nk]
            if isinstance(nsel, float) and int(n * nsel) < 1: nsel = 1.0
            # a configured score threshold that is never reached must change nothing (absolute: below every positive distance; relative: a tiny ratio)
            thr = [None, None, ('absolute', 1e-30), ('relative', 1e-25)][rep % 4]
            yield dict(X=X, dkind=dkind, ff=ff, nsel=nsel, init=int(rng.integers(0, n)), ntrial=int(rng.integers(1, 4)), thr=thr)

def nontrivial(c): return (c['dkind'], c['X'].shape, c['ff'], c['init'], type(c['nsel']).__name__, (c.get('thr') or (None,))[0])

def check(c):
    X = c['X']; fam = ('VoronoiFPS', 'sample'); n = len(X)
    kw = dict(initialize=c['init'], n_to_select=c['nsel'], n_trial_calculation=c['ntrial'])
    if c['ff'] is not None: kw['full_fraction'] = c['ff']
    if c.get('thr'): kw['score_threshold_type'], kw['score_threshold'] = c['thr']
    v = S.make(fam, kw)
    D = S.dist_matrix(('FPS', 'sample'), X); scale = max(1.0, float(D.max())); tol = 1e-9 * scale
    # per-step contract (wrapper on the instance): the table equals the true minimum distance after every update
    real = v._update_post_selection; steps = [0]
    def wrapped(X_, y_, last):
        real(X_, y_, last); steps[0] += 1
        idx = np.asarray(v.selected_idx_)[: v.n_selected_]
        true = D[:, idx].min(axis=1)
        expect(np.allclose(v.hausdorff_, true, rtol=0, atol=tol), 'loop0-step:[C02]table-is-true-minimum-distance[VoronoiFPS]', f"step {steps[0]} max dev {np.max(np.abs(v.hausdorff_ - true))}")
        own = np.asarray(v.vlocation_of_idx)
        expect(np.all((own >= 0) & (own < v.n_selected_)) and np.allclose(D[np.arange(n), idx[own]], v.hausdorff_, rtol=0, atol=tol),
               'loop0-step:[C02]table-is-attained-at-witness[VoronoiFPS]', f"step {steps[0]}")
    v._update_post_selection = wrapped
    try: S.fit(v, fam, X, None)
    except ValueError: return []
    expect(steps[0] >= 1, 'harness:wrapper-evaluated')
    if c.get('thr') and v.n_selected_ != len(np.asarray(v.selected_idx_)): return []      # the threshold was reached after all (duplicates: distance 0): recorded finding of C01, not this contract
    f = S.make(('FPS', 'sample'), dict(initialize=c['init'], n_to_select=c['nsel'])); S.fit(f, ('FPS', 'sample'), X, None)
    i1, i2 = np.asarray(v.selected_idx_), np.asarray(f.selected_idx_)
    expect(len(i1) == len(i2), 'post[C06]:same-number-of-selections-as-plain-FPS', f"{len(i1)} vs {len(i2)}")
    for t in range(1, len(i1)):
        mind = D[:, i1[:t]].min(axis=1)
        expect(mind[i1[t]] >= mind.max() - tol, 'post[C06]:every-choice-is-a-farthest-candidate', f"t={t}")
        srt = np.sort(mind)[::-1]
        if len(srt) > 1 and srt[0] - srt[1] <= 1e-9 * max(1.0, srt[0]): break
        expect(i1[t] == i2[t], 'post[C06]:selection-identical-to-plain-FPS-unless-tied', f"{i1.tolist()} vs {i2.tolist()}")
    return []
