"""C05 runtime contracts: KernelPCovR vs PCovR / precomputed kernels / manual centring / kernel PCA, held-out sets of every size, score formula."""
import numpy as np, warnings
from .common import expect

RULE = "kernels {linear, rbf, poly, sigmoid, cosine, precomputed} x center x mixing x n_components x held-out sizes {1, <n, =n, >n} x regressors {None, KernelRidge, precomputed}; distinct = (kind, kernel, center, held-out size class, seed class)"

def quiet(f, *a, **k):
    with warnings.catch_warnings():
        warnings.simplefilter('ignore'); return f(*a, **k)

def cases(rng, tier, focus):
    reps = 12 if tier == "quick" else 120
    yield dict(kind='score-heldout', kernel='rbf', center=True, nv=5, seed=1, k=2, mixing=0.5)       # exhibits the recorded finding on every run
    for rep in range(reps):
        for kernel in ('linear', 'rbf', 'poly', 'sigmoid', 'cosine'):
            for center in (False, True):
                for nv in (1, 5, 10, 14):
                    yield dict(kind=['named-vs-precomputed', 'score-heldout', 'manual-centering'][int(rng.integers(0, 3))], kernel=kernel, center=center, nv=nv,
                               seed=int(rng.integers(0, 10 ** 6)), k=int(rng.integers(1, 4)), mixing=float(rng.choice([0.2, 0.5, 0.8])))
        for nv in (1, 5, 10, 14):
            yield dict(kind='linear-vs-pcovr', kernel='linear', center=False, nv=nv, seed=int(rng.integers(0, 10 ** 6)), k=int(rng.integers(1, 4)), mixing=float(rng.choice([0.2, 0.5, 0.8])))
            yield dict(kind='kpca-limit', kernel='rbf', center=True, nv=nv, seed=int(rng.integers(0, 10 ** 6)), k=int(rng.integers(1, 4)), mixing=1.0)

def nontrivial(c): return (c['kind'], c['kernel'], c['center'], c['nv'], c['seed'] % 3)

def kparams(rng, kernel):
    if kernel == 'rbf': return dict(gamma=float(rng.uniform(0.1, 1.0)))
    if kernel == 'poly': return dict(gamma=float(rng.uniform(0.1, 1.0)), degree=int(rng.integers(2, 4)), coef0=float(rng.uniform(0.5, 2)))
    if kernel == 'sigmoid': return dict(gamma=float(rng.uniform(0.01, 0.1)), coef0=float(rng.uniform(0.2, 2.0)))
    return {}

def check(c):
    from skmatter.decomposition import KernelPCovR, PCovR
    from skmatter.preprocessing import KernelNormalizer
    from sklearn.metrics.pairwise import pairwise_kernels
    from sklearn.kernel_ridge import KernelRidge
    from sklearn.linear_model import Ridge
    rng = np.random.default_rng(c['seed']); n, m, p = 10, 4, 2
    X = rng.normal(size=(n, m)); X -= X.mean(0); Y = X @ rng.normal(size=(m, p)) + 0.1 * rng.normal(size=(n, p)); Y -= Y.mean(0)
    Xv = rng.normal(size=(c['nv'], m)); Yv = Xv @ rng.normal(size=(m, p))
    kp = kparams(rng, c['kernel']); k = c['k']
    sig = lambda s: f"{s}[{c['kernel']},center={c['center']}]"
    def align(A, B):
        s_ = np.sign(np.sum(A * B, axis=0)); s_[s_ == 0] = 1; return B * s_
    if c['kind'] == 'named-vs-precomputed':
        e1 = quiet(KernelPCovR(mixing=c['mixing'], n_components=k, kernel=c['kernel'], center=c['center'], **kp).fit, X, Y)
        K = pairwise_kernels(X, metric=c['kernel'], filter_params=True, **kp); Kv = pairwise_kernels(Xv, X, metric=c['kernel'], filter_params=True, **kp)
        reg = KernelRidge(kernel='precomputed')
        e2 = quiet(KernelPCovR(mixing=c['mixing'], n_components=k, kernel='precomputed', center=c['center'], regressor=reg).fit, K.copy(), Y)
        T1, T2 = quiet(e1.transform, Xv), quiet(e2.transform, Kv.copy())
        sc = max(1.0, np.abs(T1).max())
        if np.min(np.abs(np.diff(np.linalg.eigvalsh(K)))) > 1e-8:
            expect(T1.shape == T2.shape and np.allclose(align(T1, T2), T1, atol=1e-6 * sc), sig('post[C05]:named-kernel-equals-the-same-kernel-precomputed:transform'), f"max dev {np.max(np.abs(align(T1, T2) - T1))}")
            expect(np.allclose(quiet(e1.predict, Xv), quiet(e2.predict, Kv.copy()), atol=1e-6 * max(1, np.abs(Y).max())), sig('post[C05]:named-kernel-equals-the-same-kernel-precomputed:predict'))
    elif c['kind'] == 'manual-centering':
        e1 = quiet(KernelPCovR(mixing=c['mixing'], n_components=k, kernel=c['kernel'], center=True, **kp).fit, X, Y)
        K = pairwise_kernels(X, metric=c['kernel'], filter_params=True, **kp); Kv = pairwise_kernels(Xv, X, metric=c['kernel'], filter_params=True, **kp)
        kn = KernelNormalizer().fit(K.copy()); Kc = kn.transform(K.copy()); Kvc = kn.transform(Kv.copy())
        e2 = quiet(KernelPCovR(mixing=c['mixing'], n_components=k, kernel='precomputed', center=False, regressor=KernelRidge(kernel='precomputed')).fit, Kc.copy(), Y)
        T1, T2 = quiet(e1.transform, Xv), quiet(e2.transform, Kvc.copy())
        expect(np.allclose(align(T1, T2), T1, atol=1e-6 * max(1.0, np.abs(T1).max())), sig('post[C05]:center=True-equals-manual-KernelNormalizer-on-train-and-test-kernels'), f"max dev {np.max(np.abs(align(T1, T2) - T1))}")
    elif c['kind'] == 'linear-vs-pcovr':
        alpha = 1e-3
        e1 = quiet(KernelPCovR(mixing=c['mixing'], n_components=k, kernel='linear', regressor=KernelRidge(alpha=alpha, kernel='linear')).fit, X, Y)
        e2 = quiet(PCovR(mixing=c['mixing'], n_components=k, space='sample', regressor=Ridge(alpha=alpha, fit_intercept=False)).fit, X, Y)
        T1, T2 = quiet(e1.transform, Xv), quiet(e2.transform, Xv)
        expect(np.allclose(align(T1, T2), T1, atol=1e-6 * max(1.0, np.abs(T1).max())), 'post[C05]:linear-kernel-equals-sample-space-PCovR:transform', f"max dev {np.max(np.abs(align(T1, T2) - T1))}")
        expect(np.allclose(quiet(e1.predict, Xv), quiet(e2.predict, Xv), atol=1e-6 * max(1, np.abs(Y).max())), 'post[C05]:linear-kernel-equals-sample-space-PCovR:predict')
    elif c['kind'] == 'kpca-limit':
        from sklearn.decomposition import KernelPCA
        e1 = quiet(KernelPCovR(mixing=1.0, n_components=k, kernel='rbf', center=True, **kp).fit, X, Y)
        kp2 = KernelPCA(n_components=k, kernel='rbf', **kp).fit(X)
        T1, T2 = quiet(e1.transform, Xv), kp2.transform(Xv)
        ev = kp2.eigenvalues_
        if len(ev) < 2 or np.min(np.abs(np.diff(ev))) > 1e-6 * ev[0]:
            scale = np.sqrt(e1.centerer_.scale_)
            expect(np.allclose(align(T2, T1 * scale), T2, atol=1e-6 * max(1.0, np.abs(T2).max())), 'post[C05]:mixing-one-on-a-centred-kernel-gives-kernel-PCA-projections-up-to-sign-and-global-scale', f"max dev {np.max(np.abs(align(T2, T1 * scale) - T2))}")
    else:   # score on a held-out set of any size
        e1 = quiet(KernelPCovR(mixing=c['mixing'], n_components=k, kernel=c['kernel'], center=c['center'], **kp).fit, X, Y)
        tag = f"[{c['kernel']},center={c['center']},heldout={'same-size' if c['nv'] == n else 'other-size'}]"
        try:
            sc = quiet(e1.score, Xv, Yv)
        except ValueError as ex:
            expect(False, f"post[C05]:score-accepts-a-held-out-set-of-any-size:held-out{tag}", str(ex)[:200])
        if not c['center']:
            K_NN = pairwise_kernels(X, X, metric=c['kernel'], filter_params=True, **kp); K_VN = pairwise_kernels(Xv, X, metric=c['kernel'], filter_params=True, **kp); K_VV = pairwise_kernels(Xv, Xv, metric=c['kernel'], filter_params=True, **kp)
            tn = K_NN @ e1.pkt_; tv = K_VN @ e1.pkt_
            G = np.linalg.pinv(tn.T @ tn)
            lk = np.trace(K_VV - 2 * K_VN @ (tn @ G @ tv.T) + tv @ G @ tn.T @ K_NN @ tn @ G @ tv.T) / np.trace(K_VV)
            lr = np.linalg.norm(Yv - K_VN @ e1.pky_) ** 2 / np.linalg.norm(Yv) ** 2
            expect(abs(sc + (lk + lr)) <= 1e-6 * max(1.0, abs(lk + lr)), f"post[C05]:score-is-minus-the-documented-kernel-loss-plus-the-relative-regression-loss{tag}", f"{sc} vs {-(lk + lr)}")
        expect(quiet(e1.transform, Xv).shape == (c['nv'], k) and quiet(e1.predict, Xv).shape == (c['nv'], p), sig('post[C05]:transform-and-predict-accept-any-number-of-new-samples'))
    return []
