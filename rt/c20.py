"""C20 runtime contracts: prediction rigidities against an independent closed-form computation."""
import numpy as np
from .common import expect

RULE = "ragged train/test structure lists (incl. single-environment structures anywhere in the list) x feature dims x alpha 1e-13..1e2 x component partitions; distinct = (lens pattern, dims, alpha, partition)"

def cases(rng, tier, focus):
    reps = 200 if tier == "quick" else 2000
    for rep in range(reps):
        D = int(rng.integers(2, 9))
        ntr = int(rng.integers(2, 7)); nte = int(rng.integers(1, 6))
        ltr = [int(x) for x in rng.integers(1, 5, ntr)]; lte = [int(x) for x in rng.integers(1, 5, nte)]
        if rep % 2: lte[int(rng.integers(0, nte))] = 1
        if rep % 3 == 0 and nte >= 2: lte[0] = 3; lte[-1] = 1
        k = int(rng.integers(1, min(D, 3) + 1)); cuts = np.sort(rng.choice(np.arange(1, D), size=k - 1, replace=False)) if k > 1 else np.array([], int)
        dims = np.diff(np.concatenate([[0], cuts, [D]])).astype(int)
        yield dict(D=D, ltr=ltr, lte=lte, dims=dims.tolist(), alpha=float(10.0 ** rng.uniform(-13, 2)), seed=int(rng.integers(0, 10 ** 6)),
                   intfeat=(rep % 5 == 3), shared=(rep % 4 == 2))

# witness of the recorded finding 'alpha below the cut-off of the pseudo-inverse with a rank-deficient covariance' (known_findings.txt)
PINNED = [dict(pin='alpha-below-pinv-cutoff', seed=0)]

def check_pinned(c):
    from skmatter.metrics import local_prediction_rigidity as lpr
    rng = np.random.default_rng(c['seed']); D = 6
    Xtr = [rng.normal(size=(3, D)) for _ in range(3)]          # 3 training structures, 6 features: the covariance of the structure averages has rank 3
    Xte = [rng.normal(size=(2, D))]
    L0, _ = lpr(Xtr, Xte, 0.0); L1, _ = lpr(Xtr, Xte, 1e-14)
    expect(np.all(np.asarray(L1[0]) >= np.asarray(L0[0]) * (1 - 1e-9)), 'post[C20]:LPR-is-non-decreasing-in-alpha@alpha-below-the-cut-off-of-the-pseudo-inverse-with-a-rank-deficient-covariance',
           f"LPR(alpha=0) = {L0[0]} > LPR(alpha=1e-14) = {L1[0]}")
    return []

def nontrivial(c): return c.get('pin') or (tuple(c['ltr']), tuple(c['lte']), c['D'], tuple(c['dims']), round(np.log10(c['alpha'])), c.get('intfeat', False), c.get('shared', False))

def reference(Xtr, Xte, alpha, dims=None):
    allx = np.vstack(Xtr); sf = np.sqrt(np.mean(allx ** 2, axis=0).sum())
    S = np.vstack([np.mean(x / sf, axis=0) for x in Xtr])
    A = S.T @ S + alpha * np.eye(S.shape[1])
    w, V = np.linalg.eigh(A)
    cut = 1e-15 * S.shape[1] * w.max()           # numpy pinv default cut-off (rcond = 1e-15 * max(M, N))
    inv = (V[:, w > cut] / w[w > cut]) @ V[:, w > cut].T
    out = [np.array([1.0 / (x / sf @ inv @ (x / sf)) for x in xs]) for xs in Xte]
    rank_diff = S.shape[1] - np.linalg.matrix_rank(A)
    if dims is None: return out, rank_diff
    edges = np.concatenate([[0], np.cumsum(dims)])
    lc = []; cpr = np.zeros((len(Xte), len(dims)))
    for si, xs in enumerate(Xte):
        arr = np.zeros((len(xs), len(dims)))
        for ci in range(len(dims)):
            m = np.zeros(S.shape[1]); m[edges[ci]:edges[ci + 1]] = 1
            for ei, x in enumerate(xs):
                v = x / sf * m; arr[ei, ci] = 1.0 / (v @ inv @ v)
            vm = np.mean(xs / sf, axis=0) * m; cpr[si, ci] = 1.0 / (vm @ inv @ vm)
        lc.append(arr)
    return out, lc, cpr, rank_diff

def check(c):
    if c.get('pin'): return check_pinned(c)
    from skmatter.metrics import local_prediction_rigidity as lpr, componentwise_prediction_rigidity as cprf
    rng = np.random.default_rng(c['seed']); D = c['D']
    Xtr = [rng.normal(size=(l, D)) * rng.uniform(0.5, 2.0, D) for l in c['ltr']]
    Xte = [rng.normal(size=(l, D)) for l in c['lte']]
    if c.get('intfeat'):
        # integer-typed descriptors (counts / histograms): the rigidities are real numbers whatever the dtype of the features
        Xtr = [rng.integers(0, 6, size=(l, D)) + np.eye(l, D, dtype=int) for l in c['ltr']]
        Xte = [rng.integers(0, 6, size=(l, D)) + np.eye(l, D, dtype=int) for l in c['lte']]
    al = c['alpha']
    if c.get('shared'):
        # rigidities OF THE TRAINING SET: the test list holds the very arrays of the training list (what the call sees must not depend on that)
        shared_ = [x.copy() for x in Xtr]
        Ls, _ = lpr(shared_, shared_, al)
        refs, _ = reference(Xtr, Xtr, al)
        allx_ = np.vstack(Xtr); sf_ = np.sqrt(np.mean(allx_ ** 2, axis=0).sum()); S_ = np.vstack([np.mean(x / sf_, axis=0) for x in Xtr])
        if al > 1e-11 * max(np.linalg.eigvalsh(S_.T @ S_).max(), 1e-300) or np.linalg.matrix_rank(S_) == D:
            for s_, (a, b) in enumerate(zip(Ls, refs)):
                expect(np.allclose(a, b, rtol=1e-5), 'post[C20]:LPR-equals-the-closed-form-1/(x-(XtX+alpha-I)^-1-xt)', f"test list shares its arrays with the training list; structure {s_}: {a} vs {b}")
            shared2 = [x.copy() for x in Xtr]
            CPRs, LCs, _ = cprf(shared2, shared2, al, np.array(c['dims']))
            _, rlcs, rcprs, _ = reference(Xtr, Xtr, al, np.array(c['dims']))
            for s_, (a, b) in enumerate(zip(LCs, rlcs)):
                expect(np.allclose(a, b, rtol=1e-5), 'post[C20]:LCPR-equals-the-closed-form-restricted-to-the-component-block', f"test list shares its arrays with the training list; structure {s_}")
            expect(np.allclose(CPRs, rcprs, rtol=1e-5), 'post[C20]:CPR-equals-the-closed-form-on-the-structure-averaged-features', "test list shares its arrays with the training list")
    L, rd = lpr([x.copy() for x in Xtr], [x.copy() for x in Xte], al)
    ref, rrd = reference(Xtr, Xte, al)
    # well-conditioned regime only for value comparison: alpha not below the float resolution of the covariance
    allx = np.vstack(Xtr); sf = np.sqrt(np.mean(allx ** 2, axis=0).sum()); S = np.vstack([np.mean(x / sf, axis=0) for x in Xtr])
    wmax = np.linalg.eigvalsh(S.T @ S).max()
    wellcond = al > 1e-11 * max(wmax, 1e-300) or np.linalg.matrix_rank(S) == D
    expect(len(L) == len(Xte) and all(len(a) == len(x) for a, x in zip(L, Xte)), 'post[C20]:one-LPR-entry-per-environment-per-test-structure-in-input-order', f"{[len(a) for a in L]} vs {[len(x) for x in Xte]}")
    if wellcond:
        for s_, (a, b) in enumerate(zip(L, ref)):
            expect(np.allclose(a, b, rtol=1e-5), 'post[C20]:LPR-equals-the-closed-form-1/(x-(XtX+alpha-I)^-1-xt)', f"structure {s_}: {a} vs {b}")
            expect(np.all(np.asarray(a) > 0), 'post[C20]:LPR-is-strictly-positive')
        expect(rd == rrd, 'post[C20]:rank-difference-is-feature-dimension-minus-rank-of-the-regularised-covariance', f"{rd} vs {rrd}")
        L2, _ = lpr([x * 7.5 for x in Xtr], [x * 7.5 for x in Xte], al)
        expect(all(np.allclose(a, b, rtol=1e-6) for a, b in zip(L, L2)), 'post[C20]:LPR-invariant-under-a-common-rescaling-of-all-features')
        L3, _ = lpr(Xtr, Xte, al * 10)
        expect(all(np.all(np.asarray(b) >= np.asarray(a) * (1 - 1e-9)) for a, b in zip(L, L3)), 'post[C20]:LPR-is-non-decreasing-in-alpha')
        dims = np.array(c['dims'])
        CPR, LC, rd2 = cprf([x.copy() for x in Xtr], [x.copy() for x in Xte], al, dims)
        _, rlc, rcpr, _ = reference(Xtr, Xte, al, dims)
        expect(len(LC) == len(Xte) and all(np.asarray(a).shape == b.shape for a, b in zip(LC, rlc)), 'post[C20]:one-LCPR-row-per-environment-per-test-structure-in-input-order')
        for s_, (a, b) in enumerate(zip(LC, rlc)):
            expect(np.allclose(a, b, rtol=1e-5), 'post[C20]:LCPR-equals-the-closed-form-restricted-to-the-component-block', f"structure {s_}")
        expect(np.allclose(CPR, rcpr, rtol=1e-5), 'post[C20]:CPR-equals-the-closed-form-on-the-structure-averaged-features', f"{CPR} vs {rcpr}")
        for si, xs in enumerate(Xte):
            if len(xs) == 1: expect(np.allclose(CPR[si], np.asarray(LC[si])[0], rtol=1e-9), 'post[C20]:CPR-of-a-one-environment-structure-equals-its-LCPR', f"structure {si}: {CPR[si]} vs {np.asarray(LC[si])[0]}")
        if len(dims) == 1:
            expect(all(np.allclose(np.asarray(a)[:, 0], b, rtol=1e-9) for a, b in zip(LC, L)), 'post[C20]:LCPR-with-a-single-component-equals-LPR')
    return []
