"""C16 runtime contracts: the same clauses as contracts/c16.py, evaluated concretely on the real QuickShift."""
import itertools
import numpy as np
from .common import expect, Violation, close

RULE = ("point sets 1..4-D (random, collinear, lattice, duplicates), distinct weights, per-point cut-offs tiny..> diameter, "
        "gabriel_shell 1..4, scale, periodic cells; distinct = (mode, n, d, family, shell/cut regime); non-trivial = at least two clusters or a path of length >= 2")

def cases(rng, tier, focus):
    reps = 40 if tier == 'quick' else 400
    fams = ['random', 'collinear', 'lattice', 'dup', 'clusters']
    for rep in range(reps):
        for fam in fams:
            d = int(rng.integers(1, 5)); n = int(rng.integers(2, 9 if rep % 3 else 40))
            if fam == 'random': X = rng.normal(size=(n, d))
            elif fam == 'collinear': X = np.outer(np.sort(rng.uniform(0, 5, n)), np.ones(d))
            elif fam == 'lattice': X = rng.integers(0, 4, size=(n, d)).astype(float)
            elif fam == 'dup':
                X = rng.normal(size=(n, d)); X[rng.integers(0, n)] = X[rng.integers(0, n)]
            else: X = rng.normal(size=(n, d)) * 0.3 + rng.integers(0, 3, size=(n, 1)) * 4.0
            w = rng.permutation(n).astype(float) + rng.uniform(0, 0.5)
            if rep % 4 == 1: w = -np.exp(-w)
            for mode in ('qs', 'gs'):
                c = dict(kind='fit', mode=mode, X=X, w=w, fam=fam)
                if mode == 'qs':
                    regime = rep % 4
                    diam = float(np.max(np.sum((X[:, None] - X[None]) ** 2, -1))) + 1.0
                    c['cuts'] = {0: np.full(n, 1e-9), 1: rng.uniform(0.01, diam, n), 2: np.full(n, 10 * diam), 3: rng.choice([1e-3, diam, 0.3 * diam], n)}[regime]
                    c['scale'] = float(rng.choice([1.0, 0.5, 2.0]))
                    c['regime'] = regime
                else:
                    c['shell'] = int(rng.integers(1, 5))
                if rep % 5 == 0 and fam != 'dup': c['cell'] = [float(x) for x in rng.uniform(1.5, 4.0, d)]
                yield c
    # exhaustive permutations for small n
    for n in ((4, 5) if tier == 'quick' else (4, 5, 6, 7)):
        X = rng.normal(size=(n, 2)); w = rng.permutation(n).astype(float)
        cuts = rng.uniform(0.5, 6.0, n)
        for perm in itertools.islice(itertools.permutations(range(n)), 0, 5040 if tier != 'quick' else 120):
            yield dict(kind='perm', X=X, w=w, cuts=cuts, perm=list(perm), shell=2)

def nontrivial(c):
    if c['kind'] == 'perm': return ('perm', len(c['w']), tuple(c['perm']))
    return (c['mode'], c['X'].shape, c['fam'], c.get('regime'), c.get('shell'), 'cell' in c)

def dist_sq(X, cell=None):
    from skmatter.metrics import periodic_pairwise_euclidean_distances
    D = periodic_pairwise_euclidean_distances(X, X, squared=True, cell_length=cell)
    D = np.array(D, dtype=float); np.fill_diagonal(D, np.inf)
    return D

def gabriel_brute(D, tol=1e-9):
    """brute-force Gabriel graph and a mask of entries whose decision is not within rounding of a tie"""
    n = len(D); G = np.zeros((n, n), bool); decided = np.ones((n, n), bool)
    scale = max(1.0, float(np.max(D[np.isfinite(D)])) if np.isfinite(D).any() else 1.0)
    for a in range(n):
        for b in range(n):
            if a == b: continue
            gaps = np.array([D[a, k] + D[b, k] - D[a, b] for k in range(n) if k != a and k != b] + [np.inf])
            G[a, b] = not bool(np.any(gaps < 0))
            decided[a, b] = bool(np.min(np.abs(gaps)) > tol * scale)
    return G, decided

def reach(G, idx, shell):
    cur = G[idx].copy()
    for _ in range(1, shell):
        nxt = cur.copy()
        for k in np.flatnonzero(cur): nxt |= G[k]
        cur = nxt
    return cur

def check_next(mode, W, D, idx, r, cut=None, nn=None, R=None):
    n = len(W)
    expect(0 <= r < n, 'next-in-range', f"idx={idx} r={r}")
    if mode == 'qs':
        cand = [j for j in range(n) if W[j] > W[idx] and D[idx, j] < cut]
    else:
        cand = [j for j in range(n) if W[j] > W[idx] and R[j] and D[idx, j] < np.inf]
    if cand:
        best = min(D[idx, j] for j in cand)
        expect(r in cand and D[idx, r] <= best, f'post:next-is-nearest-allowed-higher-weight-point[{mode}]',
               f"idx={idx} returned {r} (d={D[idx, r]}), candidates {cand} best d={best}")
    elif mode == 'qs':
        exp = nn if W[nn] > W[idx] else idx
        expect(r == exp, 'post:fallback-denser-nearest-neighbour-else-self[qs]', f"idx={idx} returned {r}, expected {exp}")
    else:
        expect(r == idx, 'post:no-candidate-means-self[gs]', f"idx={idx} returned {r}")

def fit_model(c, X, w, cuts=None):
    from skmatter.clustering import QuickShift
    mp = {'cell_length': c['cell']} if 'cell' in c else None
    if c.get('mode', 'qs') == 'qs':
        m = QuickShift(dist_cutoff_sq=np.array(cuts if cuts is not None else c['cuts'], dtype=float).copy(), scale=c.get('scale', 1.0), metric_params=mp)
    else:
        m = QuickShift(gabriel_shell=c['shell'], metric_params=mp)
    return m.fit(X, samples_weight=w)

def check(c):
    from skmatter.clustering import _quick_shift as qsmod
    out = []
    if c['kind'] == 'perm':
        X, w, cuts, perm = c['X'], c['w'], c['cuts'], np.array(c['perm'])
        for mode in ('qs', 'gs'):
            cc = dict(mode=mode, shell=c['shell'], scale=1.0)
            base = fit_model(cc, X, w, cuts).labels_
            m2 = fit_model(cc, X[perm], w[perm], cuts[perm]).labels_
            # labels in permuted run refer to permuted indices: map back
            back = perm[m2]            # original index of the root of permuted point t
            expect(np.array_equal(back, base[perm]), f'post:partition-independent-of-point-order[{mode}]', f"perm={perm.tolist()} base={base.tolist()} got={back.tolist()}")
        return out
    X, w = c['X'], c['w']; n = len(w); mode = c['mode']
    cell = c.get('cell')
    D = dist_sq(X, cell)
    # function-level contracts through wrappers (the runtime form of the modular contracts used by fit)
    calls = []
    real_qs, real_gs, real_gab = qsmod.QuickShift._qs_next, qsmod.QuickShift._gs_next, qsmod._get_gabriel_graph
    G_spec = None
    if mode == 'gs':
        Gb, dec = gabriel_brute(D)
        G_spec = real_gab(D)
        expect(np.array_equal(G_spec[dec], Gb[dec]), 'post:gabriel-graph-equals-brute-force-definition', f'differs at {np.argwhere((G_spec != Gb) & dec)[:3].tolist()}')
    scale2 = c.get('scale', 1.0) ** 2
    nnspec = np.argmin(D, axis=1)
    def w_qs(self, idx, idxn, probs, distmm, cutoff):
        r = real_qs(self, idx, idxn, probs, distmm, cutoff)
        calls.append(('qs', idx, r))
        expect(np.array_equal(probs, w), 'pre-at-call:_qs_next:weights-are-the-sample-weights')
        expect(np.allclose(distmm, D, equal_nan=True) , 'pre-at-call:_qs_next:distances-are-the-metric-with-infinite-diagonal')
        expect(distmm[idx, idxn] <= distmm[idx].min(), 'pre-at-call:_qs_next:fallback-is-the-nearest-neighbour', f"idx={idx} idxn={idxn}")
        expect(abs(cutoff - c['cuts'][idx] * scale2) <= 1e-12 * max(1, abs(cutoff)), 'pre-at-call:_qs_next:cutoff-is-the-scaled-cutoff-of-the-point-itself',
               f"idx={idx} cutoff passed={cutoff} expected={c['cuts'][idx] * scale2}")
        check_next('qs', probs, distmm, idx, r, cut=cutoff, nn=idxn)
        return r
    def w_gs(self, idx, probs, distmm, gabriel):
        r = real_gs(self, idx, probs, distmm, gabriel)
        calls.append(('gs', idx, r))
        expect(np.array_equal(gabriel, G_spec), 'pre-at-call:_gs_next:graph-is-the-gabriel-graph-of-the-distances')
        check_next('gs', probs, distmm, idx, r, R=reach(G_spec, idx, c['shell']))
        return r
    def w_gab(dm):
        g = real_gab(dm)
        gb, dec = gabriel_brute(dm)
        expect(np.array_equal(g[dec], gb[dec]), 'post:gabriel-graph-equals-brute-force-definition', f'differs at {np.argwhere((g != gb) & dec)[:3].tolist()}')
        return g
    qsmod.QuickShift._qs_next, qsmod.QuickShift._gs_next, qsmod._get_gabriel_graph = w_qs, w_gs, w_gab
    try:
        m = fit_model(c, X, w)
        labels = np.asarray(m.labels_); cen = np.asarray(m.cluster_centers_idx_)
        # spec-level next and root, computed with the real next-function (ties resolved as the code does) after checking it against the spec
        me = m
        def nxt(p):
            if mode == 'qs': return real_qs(me, p, nnspec[p], w, D, c['cuts'][p] * scale2)
            return real_gs(me, p, w, D, G_spec)
        for p in range(n):
            r = nxt(p)
            check_next(mode, w, D, p, r, cut=(c['cuts'][p] * scale2 if mode == 'qs' else None), nn=nnspec[p], R=(reach(G_spec, p, c['shell']) if mode == 'gs' else None))
        root = np.zeros(n, int)
        for p in range(n):
            q = p
            for _ in range(n + 1):
                r = nxt(q)
                if r == q: break
                q = r
            root[p] = q
        expect(labels.shape == (n,) and np.array_equal(labels, root), 'post:every-point-labelled-with-its-ascent-root', f"labels={labels.tolist()} roots={root.tolist()}")
        expect(all(labels[t] == t for t in cen), 'post:every-centre-labels-itself')
        expect(set(labels.tolist()) <= set(cen.tolist()), 'post:every-label-is-a-centre')
        expect(np.array_equal(cen, np.flatnonzero(labels == np.arange(n))), 'post:centres-are-exactly-the-fixpoints-of-next')
        expect(labels[int(np.argmax(w))] == int(np.argmax(w)), 'post:highest-weight-point-is-a-centre')
        expect(np.array_equal(np.asarray(m.cluster_centers_), X[cen]), 'post:cluster-centres-are-the-rows-of-X')
    finally:
        qsmod.QuickShift._qs_next, qsmod.QuickShift._gs_next, qsmod._get_gabriel_graph = real_qs, real_gs, real_gab
    if True:
        # invariances over the spec: strictly increasing re-mapping of the weights, periodic images
        m2 = fit_model(c, X, (np.argsort(np.argsort(w)).astype(float) - 3.0) ** 3 + 0.25)   # strictly increasing map of the weights, exact in floats
        expect(np.array_equal(m2.labels_, labels), 'post:partition-invariant-under-increasing-weight-map')
        if cell is not None:
            shift = np.round(np.random.default_rng(0).integers(-2, 3, size=X.shape)) * np.array(cell)
            D2 = dist_sq(X + shift, cell)
            # only when neither exact ties nor rounding can reorder the distances seen from any point ("tied within rounding" is excluded)
            rows = np.sort(np.where(np.isfinite(D), D, np.nan), axis=1)[:, :-1]
            gaps = np.nanmin(np.diff(rows, axis=1)) if rows.shape[1] > 1 else 1.0
            cuts_ok = True
            if mode == 'qs':
                cs = (c['cuts'] * scale2)[:, None]
                cuts_ok = np.nanmin(np.abs(rows - cs)) > 1e-6
            if mode == 'gs':
                # the Gabriel test compares D[a,b] with D[a,k] + D[b,k]: exact ties (right angles on a lattice) flip with the rounding of the shifted coordinates
                cuts_ok = bool(gabriel_brute(D, tol=1e-6)[1].all()) and bool(gabriel_brute(D2, tol=1e-6)[1].all())
            if np.allclose(D2, D, rtol=1e-9, atol=1e-9) and gaps > 1e-6 and cuts_ok:
                m3 = fit_model(c, X + shift, w)
                expect(np.array_equal(m3.labels_, labels), 'post:partition-invariant-under-periodic-images')
    return out
