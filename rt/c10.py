"""C10 runtime contracts: Ridge2FoldCV against an explicit two-fold regularised least-squares reference."""
import numpy as np, warnings
from .common import expect

RULE = ("X kinds (tall, wide, rank-deficient, duplicated column, badly scaled) x single/multi target x alpha grids (absolute 1e-12..1e3, relative in [0,1)) x "
        "{tikhonov, cutoff} x scorers {neg MSE, neg RMSE, r2} x cv {None shuffle on/off, explicit iterable, KFold} x n_jobs; distinct = (kind, shape, method, alpha_type, scoring, cv kind)")

def gen(rng, kind, n, m):
    if kind == 'tall': X = rng.normal(size=(n, m))
    elif kind == 'wide': X = rng.normal(size=(m + 1, 2 * m + 1))
    elif kind == 'rankdef': X = rng.normal(size=(n, max(1, m // 2))) @ rng.normal(size=(max(1, m // 2), m))
    elif kind == 'rankdef-large': X = 1e6 * (rng.normal(size=(n, max(1, m // 2))) @ rng.normal(size=(max(1, m // 2), m)))      # the rank cut must be relative to the scale of the data
    elif kind == 'rankdef-small': X = 1e-6 * (rng.normal(size=(n, max(1, m // 2))) @ rng.normal(size=(max(1, m // 2), m)))
    elif kind == 'dupcol':
        X = rng.normal(size=(n, m)); X[:, -1] = X[:, 0]
    else: X = rng.normal(size=(n, m)) * np.logspace(-3, 3, m)
    return X

def cases(rng, tier, focus):
    reps = 6 if tier == 'quick' else 60
    for rep in range(reps):
        for kind in ('tall', 'wide', 'rankdef', 'dupcol', 'scaled', 'rankdef-large', 'rankdef-small'):
            for meth in ('tikhonov', 'cutoff'):
                for atype in ('absolute', 'relative'):
                    n = int(rng.choice([10, 13, 27])); m = int(rng.integers(2, 6))
                    yield dict(kind=kind, n=n, m=m, p=int(rng.integers(1, 3)), meth=meth, atype=atype, scoring=[None, 'neg_root_mean_squared_error', 'r2'][rep % 3],
                               cv=['none-shuffle', 'none-noshuffle', 'iterable', 'kfold'][int(rng.integers(0, 4))], njobs=[None, 2][int(rep % 5 == 4)], seed=int(rng.integers(0, 10 ** 6)))

def nontrivial(c): return (c['kind'], c['n'], c['m'], c['meth'], c['atype'], c['scoring'], c['cv'])

def rls(Xa, ya, alpha, meth, rcond):
    U, s, Vt = np.linalg.svd(Xa, full_matrices=False)
    r = int(np.sum(s > rcond * s.max()))          # numerical rank: relative to the largest singular value
    if meth == 'tikhonov':
        return Vt.T[:, :r] @ (np.diag(s[:r] / (s[:r] ** 2 + alpha)) @ (U.T[:r] @ ya))
    q = min(r, int(np.sum(s > alpha)))
    return Vt.T[:, :q] @ (np.diag(1.0 / s[:q]) @ (U.T[:q] @ ya))

def check(c):
    from skmatter.linear_model import Ridge2FoldCV
    from sklearn.model_selection import KFold
    from sklearn.metrics import mean_squared_error, r2_score
    rng = np.random.default_rng(c['seed'])
    X = gen(rng, c['kind'], c['n'], c['m']); n, m = X.shape
    y = X @ rng.normal(size=(m, c['p'])) + 0.3 * rng.normal(size=(n, c['p']))
    alphas = np.array([1e-12, 1e-6, 1e-2, 1.0, 1e3]) if c['atype'] == 'absolute' else np.array([0.0, 1e-6, 1e-2, 0.3, 0.9])
    kw = dict(alphas=alphas.copy(), alpha_type=c['atype'], regularization_method=c['meth'], scoring=c['scoring'], n_jobs=c['njobs'], random_state=3)
    if c['cv'] == 'none-noshuffle': kw['random_state'] = None
    if c['cv'] == 'none-shuffle': kw['shuffle'] = True; folds = next(KFold(2, shuffle=True, random_state=3).split(X))
    elif c['cv'] == 'none-noshuffle': kw['shuffle'] = False; folds = next(KFold(2, shuffle=False).split(X))
    elif c['cv'] == 'kfold': kw['cv'] = KFold(2, shuffle=True, random_state=7); folds = next(KFold(2, shuffle=True, random_state=7).split(X))
    else:
        perm = rng.permutation(n); f1, f2 = np.sort(perm[: n // 3 + 1]), np.sort(perm[n // 3 + 1:])
        kw['cv'] = [(f1, f2), (f2, f1)]; folds = (f1, f2)
    with warnings.catch_warnings():
        warnings.simplefilter('ignore')
        est = Ridge2FoldCV(**kw).fit(X, y)
    f1, f2 = folds
    rcond = max(X.shape) * np.spacing(X.dtype.type(1))
    s1 = np.linalg.svd(X[f1], compute_uv=False); s2 = np.linalg.svd(X[f2], compute_uv=False)
    scale = max(s1.max(), s2.max()) if c['atype'] == 'relative' else 1.0
    def score(yt, yp):
        if c['scoring'] is None: return -mean_squared_error(yt, yp)
        if c['scoring'] == 'neg_root_mean_squared_error': return -float(np.mean(np.sqrt(np.mean((np.asarray(yt) - np.asarray(yp)) ** 2, axis=0))))      # sklearn: uniform average of the per-output RMSE
        return r2_score(yt, yp)
    exp = []
    for a in alphas * scale:
        w1 = rls(X[f1], y[f1], a, c['meth'], rcond); w2 = rls(X[f2], y[f2], a, c['meth'], rcond)
        exp.append(0.5 * (score(y[f2], X[f2] @ w1) + score(y[f1], X[f1] @ w2)))
    exp = np.array(exp); got = np.asarray(est.cv_values_, float)
    sig = lambda s: f"{s}[{c['meth']},{c['atype']}]"
    tol = 1e-6 * np.maximum(1.0, np.abs(exp))
    if np.any(~np.isfinite(exp)): return []      # degenerate folds (fewer than two samples): the scorer itself is undefined
    expect(np.all(np.abs(got - exp) <= tol), sig('post[C10]:per-alpha-cv-values-equal-explicit-two-fold-regularised-least-squares'), f"scoring={c['scoring']} cv={c['cv']} got {got} expected {exp}")
    best = int(np.argmax(got))
    expect(est.alpha_ == alphas[best] and abs(est.best_score_ - got[best]) <= 1e-12 * max(1, abs(got[best])), sig('post[C10]:chosen-alpha-is-the-grid-value-with-the-best-cv-value'))
    wfull = rls(X, y, alphas[best] * scale, c['meth'], rcond)
    sc = max(1.0, np.abs(wfull).max())
    expect(est.coef_.shape == wfull.T.shape and np.allclose(est.coef_, wfull.T, rtol=1e-5, atol=1e-7 * sc), sig('post[C10]:final-coefficients-are-the-regularised-full-data-solution-with-the-rank-cut'),
           f"max |coef| {np.abs(est.coef_).max()} expected {np.abs(wfull).max()} max dev {np.max(np.abs(est.coef_ - wfull.T)) if est.coef_.shape == wfull.T.shape else 'shape'}")
    Xn = rng.normal(size=(4, m))
    expect(np.allclose(est.predict(Xn), Xn @ est.coef_.T), sig('post[C10]:predict-is-X-times-the-coefficients'))
    if c['atype'] == 'relative':
        try:
            Ridge2FoldCV(alphas=[0.5, 1.0], alpha_type='relative').fit(X, y)
            expect(False, 'reject[C10]:relative-alphas-outside-[0,1)-are-rejected')
        except ValueError: pass
    return []
