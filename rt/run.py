import os
os.environ.setdefault("TQDM_DISABLE", "1")
import argparse, importlib, json, os, sys, time, traceback, hashlib
import numpy as np
from .common import ROOT, jsonable, unjson, Violation

def run_case(mod, case):
    """returns list of (signature, detail)"""
    try:
        out = mod.check(case)
        return list(out or [])
    except Violation as v:
        return [(v.signature, v.detail)]
    except Exception as e:
        # the real code raised on an input for which the contract promises a result (harness-side rejections are caught in the property module)
        tb = traceback.extract_tb(e.__traceback__)
        where = next((f"{os.path.basename(f.filename)}:{f.name}" for f in reversed(tb) if 'skmatter' in f.filename), 'harness')
        return [(f"raises:{type(e).__name__}@{where}[{case.get('kind', '')}]", repr(e)[:300])]

def main():
    ap = argparse.ArgumentParser()
    ap.add_argument('prop'); ap.add_argument('--tier', default='quick'); ap.add_argument('--seed', type=int, default=0)
    ap.add_argument('--out'); ap.add_argument('--focus', default=''); ap.add_argument('--budget', default=None)
    ap.add_argument('--replay')
    a = ap.parse_args()
    prop = a.prop.upper()
    mod = importlib.import_module('rt.' + prop.lower())
    if a.replay:
        rec = json.load(open(a.replay))
        if rec.get('kind') == 'obligation-not-discharged':
            print(f"replay: {rec['obligation']}: obligation not discharged by the solver portfolio; no concrete input attached")
            print(json.dumps(rec.get('solver_results')))
            return 1
        case = unjson(rec['case'])
        res = run_case(mod, case)
        if res:
            for sig, det in res: print(f"replay: contract violated on the real code: {sig} :: {det}")
            return 1
        print("replay: the real code satisfies the contract on this input")
        return 0
    rng = np.random.default_rng(a.seed)
    focus = set(x for x in a.focus.split(',') if x)
    t0 = time.time()
    viol = []; n = 0; keys = set(); samples = []
    budget_s = {'quick': 25, 'thorough': 240}[a.tier]
    if a.budget == 'refute': budget_s = max(budget_s, 120)
    seen_sig = {}
    import itertools
    # PINNED: witnesses of recorded findings (known_findings.txt), evaluated on every run so that each listed finding is reported on every run
    for case in itertools.chain(getattr(mod, 'PINNED', []), mod.cases(rng, a.tier if a.budget != 'refute' else 'thorough', focus)):
        n += 1
        k = mod.nontrivial(case)
        if k is not None: keys.add(k)
        if len(samples) < 3: samples.append(jsonable({kk: (vv if not isinstance(vv, np.ndarray) or vv.size <= 24 else f"ndarray{vv.shape}") for kk, vv in case.items()}))
        for sig, det in run_case(mod, case):
            if sig in seen_sig: seen_sig[sig]['count'] += 1; continue
            d = os.path.join(ROOT, 'replays', prop); os.makedirs(d, exist_ok=True)
            path = os.path.join(d, hashlib.sha1(sig.encode()).hexdigest()[:12] + '.json')
            json.dump(dict(property=prop, kind='runtime-contract-violation', signature=sig, detail=str(det)[:4000], case=jsonable(case),
                           replay_cmd=f"./vcheck replay {path}"), open(path, 'w'), indent=1)
            v = dict(signature=sig, replay=path, detail=str(det)[:500], count=1)
            seen_sig[sig] = v; viol.append(v)
        if time.time() - t0 > budget_s: break
    res = dict(property=prop, violations=viol,
               coverage=dict(evaluations=n, distinct_nontrivial=len(keys), rule=getattr(mod, 'RULE', ''), samples=samples,
                             wall_s=round(time.time() - t0, 2), label='bounded: runtime contracts on generated inputs; never counted as proved'))
    if a.out: json.dump(res, open(a.out, 'w'), indent=1)
    else: print(json.dumps(res, indent=1)[:3000])
    return 1 if viol else 0

if __name__ == '__main__':
    sys.exit(main())
