"""Runtime side (runs under /venv/bin/python with the real skmatter): concrete interpretation of the contracts.
A property module defines
    cases(rng, tier, focus) -> iterable of case dicts (JSON-serialisable, with key 'kind')
    check(case) -> list of (signature, detail) for every contract clause the REAL code violates on that case
    nontrivial(case) -> hashable key or None (for the distinct-non-trivial count)
Everything found here is *bounded* evidence; it is never counted as proved."""
import json, os, hashlib, traceback
import numpy as np

ROOT = os.path.dirname(os.path.dirname(os.path.abspath(__file__)))

def jsonable(x):
    if isinstance(x, np.ndarray): return dict(__nd__=x.tolist(), dtype=str(x.dtype))
    if isinstance(x, (np.integer,)): return int(x)
    if isinstance(x, (np.floating,)): return float(x)
    if isinstance(x, (np.bool_,)): return bool(x)
    if isinstance(x, dict): return {k: jsonable(v) for k, v in x.items()}
    if isinstance(x, (list, tuple)): return [jsonable(v) for v in x]
    return x

def unjson(x):
    if isinstance(x, dict):
        if '__nd__' in x: return np.array(x['__nd__'], dtype=x.get('dtype', 'float64'))
        return {k: unjson(v) for k, v in x.items()}
    if isinstance(x, list): return [unjson(v) for v in x]
    return x

def close(a, b, rtol=1e-7, atol=1e-9):
    a = np.asarray(a, dtype=float); b = np.asarray(b, dtype=float)
    if a.shape != b.shape: return False
    scale = max(1.0, float(np.max(np.abs(b))) if b.size else 1.0)
    return bool(np.all(np.abs(a - b) <= atol * scale + rtol * np.abs(b) + rtol * scale * 1e-3))

class Violation(Exception):
    def __init__(self, signature, detail): self.signature, self.detail = signature, detail

def expect(cond, signature, detail=''):
    if not cond: raise Violation(signature, detail)
