"""C19 runtime contracts: DirectionalConvexHull against a brute-force lower-envelope oracle."""
import itertools, warnings
import numpy as np
from .common import expect

RULE = "sample sets in general position x hull dims 1..3 x 0..3 high-dimensional columns x order of low_dim_idx x convex/non-convex targets x added points above x positive affine maps of y x query points inside the footprint; distinct = (hull dim, high dim, n, target kind, seed class)"

def cases(rng, tier, focus):
    reps = 12 if tier == 'quick' else 120
    for rep in range(reps):
        for hd in (1, 2, 3):
            for extra in (0, 2):
                yield dict(hd=hd, extra=extra, n=int(rng.integers(hd + 4, 14 if hd < 3 else 11)), kind=['convex', 'nonconvex'][rep % 2], seed=int(rng.integers(0, 10 ** 6)), intX=(rep % 4 == 1 and extra == 0))

# witness of the recorded finding 'NaN at a selected vertex on the footprint boundary' (known_findings.txt)
PINNED = [dict(hd=3, extra=2, n=10, kind='nonconvex', seed=130321)]

def nontrivial(c): return (c['hd'], c['extra'], c['n'], c['kind'], c['seed'] % 4, c.get('intX', False))

def envelope(P, y, q, tol=1e-12):
    """lower convex envelope of the points (P_i, y_i) at position q: min sum l_i y_i s.t. sum l_i P_i = q, l >= 0, sum l = 1 (brute force over simplices)"""
    n, d = P.shape
    best = np.inf
    for comb in itertools.combinations(range(n), d + 1):
        A = np.vstack([P[list(comb)].T, np.ones(d + 1)])
        if abs(np.linalg.det(A)) < 1e-10: continue
        lam = np.linalg.solve(A, np.concatenate([q, [1.0]]))
        if np.all(lam >= -1e-9): best = min(best, float(lam @ y[list(comb)]))
    return best

def check(c):
    from skmatter.sample_selection import DirectionalConvexHull
    rng = np.random.default_rng(c['seed']); hd, n = c['hd'], c['n']
    P = rng.uniform(-1, 1, size=(n, hd))
    y = (np.sum(P ** 2, axis=1) + 0.3 * rng.normal(size=n)) if c['kind'] == 'convex' else (np.sin(3 * P[:, 0]) + 0.5 * rng.normal(size=n))
    H = rng.normal(size=(n, c['extra']))
    ncol = hd + c['extra']
    order = rng.permutation(ncol)
    X = np.hstack([P, H])[:, np.argsort(order)] if False else None
    # place the low-dimensional columns at arbitrary positions, in arbitrary order
    low_idx = [int(x) for x in rng.choice(ncol, size=hd, replace=False)]
    high_idx = [j for j in range(ncol) if j not in low_idx]
    X = np.zeros((n, ncol)); X[:, low_idx] = P
    if high_idx: X[:, high_idx] = H
    if c.get('intX'):
        # integer-typed features (compositions on a grid, atom counts) with real-valued targets
        P = np.round(P * 1000); X = np.zeros((n, ncol), dtype=np.int64); X[:, low_idx] = P.astype(np.int64)
        if high_idx: X[:, high_idx] = np.round(H * 10).astype(np.int64)
    with warnings.catch_warnings():
        warnings.simplefilter('ignore')
        dch = DirectionalConvexHull(low_dim_idx=low_idx).fit(X, y)
        sel = np.asarray(dch.selected_idx_)
        d_train = dch.score_samples(X, y)
    sig = lambda s: f"{s}[hull-dim={hd}]"
    expect(np.all(d_train >= -1e-9), sig('post[C19]:no-training-sample-lies-below-the-hull'), f"{d_train.min()}")
    expect(np.allclose(d_train[sel], 0, atol=1e-9), sig('post[C19]:selected-samples-have-zero-distance'))
    # oracle: a sample is selected iff it lies strictly below the envelope of the other samples at its position
    exp_sel = []
    for i in range(n):
        others = [j for j in range(n) if j != i]
        e = envelope(P[others], y[others], P[i])
        if y[i] < e - 1e-9: exp_sel.append(i)
        unsel_margin = y[i] - e
        if i not in sel and np.isfinite(e): expect(d_train[i] > 1e-12 or abs(unsel_margin) < 1e-9, sig('post[C19]:unselected-training-samples-in-general-position-have-positive-distance'), f"sample {i}: distance {d_train[i]}")
    expect(sorted(sel.tolist()) == sorted(exp_sel), sig('post[C19]:selected-exactly-when-strictly-below-every-convex-combination-of-other-samples'), f"selected {sorted(sel.tolist())} oracle {sorted(exp_sel)}")
    if c['extra']:
        with warnings.catch_warnings():
            warnings.simplefilter('ignore')
            R = dch.score_feature_matrix(X)
        Rs = R[sel] if R.shape == (n, c['extra']) else None
        nanrows = np.isnan(Rs).any(axis=1) if Rs is not None else np.zeros(0, bool)
        expect(Rs is not None and np.allclose(Rs[~nanrows], 0, atol=1e-9), sig('post[C19]:selected-samples-have-zero-high-dimensional-residual'))
        if nanrows.any():
            # NaN at a selected sample: the interpolator could not locate one of its own vertices.  Classified by where that vertex lies
            # (recorded finding: a vertex ON THE BOUNDARY of the hull's footprint is reported as outside by scipy's point location)
            Ps = P[sel]
            if hd == 1: bnd = {int(np.argmin(Ps[:, 0])), int(np.argmax(Ps[:, 0]))}
            else:
                from scipy.spatial import ConvexHull
                try: bnd = set(ConvexHull(Ps).vertices.tolist())
                except Exception: bnd = set()
            where = 'on-the-footprint-boundary' if all(int(t) in bnd for t in np.flatnonzero(nanrows)) else 'inside-the-footprint'
            expect(False, sig(f'post[C19]:selected-samples-have-zero-high-dimensional-residual@nan-at-a-selected-vertex-{where}'), f"selected samples {sel[nanrows].tolist()}")
    # queries inside the footprint: vertical offset from the lower envelope
    for t in range(4):
        lam = rng.dirichlet(np.ones(len(sel))); q = lam @ P[sel]
        e = envelope(P, y, q)
        for off in (0.3, -0.2, 0.0):
            Xq = np.zeros((1, ncol)); Xq[0, low_idx] = q
            with warnings.catch_warnings():
                warnings.simplefilter('ignore')
                dq = float(dch.score_samples(np.vstack([Xq, Xq]), np.array([e + off, e + off]))[0])
            if off > 0: expect(abs(dq - off) <= 1e-7, sig('post[C19]:distance-on-or-above-the-surface-is-the-vertical-offset'), f"offset {off}: distance {dq}")
            elif off < 0: expect(dq < 0, sig('post[C19]:distance-below-the-surface-is-negative'), f"offset {off}: distance {dq}")
            else: expect(abs(dq) <= 1e-7, sig('post[C19]:distance-on-the-surface-is-zero'), f"{dq}")
    # one batch mixing points above, on and below the surface at different positions: every entry is the entry of the point scored alone (scores do not depend on the batch)
    qs = np.array([rng.dirichlet(np.ones(len(sel))) @ P[sel] for _ in range(6)]); offs = np.array([0.4, -0.3, 0.0, -0.05, 0.7, -0.6])
    es = np.array([envelope(P, y, q) for q in qs])
    Xb = np.zeros((6, ncol)); Xb[:, low_idx] = qs
    with warnings.catch_warnings():
        warnings.simplefilter('ignore')
        db = np.asarray(dch.score_samples(Xb, es + offs), float)
        d1 = np.array([float(dch.score_samples(np.vstack([Xb[t:t + 1], Xb[t:t + 1]]), np.array([es[t] + offs[t]] * 2))[0]) for t in range(6)])
    expect(np.allclose(db, d1, atol=1e-9), sig('post[C19]:distance-of-a-sample-does-not-depend-on-the-other-samples-scored-with-it'), f"batch {db.tolist()} alone {d1.tolist()}")
    expect(np.all(db[offs < 0] < 0) and np.allclose(db[offs > 0], offs[offs > 0], atol=1e-7), sig('post[C19]:batch:negative-below-the-surface-and-vertical-offset-above-it'), f"{db.tolist()} for offsets {offs.tolist()}")
    # adding samples strictly above the hull; positive affine change of y
    k = 3; Pa = np.array([rng.dirichlet(np.ones(len(sel))) @ P[sel] for _ in range(k)]); ya = np.array([envelope(P, y, q) for q in Pa]) + rng.uniform(0.1, 1.0, k)
    X2 = np.zeros((n + k, ncol)); X2[:n] = X; X2[n:, low_idx] = Pa
    if high_idx: X2[n:, high_idx] = rng.normal(size=(k, c['extra']))
    with warnings.catch_warnings():
        warnings.simplefilter('ignore')
        d2 = DirectionalConvexHull(low_dim_idx=low_idx).fit(X2, np.concatenate([y, ya]))
        a, b = float(rng.uniform(0.5, 4)), float(rng.normal())
        d3 = DirectionalConvexHull(low_dim_idx=low_idx).fit(X, a * y + b)
        dist3 = d3.score_samples(X, a * y + b)
    expect(sorted(np.asarray(d2.selected_idx_).tolist()) == sorted(sel.tolist()), sig('post[C19]:selection-unchanged-by-adding-samples-strictly-above-the-hull'), f"{sorted(np.asarray(d2.selected_idx_).tolist())} vs {sorted(sel.tolist())}")
    expect(sorted(np.asarray(d3.selected_idx_).tolist()) == sorted(sel.tolist()) and np.allclose(dist3, a * d_train, atol=1e-8 * max(1.0, a)), sig('post[C19]:positive-affine-change-of-the-target-keeps-the-selection-and-scales-the-distances'))
    return []
