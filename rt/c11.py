"""C11 runtime contracts: StandardFlexibleScaler against the weighted training distribution."""
import numpy as np, warnings
from .common import expect

RULE = "X (n>=2, widely different column scales/offsets) x with_mean x with_std x column_wise x weights (None, random, zeros, integer multiplicities) x rtol/atol; distinct = (flags, weight kind, shape, seed class)"

def cases(rng, tier, focus):
    reps = 8 if tier == 'quick' else 80
    for rep in range(reps):
        for wm in (True, False):
            for ws in (True, False):
                for cw in (True, False):
                    for wk in ('none', 'random', 'zeros', 'integer'):
                        yield dict(wm=wm, ws=ws, cw=cw, wk=wk, n=int(rng.integers(2, 12)), m=int(rng.integers(1, 6)), seed=int(rng.integers(0, 10 ** 6)))

def nontrivial(c): return (c['wm'], c['ws'], c['cw'], c['wk'], c['n'], c['m'], c['seed'] % 5)

def weights(rng, kind, n):
    if kind == 'none': return None
    if kind == 'random': return rng.uniform(0.1, 3.0, n)
    if kind == 'zeros':
        w = rng.uniform(0.1, 3.0, n); w[rng.integers(0, n)] = 0.0
        if n > 2: w[rng.integers(0, n)] = 0.0
        if w.sum() == 0: w[0] = 1.0
        return w
    return rng.integers(0, 4, n).astype(float) + (np.arange(n) == 0)

def check(c):
    from skmatter.preprocessing import StandardFlexibleScaler
    rng = np.random.default_rng(c['seed']); n, m = c['n'], c['m']
    X = rng.normal(size=(n, m)) * np.logspace(-2, 2, m) + rng.normal(size=m) * 10
    w = weights(rng, c['wk'], n)
    sig = lambda s: f"{s}[mean={c['wm']},std={c['ws']},column_wise={c['cw']}]"
    mk = lambda **kw: StandardFlexibleScaler(with_mean=c['wm'], with_std=c['ws'], column_wise=c['cw'], **kw)
    wn = None if w is None else w / w.sum()
    mu = np.average(X, weights=wn, axis=0); var = np.average((X - mu) ** 2, weights=wn, axis=0)
    tot = var.sum()
    degenerate = c['ws'] and ((c['cw'] and np.any(var < 1e-12)) or (not c['cw'] and tot < 1e-12))
    try:
        sc = mk().fit(X, sample_weight=w)
    except ValueError:
        expect(degenerate, sig('reject[C11]:only-data-below-the-variance-tolerance-is-rejected'), f"var {var}")
        return []
    expect(not degenerate, sig('reject[C11]:data-below-the-variance-tolerance-is-rejected'), f"var {var} scale {sc.scale_}")
    Xt = sc.transform(X)
    s = max(1.0, np.abs(Xt).max())
    if c['wm']: expect(np.allclose(np.average(Xt, weights=wn, axis=0), 0, atol=1e-9 * s), sig('post[C11]:weighted-column-means-of-the-transformed-training-data-vanish'))
    if c['ws']:
        vt = np.average((Xt - np.average(Xt, weights=wn, axis=0)) ** 2, weights=wn, axis=0)
        if c['cw']: expect(np.allclose(vt, 1, rtol=1e-8), sig('post[C11]:weighted-variance-is-one-per-column'), f"{vt}")
        else: expect(abs(vt.sum() - 1) <= 1e-8, sig('post[C11]:weighted-variance-summed-over-columns-is-one'), f"{vt.sum()}")
    else:
        expect(np.all(np.asarray(sc.scale_) == 1.0), sig('post[C11]:scaling-off-means-scale-one'))
    Xn = rng.normal(size=(3, m)) * 5
    expect(np.allclose(sc.inverse_transform(sc.transform(Xn)), Xn, rtol=1e-9, atol=1e-9 * max(1, np.abs(Xn).max())), sig('post[C11]:inverse-transform-undoes-transform'))
    expect(np.allclose(sc.transform(Xn), (Xn - (mu if c['wm'] else 0)) / (1.0 if not c['ws'] else (np.sqrt(var) if c['cw'] else np.sqrt(tot))), rtol=1e-9, atol=1e-10), sig('post[C11]:transform-is-(X-mean)/scale-with-the-weighted-moments'))
    if c['wk'] == 'integer':
        reps_ = w.astype(int)
        Xr = np.repeat(X, reps_, axis=0)
        if len(Xr) >= 2:
            s2 = mk().fit(Xr)
            expect(np.allclose(s2.mean_, sc.mean_, rtol=1e-9, atol=1e-9) and np.allclose(s2.scale_, sc.scale_, rtol=1e-9), sig('post[C11]:integer-weights-equal-repeated-rows'))
    if c['wk'] == 'none' and c['cw']:
        from sklearn.preprocessing import StandardScaler
        ref = StandardScaler(with_mean=c['wm'], with_std=c['ws']).fit(X)
        expect(np.allclose(ref.transform(Xn), sc.transform(Xn), rtol=1e-9, atol=1e-9), sig('post[C11]:unweighted-column-wise-mode-equals-sklearn-StandardScaler'))
    if c['wm'] and c['ws']:
        shift = rng.normal(size=m) * 100; cfac = float(rng.choice([-3.0, 0.25, 7.0]))
        s3 = mk().fit(X + shift, sample_weight=w); s4 = mk().fit(X * cfac, sample_weight=w)
        expect(np.allclose(s3.transform(X + shift), Xt, rtol=1e-7, atol=1e-7 * s), sig('post[C11]:transformed-data-unchanged-by-a-prior-shift'))
        expect(np.allclose(s4.transform(X * cfac), np.sign(cfac) * Xt, rtol=1e-7, atol=1e-7 * s), sig('post[C11]:transformed-data-unchanged-up-to-sign-by-a-prior-uniform-rescaling'))
    # tolerance settings: variance just below / above a user tolerance
    if c['ws'] and c['wk'] == 'none':
        v0 = float(var.min() if c['cw'] else tot)
        for fac, should_reject in ((2.0, True), (0.5, False)):
            try:
                mk(atol=v0 * fac).fit(X); rejected = False
            except ValueError: rejected = True
            expect(rejected == should_reject, sig('reject[C11]:variance-compared-with-the-configured-tolerance'), f"variance {v0} atol {v0 * fac} rejected={rejected}")
    return []
