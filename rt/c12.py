"""C12 runtime contracts: kernel centring/normalisation against the explicit feature-space computation."""
import numpy as np
from .common import expect

RULE = "explicit random features (magnitudes 1e-6..1e3) x test sets of any size x weights (None, uniform, random, integer multiplicities) x with_center/with_trace x active sets (sparse); distinct = (class, flags, weight kind, sizes, magnitude)"

def cases(rng, tier, focus):
    reps = 6 if tier == 'quick' else 60
    for rep in range(reps):
        for cls in ('KernelNormalizer', 'SparseKernelCenterer'):
            for wc in (True, False):
                for wt in (True, False):
                    for wk in ('none', 'uniform', 'random', 'integer'):
                        yield dict(cls=cls, wc=wc, wt=wt, wk=wk, n=int(rng.integers(3, 10)), nt=int(rng.integers(1, 12)), d=int(rng.integers(2, 6)), a=int(rng.integers(1, 12)),
                                   mag=float(rng.choice([1e-6, 1e-3, 1.0, 1e3])), seed=int(rng.integers(0, 10 ** 6)))

def nontrivial(c): return (c['cls'], c['wc'], c['wt'], c['wk'], c['n'], c['nt'], c['a'], c['mag'])

def check(c):
    from skmatter.preprocessing import KernelNormalizer, SparseKernelCenterer
    rng = np.random.default_rng(c['seed']); n, nt, d = c['n'], c['nt'], c['d']
    Phi = rng.normal(size=(n, d)) * c['mag'] + rng.normal(size=d) * c['mag']; Psi = rng.normal(size=(nt, d)) * c['mag']
    w = {'none': None, 'uniform': np.ones(n) * 3.0, 'random': rng.uniform(0.1, 2, n), 'integer': rng.integers(1, 4, n).astype(float)}[c['wk']]
    wn = np.ones(n) / n if w is None else w / w.sum()
    sig = lambda s: f"{s}[{c['cls']},center={c['wc']},trace={c['wt']}]"
    mu = wn @ Phi if c['wc'] else np.zeros(d)
    if c['cls'] == 'KernelNormalizer':
        K = Phi @ Phi.T; Kt = Psi @ Phi.T
        est = KernelNormalizer(with_center=c['wc'], with_trace=c['wt']).fit(K.copy(), sample_weight=w)
        Pc = Phi - mu; Qc = Psi - mu
        scale = np.trace(Pc @ Pc.T) / n if c['wt'] else 1.0
        if c['wt'] and scale <= 0: return []
        r1 = est.transform(K.copy()); r2 = est.transform(Kt.copy())
        ref1 = Pc @ Pc.T / scale; ref2 = Qc @ Pc.T / scale
        tol = 1e-7 * max(1.0, np.abs(ref1).max(), np.abs(ref2).max())
        expect(np.allclose(r1, ref1, atol=tol) and np.allclose(r2, ref2, atol=tol), sig('post[C12]:transformed-kernels-are-gram-matrices-of-centred-scaled-features'), f"max dev {np.max(np.abs(r1 - ref1))}, {np.max(np.abs(r2 - ref2))}")
        if c['wt']: expect(abs(np.trace(r1) - n) <= 1e-7 * n, sig('post[C12]:transformed-training-kernel-has-trace-n'), f"{np.trace(r1)}")
        expect(np.allclose(KernelNormalizer(with_center=c['wc'], with_trace=c['wt']).fit_transform(K.copy(), sample_weight=w), r1, atol=tol), sig('post[C12]:fit_transform-equals-fit-then-transform'))
    else:
        a = min(c['a'], n)
        act = Phi[rng.choice(n, size=a, replace=False)] if c['a'] <= n else np.vstack([Phi, rng.normal(size=(c['a'] - n, d)) * c['mag']])
        Knm = Phi @ act.T; Kmm = act @ act.T; Ktm = Psi @ act.T
        est = SparseKernelCenterer(with_center=c['wc'], with_trace=c['wt']).fit(Knm.copy(), Kmm.copy(), sample_weight=w)
        rows = wn @ Knm if c['wc'] else np.zeros(Knm.shape[1])
        Kc = Knm - rows
        if c['wt']:
            tr = np.trace(Kc @ np.linalg.pinv(Kmm, 1e-12) @ Kc.T) / n
            if tr <= 1e-20 * max(1.0, np.abs(Kmm).max()): return []
            scale = np.sqrt(tr)
        else: scale = 1.0
        r1 = est.transform(Knm.copy()); r2 = est.transform(Ktm.copy())
        tol = 1e-6 * max(1.0, np.abs(Kc / scale).max())
        expect(np.allclose(r1, Kc / scale, atol=tol) and np.allclose(r2, (Ktm - rows) / scale, atol=1e-6 * max(1.0, np.abs((Ktm - rows) / scale).max())), sig('post[C12]:sparse-transform-is-(K-weighted-column-means)/scale'))
        if c['wc']: expect(np.allclose(wn @ r1, 0, atol=tol), sig('post[C12]:weighted-column-means-of-the-transformed-training-block-vanish'))
        if c['wt']:
            # explicit feature-space reference for the centred Nystrom kernel: projector on the span of the active features
            trn = np.trace(r1 @ np.linalg.pinv(Kmm, 1e-12) @ r1.T)
            expect(abs(trn - n) <= 1e-5 * n, sig('post[C12]:centred-nystrom-kernel-has-trace-n'), f"{trn}")
        expect(np.allclose(SparseKernelCenterer(with_center=c['wc'], with_trace=c['wt']).fit_transform(Knm.copy(), Kmm.copy(), sample_weight=w), r1, atol=tol), sig('post[C12]:fit_transform-equals-fit-then-transform'))
    return []
