"""C08 runtime contracts: prefix / restart / warm-start independence against the cold fit."""
import numpy as np, itertools
from .common import expect
from . import selectors as S

RULE = "selector families (CUR family with recompute_every in {0,1}) x directions x full-rank data x increasing schedules (exhaustive for n<=5, sampled above; jumps, fractions, None); distinct = (family, direction, shape, schedule)"

def schedules(rng, n, tier):
    if n <= 5:
        for r in range(1, n):
            for sub in itertools.combinations(range(1, n), r): yield list(sub) + [n]
    else:
        for _ in range(3 if tier == 'quick' else 12):
            k = int(rng.integers(1, 4)); yield sorted(set(int(x) for x in rng.integers(1, n, size=k))) + [n]

def cases(rng, tier, focus):
    reps = 1 if tier == 'quick' else 6
    for rep in range(reps):
        for fam in S.FAMS:
            for re_ in ((0, 1) if fam[0] in ('CUR', 'PCovCUR') else (None,)):
                nrow, ncol = int(rng.integers(7, 12)), int(rng.integers(7, 12))
                X = rng.normal(size=(nrow, ncol)); y = rng.normal(size=nrow) if fam[0].startswith('PCov') else None
                # data on other scales (the round-off residue of an orthogonalised column must not be taken for a direction of the data)
                X = X * [1.0, 1e3, 1e-3][(rep + len(fam[0]) + (re_ or 0)) % 3]
                N = S.N_of(fam, X)
                for n in (4, min(N - 1, 7)):
                    for sch in schedules(rng, n, tier):
                        yield dict(fam=fam, X=X, y=y, re=re_, sched=sch, n=n)

def nontrivial(c): return (tuple(c['fam']), c['re'], c['X'].shape, tuple(c['sched']))

def state(sel, fam):
    n = sel.n_selected_; ax = 1 if fam[1] == 'feature' else 0
    out = dict(idx=np.asarray(sel.selected_idx_)[:n].tolist(), Xsel=np.take(sel.X_selected_, np.arange(n), axis=ax))
    for a in ('hausdorff_', 'hausdorff_at_select_', 'norms_', 'pi_', 'X_current_', 'vlocation_of_idx'):
        if hasattr(sel, a): out[a] = np.asarray(getattr(sel, a), float)
    return out

def check(c):
    fam = tuple(c['fam']); X, y = c['X'], c['y']; n = c['n']
    kw = {}
    if c['re'] is not None: kw['recompute_every'] = c['re']
    cold = S.make(fam, dict(kw, n_to_select=n)); S.fit(cold, fam, X, y)
    sc = state(cold, fam)
    sig = lambda s: f"{s}[{fam[0]},{fam[1]},re={c['re']}]"
    w = S.make(fam, dict(kw, n_to_select=c['sched'][0])); S.fit(w, fam, X, y)
    expect(np.asarray(w.selected_idx_).tolist() == sc['idx'][:c['sched'][0]], sig('relational[C08]:first-k-selections-do-not-depend-on-the-requested-size'), f"{w.selected_idx_} vs {sc['idx']}")
    for k in c['sched'][1:]:
        w.n_to_select = k; S.fit(w, fam, X, y, warm_start=True)
    sw = state(w, fam)
    expect(sw['idx'] == sc['idx'], sig('relational[C08]:warm-started-chain-reproduces-the-cold-selection'), f"schedule {c['sched']}: {sw['idx']} vs cold {sc['idx']}")
    for a in sc:
        if a == 'idx': continue
        expect(a in sw and np.allclose(sw[a], sc[a], rtol=1e-7, atol=1e-9 * max(1.0, float(np.nanmax(np.abs(np.where(np.isfinite(sc[a]), sc[a], 0))))), equal_nan=True), sig(f'relational[C08]:warm-started-chain-reproduces-the-cold-state:{a}'), f"schedule {c['sched']}")
    try:
        u = S.make(fam, dict(kw, n_to_select=2)); S.fit(u, fam, X, y, warm_start=True)
        expect(False, sig('reject[C08]:warm-start-on-a-never-fitted-selector-is-rejected'))
    except ValueError: pass
    if fam[0] == 'FPS' and n >= 3:
        p = S.make(fam, dict(initialize=sc['idx'][:2], n_to_select=n)); S.fit(p, fam, X, y)
        expect(np.asarray(p.selected_idx_).tolist() == sc['idx'], sig('relational[C08]:initialising-with-the-selected-prefix-reproduces-the-cold-selection'))
        expect(np.allclose(np.take(p.X_selected_, np.arange(n), axis=(1 if fam[1] == 'feature' else 0)), sc['Xsel']), sig('relational[C08]:initialising-with-the-selected-prefix-reproduces-the-stored-data'))
        sp = state(p, fam)
        for a in ('hausdorff_', 'hausdorff_at_select_', 'norms_'):
            expect(a in sp and np.allclose(sp[a], sc[a], rtol=1e-9, atol=1e-12, equal_nan=True), sig(f'relational[C08]:initialising-with-the-selected-prefix-reproduces-the-cold-state:{a}'),
                   f"prefix {sc['idx'][:2]}: {sp.get(a)} vs cold {sc[a]}")
    return []
