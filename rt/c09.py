"""C09 runtime contracts (bounded): byte-wise snapshots of every argument of every public entry point, refit vs fresh fit,
fit returns self, fit_transform = fit then transform, repeatability."""
import copy, warnings, inspect
import numpy as np
from .common import expect, Violation

RULE = ("public estimators/functions x argument layouts (C order, Fortran order, read-only, non-contiguous view) x two-step fit histories (A then B, with-y then without-y, "
        "larger then smaller); distinct = (entry point, layout, history); non-trivial = the call completed")

def _data(rng, n, m, ny=2):
    X = rng.normal(size=(n, m)); Y = X @ rng.normal(size=(m, ny)) + 0.1 * rng.normal(size=(n, ny))
    return X, Y

def entries():
    """name -> (factory(rng, size) -> (estimator, fit_args dict, extra method calls [(name, args dict)]))"""
    from skmatter import feature_selection as fs, sample_selection as ss
    from skmatter.decomposition import PCovR, KernelPCovR
    from skmatter.preprocessing import StandardFlexibleScaler, KernelNormalizer, SparseKernelCenterer
    from skmatter.linear_model import Ridge2FoldCV, OrthogonalRegression
    from skmatter.neighbors import SparseKDE
    from skmatter.clustering import QuickShift
    E = {}
    def sel(cls, needs_y, **kw):
        def f(rng, size):
            n, m = (9, 6) if size == 0 else (7, 5)
            X, Y = _data(rng, n, m, 1)
            est = cls(n_to_select=3, **kw)
            fa = dict(X=X, y=Y[:, 0]) if needs_y else dict(X=X)
            extra = [('transform', dict(X=X))] if 'feature_selection' in cls.__module__ else []
            return est, fa, extra
        return f
    for mod, tag in ((fs, 'feature'), (ss, 'sample')):
        E[f'{tag}.FPS'] = sel(mod.FPS, False); E[f'{tag}.CUR'] = sel(mod.CUR, False)
        E[f'{tag}.PCovFPS'] = sel(mod.PCovFPS, True); E[f'{tag}.PCovCUR'] = sel(mod.PCovCUR, True)
        E[f'{tag}.FPS+y'] = sel(mod.FPS, True)
    E['sample.VoronoiFPS'] = sel(ss.VoronoiFPS, False, full_fraction=0.5)
    E['sample.VoronoiFPS[calibrated]'] = sel(ss.VoronoiFPS, False)
    def dch(rng, size):
        n = 12 if size == 0 else 9
        X = rng.normal(size=(n, 3)); y = rng.normal(size=n)
        return ss.DirectionalConvexHull(low_dim_idx=[0]), dict(X=X, y=y), [('score_samples', dict(X=X, y=y)), ('score_feature_matrix', dict(X=X))]
    E['DirectionalConvexHull'] = dch
    def pcovr(space, user_regressor=False):
        def f(rng, size):
            n, m = (10, 4) if size == 0 else (8, 3)
            X, Y = _data(rng, n, m)
            X = X - X.mean(0); Y = Y - Y.mean(0)
            from sklearn.linear_model import Ridge
            kw = dict(regressor=Ridge(alpha=0.05, fit_intercept=False)) if user_regressor else {}
            return PCovR(mixing=0.5, n_components=2, space=space, **kw), dict(X=X, Y=Y), [('transform', dict(X=X)), ('predict', dict(X=X)), ('score', dict(X=X, y=Y)), ('inverse_transform', dict(T=X[:, :2]))]
        return f
    E['PCovR[feature]'] = pcovr('feature'); E['PCovR[sample]'] = pcovr('sample'); E['PCovR[sample,user-regressor]'] = pcovr('sample', True)
    def kpcovr(kernel, center):
        def f(rng, size):
            n, m = (10, 4) if size == 0 else (8, 3)
            X, Y = _data(rng, n, m)
            if kernel == 'precomputed': X = X @ X.T
            return KernelPCovR(mixing=0.5, n_components=2, kernel=kernel, center=center), dict(X=X, Y=Y), [('transform', dict(X=X)), ('predict', dict(X=X)), ('score', dict(X=X, y=Y))]
        return f
    E['KernelPCovR[rbf]'] = kpcovr('rbf', False); E['KernelPCovR[precomputed,center]'] = kpcovr('precomputed', True); E['KernelPCovR[linear,center]'] = kpcovr('linear', True)
    def scaler(rng, size):
        n, m = (10, 4) if size == 0 else (8, 3)
        X, _ = _data(rng, n, m); w = rng.uniform(0.5, 2, n)
        return StandardFlexibleScaler(column_wise=bool(size)), dict(X=X, sample_weight=w), [('transform', dict(X=X)), ('inverse_transform', dict(X_tr=X))]
    E['StandardFlexibleScaler'] = scaler
    def knorm(rng, size):
        n = 8 if size == 0 else 6
        X, _ = _data(rng, n, 3); K = X @ X.T; w = rng.uniform(0.5, 2, n)
        return KernelNormalizer(), dict(K=K, sample_weight=w), [('transform', dict(K=K)), ('fit_transform', dict(K=K, sample_weight=w))]
    E['KernelNormalizer'] = knorm
    def skc(rng, size):
        n, a = (9, 4) if size == 0 else (7, 3)
        X, _ = _data(rng, n, 3); Knm = X @ X[:a].T; Kmm = X[:a] @ X[:a].T; w = rng.uniform(0.5, 2, n)
        return SparseKernelCenterer(), dict(Knm=Knm, Kmm=Kmm, sample_weight=w), [('transform', dict(Knm=Knm)), ('fit_transform', dict(Knm=Knm, Kmm=Kmm, sample_weight=w))]
    E['SparseKernelCenterer'] = skc
    def ridge(rng, size):
        n, m = (12, 4) if size == 0 else (10, 3)
        X, Y = _data(rng, n, m)
        al = np.array([1e-3, 1e-1, 0.5])
        return Ridge2FoldCV(alphas=al, alpha_type='relative' if size else 'absolute', random_state=0), dict(X=X, y=Y), [('predict', dict(X=X))]
    E['Ridge2FoldCV'] = ridge
    def orth(rng, size):
        n, m = (10, 4) if size == 0 else (8, 3)
        X, Y = _data(rng, n, m)
        return OrthogonalRegression(use_orthogonal_projector=bool(size)), dict(X=X, y=Y), [('predict', dict(X=X))]
    E['OrthogonalRegression'] = orth
    def skde(rng, size):
        n, g = (30, 4) if size == 0 else (24, 3)
        D = rng.normal(size=(n, 2)); w = rng.uniform(0.5, 2, n); grid = D[:g].copy()
        return ('ctor', SparseKDE, dict(descriptors=D, weights=w, kernel='gaussian')), dict(X=grid), [('score_samples', dict(X=grid)), ('score', dict(X=grid))]
    E['SparseKDE'] = skde
    def qs(rng, size):
        n = 8 if size == 0 else 6
        X = rng.normal(size=(n, 2)); w = rng.normal(size=n); cuts = rng.uniform(0.5, 4.0, n)
        return ('ctor', QuickShift, dict(dist_cutoff_sq=cuts, scale=1.5)), dict(X=X, samples_weight=w), []
    E['QuickShift'] = qs
    return E

def functions():
    from skmatter import metrics as M, utils as U
    F = {}
    def rec(fn, local=False):
        def f(rng):
            X, Y = _data(rng, 14, 3)
            kw = dict(X=X, Y=Y)
            if local: kw['n_local_points'] = 6
            return fn, kw
        return f
    for nm in ('pointwise_global_reconstruction_error', 'global_reconstruction_error', 'pointwise_global_reconstruction_distortion', 'global_reconstruction_distortion'):
        F[nm] = rec(getattr(M, nm))
    for nm in ('pointwise_local_reconstruction_error', 'local_reconstruction_error'):
        F[nm] = rec(getattr(M, nm), True)
    def lpr(rng):
        Xs = [rng.normal(size=(3, 4)) for _ in range(3)]
        return M.local_prediction_rigidity, dict(X_train=Xs, X_test=Xs, alpha=0.1)
    F['local_prediction_rigidity'] = lpr
    def cpr(rng):
        Xs = [rng.normal(size=(3, 4)) for _ in range(3)]
        return M.componentwise_prediction_rigidity, dict(X_train=Xs, X_test=Xs, alpha=0.1, comp_dims=np.array([2, 2]))
    F['componentwise_prediction_rigidity'] = cpr
    def pdist(rng):
        X = rng.normal(size=(5, 2)); Y = rng.normal(size=(4, 2))
        return M.periodic_pairwise_euclidean_distances, dict(X=X, Y=Y, cell_length=np.array([2.0, 3.0]))
    F['periodic_pairwise_euclidean_distances'] = pdist
    def maha(rng):
        X = rng.normal(size=(5, 2)); Y = rng.normal(size=(4, 2)); A = rng.normal(size=(2, 2, 2)); P = A @ A.transpose(0, 2, 1) + np.eye(2)
        return M.pairwise_mahalanobis_distances, dict(X=X, Y=Y, cov_inv=P, cell_length=np.array([2.0, 3.0]))
    F['pairwise_mahalanobis_distances'] = maha
    def xo(rng):
        X = rng.normal(size=(6, 4)); return U.X_orthogonalizer, dict(x1=X, c=1, copy=True)
    F['X_orthogonalizer[copy=True]'] = xo
    def yfo(rng):
        X = rng.normal(size=(6, 2)); y = rng.normal(size=(6, 1)); return U.Y_feature_orthogonalizer, dict(y=y, X=X, copy=True)
    F['Y_feature_orthogonalizer[copy=True]'] = yfo
    def yso(rng):
        X = rng.normal(size=(6, 3)); y = rng.normal(size=(6, 1)); return U.Y_sample_orthogonalizer, dict(y=y, X=X, y_ref=y[:3], X_ref=X[:3], copy=True)
    F['Y_sample_orthogonalizer[copy=True]'] = yso
    def pk(rng):
        X, Y = _data(rng, 6, 3); return U.pcovr_kernel, dict(mixing=0.4, X=X, Y=Y)
    F['pcovr_kernel'] = pk
    def pc(rng):
        X, Y = _data(rng, 6, 3); return U.pcovr_covariance, dict(mixing=0.4, X=X, Y=Y)
    F['pcovr_covariance'] = pc
    return F

LAYOUTS = ['C', 'F', 'readonly', 'view']

def relayout(a, layout):
    if not isinstance(a, np.ndarray): return a
    if layout == 'C': return np.ascontiguousarray(a).copy()
    if layout == 'F': return np.asfortranarray(a).copy()
    if layout == 'readonly':
        b = a.copy(); b.setflags(write=False); return b
    if layout == 'view':
        big = np.zeros(tuple(2 * s for s in a.shape), dtype=a.dtype)
        sl = tuple(slice(None, None, 2) for _ in a.shape)
        big[sl] = a
        return big[sl]
    return a

def snap(v):
    if isinstance(v, np.ndarray): return (v.shape, v.dtype.str, v.tobytes())
    if isinstance(v, (list, tuple)): return tuple(snap(x) for x in v)
    if hasattr(v, 'get_params') and hasattr(v, '__dict__'):
        # an estimator object handed in as a hyper-parameter: its own attributes (a fit would add learned ones) are part of its value
        return (repr(v), tuple(sorted(k for k in vars(v))))
    return repr(v)

def call_pure(fn, kw, sig):
    args = {k: v for k, v in kw.items()}
    before = {k: snap(v) for k, v in args.items()}
    try:
        with warnings.catch_warnings():
            warnings.simplefilter('ignore')
            r = fn(**args)
    except ValueError as e:
        if 'read-only' in str(e) or 'readonly' in str(e):
            raise Violation(sig + ':writes-into-read-only-argument', str(e)[:200])
        raise
    for k in args:
        expect(snap(args[k]) == before[k], sig + f':argument-{k}-is-never-written-in-place', 'bytes of the caller array changed')
    return r

def cases(rng, tier, focus):
    seeds = range(2 if tier == 'quick' else 8)
    for s in seeds:
        for name in entries():
            for lay in LAYOUTS:
                yield dict(kind='estimator', name=name, layout=lay, seed=int(rng.integers(0, 10 ** 6)))
            for hist in ('A-then-B', 'larger-then-smaller', 'with-y-then-without-y'):
                yield dict(kind='refit', name=name, hist=hist, seed=int(rng.integers(0, 10 ** 6)))
        for name in functions():
            for lay in LAYOUTS:
                yield dict(kind='function', name=name, layout=lay, seed=int(rng.integers(0, 10 ** 6)))

def nontrivial(c): return (c['kind'], c['name'], c.get('layout'), c.get('hist'), c['seed'] % 2)

def build(entry, rng, size, layout='C'):
    est, fa, extra = entry(rng, size)
    fa = {k: relayout(v, layout) for k, v in fa.items()}
    extra = [(m, {k: relayout(v, layout) for k, v in a.items()}) for m, a in extra]
    ctor_args = None
    if isinstance(est, tuple):
        _, cls, ckw = est
        ckw = {k: relayout(v, layout) for k, v in ckw.items()}
        ctor_args = (cls, ckw)
    return est, fa, extra, ctor_args

def public_state(est):
    out = {}
    for k, v in vars(est).items():
        if k.endswith('_') and not k.startswith('__'):
            out[k] = v
    return out

def same(a, b):
    if isinstance(a, np.ndarray) or isinstance(b, np.ndarray):
        a, b = np.asarray(a), np.asarray(b)
        if a.shape != b.shape: return False
        if a.dtype.kind in 'fc': return bool(np.allclose(a, b, rtol=1e-8, atol=1e-10, equal_nan=True))
        return bool(np.array_equal(a, b))
    if isinstance(a, float) and isinstance(b, float): return bool(np.isclose(a, b, rtol=1e-8, atol=1e-10, equal_nan=True))
    if isinstance(a, (list, tuple)) and isinstance(b, (list, tuple)): return len(a) == len(b) and all(same(x, y) for x, y in zip(a, b))
    if callable(a) or hasattr(a, '__dict__'): return True        # nested estimators / callables: compared through the arrays they produced
    return a == b

def check(c):
    rng = np.random.default_rng(c['seed'])
    if c['kind'] == 'function':
        fn, kw = functions()[c['name']](rng)
        kw = {k: ([relayout(x, c['layout']) for x in v] if isinstance(v, list) else relayout(v, c['layout'])) for k, v in kw.items()}
        try: call_pure(fn, kw, f"{c['name']}/frame")
        except Violation: raise
        except Exception: return []
        return []
    entry = entries()[c['name']]
    if c['kind'] == 'estimator':
        est, fa, extra, ctor = build(entry, rng, 0, c['layout'])
        sig = f"{c['name']}"
        try:
            if ctor:
                est = call_pure(ctor[0], ctor[1], sig + '.__init__/frame')
            params0 = {k: snap(v) for k, v in est.get_params(deep=False).items()} if hasattr(est, 'get_params') else None
            r = call_pure(est.fit, fa, sig + '.fit/frame')
            expect(r is est, sig + '.fit/frame/every-normal-path-returns-self')
            if params0 is not None:
                p1 = {k: snap(v) for k, v in est.get_params(deep=False).items()}
                expect(p1 == params0, sig + '.fit/frame/no-constructor-parameter-is-assigned', str([k for k in p1 if p1[k] != params0[k]]))
            for m, a in extra:
                if m == 'fit_transform':
                    est2 = copy.deepcopy(est)
                    r1 = call_pure(est2.fit_transform, a, sig + '.fit_transform/frame')
                    tkw = {k: v for k, v in a.items() if k in inspect.signature(est2.transform).parameters}
                    r2 = est2.transform(**tkw)
                    expect(same(r1, r2), sig + '.fit_transform/frame/is-fit-followed-by-transform')
                    continue
                r1 = call_pure(getattr(est, m), a, sig + f'.{m}/frame')
                r2 = getattr(est, m)(**a)
                expect(same(r1, r2), sig + f'.{m}/determinism/repeating-the-call-gives-the-same-result')
        except Violation: raise
        except Exception as e:
            return []
        return []
    # refit histories
    hist = c['hist']
    estA, faA, _, ctorA = build(entry, rng, 0)
    estB, faB, exB, ctorB = build(entry, rng, 1 if hist != 'with-y-then-without-y' else 0)
    sig = f"{c['name']}.fit/refit[{hist}]"
    if hist == 'with-y-then-without-y':
        if 'y' not in faA or c['name'].split('.')[-1] in ('PCovFPS', 'PCovCUR') or 'Ridge' in c['name'] or 'Orth' in c['name'] or 'Directional' in c['name'] or 'PCovR' in c['name']: return []
        faB = {k: v for k, v in faB.items() if k != 'y'}
    try:
        with warnings.catch_warnings():
            warnings.simplefilter('ignore')
            if ctorA:
                # constructor-bound data (SparseKDE, QuickShift): refit the same object on another grid / data set
                est = ctorA[0](**ctorA[1]); fresh = ctorA[0](**ctorA[1])
                est.fit(**faA)
                if hist == 'larger-then-smaller' and c['name'] == 'QuickShift': return []
                faB2 = dict(faA);
                if c['name'] == 'SparseKDE':
                    faB2['X'] = faA['X'][:-1] + 0.05
                    if hasattr(est, 'score_samples'): est.score_samples(faA['X'])
                else: return []
                est.fit(**faB2); fresh.fit(**faB2)
                exB = [('score_samples', dict(X=faB2['X']))]
            else:
                fresh = copy.deepcopy(estA)      # same hyper-parameters, never fitted
                est = estA; est.fit(**faA)
                try: fresh.fit(**faB)
                except Exception: return []
                try: est.fit(**faB)
                except Exception as e:
                    raise Violation(sig + ':refit-raises-where-a-fresh-estimator-fits', repr(e)[:200])
        s1, s2 = public_state(est), public_state(fresh)
        for k in sorted(set(s1) | set(s2)):
            if 'VoronoiFPS' in c['name'] and k in ('new_dist_',): continue      # scratch buffer of the last update: its content depends on the (timing-calibrated) branch; recorded finding
            expect(k in s1 and k in s2, sig + f':learned-attribute-{k}-present-exactly-as-in-a-fresh-fit', f"refitted has it: {k in s1}, fresh has it: {k in s2}")
            expect(same(s1[k], s2[k]), sig + f':learned-attribute-{k}-equals-the-fresh-fit')
        for m, a in exB:
            if m == 'fit_transform': continue
            with warnings.catch_warnings():
                warnings.simplefilter('ignore')
                expect(same(getattr(est, m)(**a), getattr(fresh, m)(**a)), sig + f':{m}-equals-the-fresh-fit')
    except Violation: raise
    except Exception:
        return []
    return []
