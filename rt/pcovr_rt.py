"""Runtime contracts for PCovR (C03, C04, C14): concrete form of contracts/pcovr.py + the clauses that are bounded only."""
import warnings
import numpy as np
from .common import expect

def data(rng, n, m, p, noise=0.2):
    X = rng.normal(size=(n, m)) * rng.uniform(0.5, 2.0, m); X -= X.mean(0)
    Y = X @ rng.normal(size=(m, p)) + noise * rng.normal(size=(n, p)); Y -= Y.mean(0)
    return X, Y

def fit(**kw):
    from skmatter.decomposition import PCovR
    return PCovR(**kw)

def quiet(f, *a, **k):
    with warnings.catch_warnings():
        warnings.simplefilter('ignore'); return f(*a, **k)

def sign_align(A, B):
    """flip the columns of B to match A"""
    s = np.sign(np.sum(A * B, axis=0)); s[s == 0] = 1
    return B * s

def separated(ev, rel=1e-3):
    ev = np.asarray(ev, float)
    return len(ev) < 2 or np.min(np.abs(np.diff(ev))) > rel * max(1.0, ev[0])

def check_consistency(c):
    """C14"""
    rng = np.random.default_rng(c['seed']); n, m, p, k = c['n'], c['m'], c['p'], c['k']
    X, Y = data(rng, n, m, p)
    y = Y[:, 0] if c.get('y1d') else Y
    est = quiet(fit(mixing=c['mixing'], n_components=k, space=c['space'], svd_solver='full', tol=1e-12).fit, X, y)
    sig = lambda s: f"{s}[{c['space']}]"
    T = quiet(est.transform, X)
    expect(np.allclose(T, X @ est.pxt_, atol=1e-8), sig('post[C14]:transform-is-X-times-the-X-to-latent-projector'))
    expect(np.allclose(quiet(est.predict, X), quiet(est.predict, T=T), atol=1e-7), sig('post[C14]:predict-from-X-and-from-its-projection-agree'))
    expect(np.allclose(est.ptx_ @ est.pxt_, np.eye(k), atol=1e-6), sig('post[C14]:latent-to-X-after-X-to-latent-is-the-identity-on-the-latent-space'), f"max dev {np.max(np.abs(est.ptx_ @ est.pxt_ - np.eye(k)))}")
    expect(np.allclose(quiet(est.transform, quiet(est.inverse_transform, T)), T, atol=1e-6 * max(1, np.abs(T).max())), sig('post[C14]:transform-after-inverse-transform-is-the-identity'))
    G = T.T @ T
    ev = est.singular_values_ ** 2
    expect(np.allclose(G, np.diag(ev), atol=1e-6 * max(1.0, ev[0])), sig('post[C14]:training-projections-are-orthogonal-with-squared-norms-the-retained-eigenvalues'), f"{np.max(np.abs(G - np.diag(ev)))}")
    expect(np.all(np.diff(ev) <= 1e-9 * max(1.0, ev[0])), sig('post[C03]:retained-spectrum-is-non-increasing'))
    if c.get('y1d'):
        expect(est.pxy_.shape == (m,) and est.pty_.shape == (k,) and quiet(est.predict, X).shape == (n,) and quiet(est.predict, T=T).shape == (n,), sig('post[C14]:one-dimensional-targets-give-one-dimensional-coefficient-vectors'),
               f"pxy {est.pxy_.shape} pty {est.pty_.shape}")
    sc = quiet(est.score, X, y)
    Yp = quiet(est.predict, T=T); Xr = quiet(est.inverse_transform, T)
    exp = -(np.linalg.norm(X - Xr) ** 2 / np.linalg.norm(X) ** 2 + np.linalg.norm(y - Yp) ** 2 / np.linalg.norm(y) ** 2)
    expect(abs(sc - exp) <= 1e-9 * max(1, abs(exp)), sig('post[C14]:score-is-minus-the-sum-of-the-two-relative-reconstruction-losses'))
    # nestedness and monotone losses in k (full solver)
    if k >= 2 and separated(ev):
        e2 = quiet(fit(mixing=c['mixing'], n_components=k - 1, space=c['space'], svd_solver='full', tol=1e-12).fit, X, y)
        expect(np.allclose(sign_align(est.pxt_[:, :k - 1], e2.pxt_), est.pxt_[:, :k - 1], atol=1e-6 * max(1, np.abs(est.pxt_).max())), sig('post[C14]:fewer-components-are-a-prefix-of-more-components'))
        l = lambda e: (np.linalg.norm(X - quiet(e.inverse_transform, quiet(e.transform, X))) ** 2, np.linalg.norm(y - quiet(e.predict, X)) ** 2)
        l1, l2 = l(e2), l(est)
        expect(l2[0] <= l1[0] * (1 + 1e-9) + 1e-12 and l2[1] <= l1[1] * (1 + 1e-9) + 1e-12, sig('post[C14]:training-losses-never-increase-with-more-components'), f"{l1} -> {l2}")

def check_routes(c):
    """C03: both spaces and all solvers give the same latent space up to the sign of each component (separated spectra)"""
    rng = np.random.default_rng(c['seed']); n, m, p, k = c['n'], c['m'], c['p'], c['k']
    X, Y = data(rng, n, m, p)
    from sklearn.linear_model import Ridge
    ra = [1e-6, 3.0, 25.0][c['seed'] % 3]            # every admissible regressor: also strongly regularised ones (Yhat differs visibly from the projection of Y)
    mkreg = lambda: Ridge(alpha=ra, fit_intercept=False, tol=1e-12)
    ref = quiet(fit(mixing=c['mixing'], n_components=k, space='sample', svd_solver='full', tol=1e-12, regressor=mkreg()).fit, X, Y)
    ev = ref.singular_values_ ** 2
    if not separated(ev, 1e-2) or ev[-1] < 1e-6 * ev[0]: return
    Tref = quiet(ref.transform, X)
    for space in ('feature', 'sample'):
        for solver in ('full', 'arpack', 'randomized'):
            if solver == 'arpack' and k >= min(n, m): continue
            e = quiet(fit(mixing=c['mixing'], n_components=k, space=space, svd_solver=solver, tol=1e-12, random_state=0, regressor=mkreg()).fit, X, Y)
            T = sign_align(Tref, quiet(e.transform, X))
            tolr = 1e-5 if solver == 'full' else 1e-3
            expect(np.allclose(T, Tref, atol=tolr * max(1.0, np.abs(Tref).max())), f'post[C03]:latent-projections-agree-with-the-sample-space-full-solver-up-to-sign[{space},{solver}]', f"max dev {np.max(np.abs(T - Tref))}")
            if solver == 'full':
                expect(np.allclose(quiet(e.predict, X), quiet(ref.predict, X), atol=1e-5 * max(1, np.abs(Y).max())), f'post[C03]:predictions-agree-between-routes[{space}]')
                expect(np.allclose(quiet(e.inverse_transform, quiet(e.transform, X)), quiet(ref.inverse_transform, Tref), atol=1e-5 * max(1, np.abs(X).max())), f'post[C03]:reconstructions-agree-between-routes[{space}]')
    # documented projectors (sample space), regressor without intercept
    reg = mkreg().fit(X, Y)
    W = reg.coef_.T.reshape(m, -1); Yh = X @ W
    a = c['mixing']
    Kt = a * X @ X.T + (1 - a) * Yh @ Yh.T
    w, V = np.linalg.eigh(Kt); o = np.argsort(w)[::-1][:k]; w, V = w[o], V[:, o]
    expect(np.allclose(ev, w, rtol=1e-6, atol=1e-9 * max(1, w[0])), 'post[C03]:decomposed-matrix-is-the-modified-gram-matrix-alpha-XXt-plus-(1-alpha)-YhatYhatt', f"{ev} vs {w}")
    P = a * X.T + (1 - a) * W @ Yh.T
    pxt = P @ V / np.sqrt(w)
    expect(np.allclose(sign_align(ref.pxt_, pxt), ref.pxt_, atol=1e-5 * max(1, np.abs(pxt).max())), 'post[C03]:projector-X-to-latent-is-(alpha-Xt+(1-alpha)-W-Yhatt)-V-S^-1/2')

def check_mixing(c):
    """C04"""
    rng = np.random.default_rng(c['seed']); n, m, p, k = c['n'], c['m'], c['p'], c['k']
    X, Y = data(rng, n, m, p)
    from sklearn.decomposition import PCA
    from sklearn.linear_model import Ridge
    for space in ('feature', 'sample'):
        e1 = quiet(fit(mixing=1.0, n_components=k, space=space, svd_solver='full', tol=1e-12).fit, X, Y)
        pca = PCA(n_components=k).fit(X)
        Tp = pca.transform(X)
        if separated(pca.singular_values_ ** 2, 1e-2):
            T1 = sign_align(Tp, quiet(e1.transform, X))
            expect(np.allclose(T1, Tp, atol=1e-6 * max(1, np.abs(Tp).max())), f'post[C04]:mixing-one-reproduces-PCA-projections[{space}]')
            expect(np.allclose(quiet(e1.inverse_transform, quiet(e1.transform, X)), pca.inverse_transform(Tp) , atol=1e-6 * max(1, np.abs(X).max())), f'post[C04]:mixing-one-reproduces-PCA-reconstructions[{space}]')
        kk = min(n, m) if space == 'feature' else min(n, m)
        if p <= k:
            e0 = quiet(fit(mixing=0.0, n_components=k, space=space, svd_solver='full', tol=1e-12).fit, X, Y)
            reg = Ridge(alpha=1e-6, fit_intercept=False, tol=1e-12).fit(X, Y)
            expect(np.allclose(quiet(e0.predict, X), reg.predict(X).reshape(n, -1), atol=1e-5 * max(1, np.abs(Y).max())), f'post[C04]:mixing-zero-reproduces-the-linear-regression-predictions[{space}]',
                   f"max dev {np.max(np.abs(quiet(e0.predict, X) - reg.predict(X).reshape(n, -1)))}")
    # optimality against competitor subspaces and monotonicity in the mixing
    ra = [1e-6, 25.0][c['seed'] % 2]
    reg = Ridge(alpha=ra, fit_intercept=False, tol=1e-12).fit(X, Y); Yh = reg.predict(X).reshape(n, -1)
    ospace = ['sample', 'feature'][(c['seed'] // 2) % 2]
    def losses(Q):
        Pq = Q @ Q.T
        return np.linalg.norm(X - Pq @ X) ** 2, np.linalg.norm(Yh - Pq @ Yh) ** 2
    prev = None
    for a in (0.05, 0.3, 0.6, 0.95):
        e = quiet(fit(mixing=a, n_components=k, space=ospace, svd_solver='full', tol=1e-12, regressor=Ridge(alpha=ra, fit_intercept=False, tol=1e-12)).fit, X, Y)
        T = quiet(e.transform, X); Q, _ = np.linalg.qr(T)
        lx, ly = losses(Q); obj = a * lx + (1 - a) * ly
        for t in range(6):
            comp = [rng.normal(size=(n, k)), T + 0.1 * rng.normal(size=T.shape), PCA(n_components=k).fit_transform(X), Yh[:, :k] if Yh.shape[1] >= k else rng.normal(size=(n, k))][t % 4]
            Qc, _ = np.linalg.qr(comp)
            cx, cy = losses(Qc)
            expect(obj <= a * cx + (1 - a) * cy + 1e-8 * max(1.0, obj), 'post[C04]:retained-subspace-minimises-the-mixed-loss-against-competitor-subspaces', f"mixing {a}: {obj} vs competitor {a * cx + (1 - a) * cy}")
        if prev is not None:
            expect(lx <= prev[0] * (1 + 1e-7) + 1e-10 and ly >= prev[1] * (1 - 1e-7) - 1e-10, 'post[C04]:X-loss-never-increases-and-Y-loss-never-decreases-as-mixing-grows', f"{prev} -> {(lx, ly)} at mixing {a}")
        prev = (lx, ly)

def check_contracts(c):
    """conformance of the assumed modular contracts with the real functions"""
    rng = np.random.default_rng(c['seed']); n, m, p, k = c['n'], c['m'], c['p'], c['k']
    X, Y = data(rng, n, m, p)
    from skmatter.utils import pcovr_covariance, pcovr_kernel
    a = c['mixing']
    Ct, iC = pcovr_covariance(a, X, Y, rcond=1e-12, return_isqrt=True)
    C = X.T @ X
    Pj = np.linalg.pinv(iC) @ iC
    sc = max(1.0, np.abs(C).max())
    expect(np.allclose(iC, iC.T, atol=1e-9) and np.allclose(Pj @ C, C, atol=1e-7 * sc) and np.allclose(Pj @ iC, iC, atol=1e-7 * max(1, np.abs(iC).max())), 'contract:pcovr_covariance:C^-1/2-symmetric-and-projector-on-range')
    G = iC @ X.T @ Y
    expect(np.allclose(Ct, a * C + (1 - a) * G @ G.T, atol=1e-7 * sc), 'contract:pcovr_covariance:C~-formula')
    expect(np.allclose(pcovr_kernel(a, X, Y), a * X @ X.T + (1 - a) * Y @ Y.T, atol=1e-9 * sc), 'contract:pcovr_kernel:K~-formula')
    e = fit(mixing=a, n_components=k, svd_solver='full'); e.n_components_ = k; e.n_samples_in_, e.n_features_in_ = n, m
    K = pcovr_kernel(a, X, Y)
    U, S, Vt = e._decompose_full(K)
    expect(np.allclose(Vt @ Vt.T, np.eye(k), atol=1e-8) and np.allclose(K @ Vt.T, Vt.T * S, atol=1e-7 * max(1, S[0])) and np.allclose(U, Vt.T, atol=1e-7) and np.all(np.diff(S) <= 1e-12 * max(1, S[0])) and np.all(S >= -1e-10),
           'contract:_decompose_full:leading-k-spectral-decomposition-of-a-symmetric-PSD-matrix')
