"""C18 runtime contracts: OrthogonalRegression (both modes), n_features <,=,> n_targets, competitors, exact recovery, external contracts."""
import numpy as np, warnings
from .common import expect

RULE = "shapes with n_features <,=,> n_targets x modes x default/user linear estimator (incl. refits of a reused estimator) x competitor orthogonal matrices; distinct = (mode, n_features, n_targets, estimator kind, seed)"

def cases(rng, tier, focus):
    reps = 30 if tier == 'quick' else 300
    for rep in range(reps):
        for (m, p) in ((2, 4), (4, 4), (5, 2), (3, 1), (1, 3)):
            for mode in (True, False):
                yield dict(m=m, p=p, proj=mode, user=bool(rep % 3 == 0), seed=int(rng.integers(0, 10 ** 6)))

def nontrivial(c): return (c['m'], c['p'], c['proj'], c['user'], c['seed'] % 11)

def rand_orth(rng, d):
    Q, _ = np.linalg.qr(rng.normal(size=(d, d))); return Q

def check(c):
    from skmatter.linear_model import OrthogonalRegression
    from sklearn.linear_model import LinearRegression, Ridge
    from scipy.linalg import orthogonal_procrustes
    rng = np.random.default_rng(c['seed']); m, p, n = c['m'], c['p'], 12
    X = rng.normal(size=(n, m)); Y = rng.normal(size=(n, p))
    sig = lambda s: f"{s}[{'projector' if c['proj'] else 'padded'}]"
    # conformance of the external contract
    A = rng.normal(size=(n, 3)); B = rng.normal(size=(n, 3)); R = orthogonal_procrustes(A, B)[0]
    expect(np.allclose(R.T @ R, np.eye(3), atol=1e-9) and all(np.linalg.norm(A @ R - B) <= np.linalg.norm(A @ rand_orth(rng, 3) - B) + 1e-9 for _ in range(5)), 'contract:orthogonal_procrustes')
    ua = [1e-8, 40.0][c['seed'] % 2]          # user-supplied estimators: also strongly regularised ones (their prediction differs visibly from the targets)
    est_lin = Ridge(alpha=ua, fit_intercept=False) if c['user'] else None
    if c['user'] and c['proj']:
        # a reused user-supplied estimator: first fit on other data (C18 quantifier: user-supplied linear estimators)
        OrthogonalRegression(use_orthogonal_projector=True, linear_estimator=est_lin).fit(rng.normal(size=(n, m)), rng.normal(size=(n, p)))
    est = OrthogonalRegression(use_orthogonal_projector=c['proj'], linear_estimator=est_lin).fit(X, Y)
    Om = est.coef_.T
    if not c['proj']:
        w = max(m, p)
        expect(Om.shape == (w, w) and np.allclose(Om.T @ Om, np.eye(w), atol=1e-8) and np.allclose(Om @ Om.T, np.eye(w), atol=1e-8), sig('post[C18]:weight-matrix-is-orthogonal'), f"shape {Om.shape}")
        Xp = np.pad(X, [(0, 0), (0, w - m)]); Yp = np.pad(Y, [(0, 0), (0, w - p)])
        res = np.linalg.norm(Xp @ Om - Yp)
        for t in range(7):
            Q = orthogonal_procrustes(Xp, Yp)[0] if t == 6 else (rand_orth(rng, w) if t % 2 else Om @ rand_orth_small(rng, w))
            expect(res <= np.linalg.norm(Xp @ Q - Yp) + 1e-8 * max(1.0, res), sig('post[C18]:training-residual-is-minimal-over-all-orthogonal-maps-of-the-padded-size'), f"competitor kind {t}")
        Xn = rng.normal(size=(5, m)); P = est.predict(Xn)
        expect(np.allclose(np.linalg.norm(P, axis=1), np.linalg.norm(Xn, axis=1), atol=1e-8), sig('post[C18]:predictions-preserve-the-norm-of-their-inputs'))
        # predict pads new data exactly as fit padded the training data (zeros on the right) and applies the rotation
        expect(np.allclose(P, np.pad(Xn, [(0, 0), (0, w - m)]) @ Om, atol=1e-9), sig('post[C18]:predict-pads-new-data-identically-and-applies-the-rotation'), f"max dev {np.max(np.abs(P - np.pad(Xn, [(0, 0), (0, w - m)]) @ Om))}")
        expect(np.allclose(est.predict(X), Xp @ Om, atol=1e-9), sig('post[C18]:predict-on-the-training-data-is-the-fitted-rotation-of-the-padded-training-data'))
    else:
        lin = (Ridge(alpha=ua, fit_intercept=False) if c['user'] else LinearRegression()).fit(X, Y)
        W = lin.coef_.T.reshape(m, -1)
        U, s, Vt = np.linalg.svd(W, full_matrices=False)
        rk = int(np.sum(s > 1e-10 * max(1.0, s[0])))
        if rk == len(s):
            expect(np.allclose(Om.T @ Om, Vt.T @ Vt, atol=1e-7) and np.allclose(Om @ Om.T, U @ U.T, atol=1e-7), sig('post[C18]:weights-are-a-partial-isometry'), f"max dev {np.max(np.abs(Om.T @ Om - Vt.T @ Vt))}")
            Rr = U.T @ Om @ Vt.T
            res = np.linalg.norm(X @ U @ Rr - Y @ Vt.T)
            for t in range(7):
                # competitors: random rotations, small perturbations of the fitted one, and the Procrustes solution between the reduced features and the reduced TARGETS
                Q = orthogonal_procrustes(X @ U, Y @ Vt.T)[0] if t == 6 else (rand_orth(rng, len(s)) if t % 2 else Rr @ rand_orth_small(rng, len(s)))
                expect(res <= np.linalg.norm(X @ U @ Q - Y @ Vt.T) + 1e-8 * max(1.0, res), sig('post[C18]:training-residual-in-the-reduced-spaces-is-minimal-over-all-rotations-between-them'),
                       f"residual {res} vs competitor {np.linalg.norm(X @ U @ Q - Y @ Vt.T)} (competitor kind {t})")
        Xn = rng.normal(size=(5, m)); P = est.predict(Xn)
        expect(np.all(np.linalg.norm(P, axis=1) <= np.linalg.norm(Xn, axis=1) * (1 + 1e-9) + 1e-12), sig('post[C18]:predictions-never-have-a-larger-norm-than-their-inputs'))
        expect(np.allclose(P, Xn @ Om, atol=1e-10), sig('post[C18]:predict-is-X-times-the-weights'))
    if p == 1:
        # a single target given as a one-dimensional array is the same problem as the (n, 1) column
        e1 = OrthogonalRegression(use_orthogonal_projector=c['proj'], linear_estimator=(Ridge(alpha=ua, fit_intercept=False) if c['user'] else None)).fit(X, Y[:, 0])
        expect(np.asarray(e1.coef_).shape == np.asarray(est.coef_).shape and np.allclose(e1.coef_, est.coef_, atol=1e-9), sig('post[C18]:one-dimensional-targets-give-the-map-of-the-single-column'), f"{np.asarray(e1.coef_).shape} vs {np.asarray(est.coef_).shape}")
    # exact recovery of a rotation (full-rank X)
    d = max(m, p) if not c['proj'] else m
    if (not c['proj']) or m == p:
        Q = rand_orth(rng, d)
        Xf = rng.normal(size=(n, d))
        e2 = OrthogonalRegression(use_orthogonal_projector=c['proj'], linear_estimator=(Ridge(alpha=1e-12, fit_intercept=False) if c['user'] else None)).fit(Xf, Xf @ Q)
        expect(np.allclose(e2.predict(Xf), Xf @ Q, atol=1e-6), sig('post[C18]:an-exact-rotation-is-recovered-and-the-training-residual-vanishes'), f"residual {np.linalg.norm(e2.predict(Xf) - Xf @ Q)}")
    return []

def rand_orth_small(rng, d):
    A = rng.normal(size=(d, d)) * 0.05; A = A - A.T
    Q, _ = np.linalg.qr(np.eye(d) + A); return Q
