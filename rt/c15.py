"""C15 runtime contracts: periodic / Mahalanobis distances against brute-force minimum-image references and the metric laws."""
import numpy as np
from .common import expect

RULE = "point sets 1..6-D with coordinates far outside the cell (both signs) x anisotropic cells x integer image shifts x half-cell separations x SPD precision stacks (diagonal first, full later); distinct = (dim, cell anisotropy class, sizes, seed class)"

def cases(rng, tier, focus):
    reps = 300 if tier == "quick" else 3000
    for rep in range(reps):
        d = int(rng.integers(1, 7))
        yield dict(d=d, nx=int(rng.integers(1, 7)), ny=int(rng.integers(1, 7)), aniso=bool(rep % 2), half=bool(rep % 5 == 0), seed=int(rng.integers(0, 10 ** 6)))

def nontrivial(c): return (c['d'], c['nx'], c['ny'], c['aniso'], c['half'], c['seed'] % 3)

def wrap(v, cell): return v - np.round(v / cell) * cell

def check(c):
    from skmatter.metrics import periodic_pairwise_euclidean_distances as ppd, pairwise_mahalanobis_distances as pmd
    from sklearn.metrics.pairwise import euclidean_distances
    rng = np.random.default_rng(c['seed']); d = c['d']
    cell = rng.uniform(0.5, 3.0, d) * (np.logspace(-1, 1, d) if c['aniso'] else 1.0)
    X = rng.uniform(-5, 5, size=(c['nx'], d)) * cell; Y = rng.uniform(-5, 5, size=(c['ny'], d)) * cell
    if c['half']: Y[0] = X[0] + 0.5 * cell * rng.choice([-1, 1], d)
    D = ppd(X, Y, cell_length=cell)
    ref = np.sqrt(np.array([[np.sum(wrap(x - y, cell) ** 2) for y in Y] for x in X]))
    tol = 1e-9 * max(1.0, np.abs(cell).max() * 10)
    expect(D.shape == (c['nx'], c['ny']) and np.allclose(D, ref, atol=tol), 'post[C15]:distance-is-the-norm-of-the-minimum-image-difference', f"max dev {np.max(np.abs(D - ref)) if D.shape == ref.shape else D.shape}")
    expect(np.all(D >= 0), 'post[C15]:non-negative')
    expect(np.allclose(D, ppd(Y, X, cell_length=cell).T, atol=tol), 'post[C15]:symmetric')
    shift = rng.integers(-3, 4, size=X.shape) * cell; shifty = rng.integers(-3, 4, size=Y.shape) * cell
    # exclude exact half-cell ties when testing image invariance (the sign of the image may flip; the distance must not)
    expect(np.allclose(ppd(X + shift, Y + shifty, cell_length=cell), D, atol=1e-7 * max(1.0, np.abs(cell).max() * 10)), 'post[C15]:unchanged-by-integer-image-shifts', f"max dev {np.max(np.abs(ppd(X + shift, Y + shifty, cell_length=cell) - D))}")
    expect(np.allclose(np.diag(ppd(X, X + rng.integers(-3, 4, size=X.shape) * cell, cell_length=cell)), 0, atol=1e-7 * max(1.0, np.abs(cell).max() * 10)), 'post[C15]:zero-between-a-point-and-its-periodic-images')
    expect(np.all(D <= euclidean_distances(X, Y) + tol), 'post[C15]:never-larger-than-the-free-space-distance')
    expect(np.all(D <= 0.5 * np.linalg.norm(cell) + tol), 'post[C15]:never-larger-than-half-the-cell-diagonal', f"{D.max()} vs {0.5 * np.linalg.norm(cell)}")
    Z = rng.uniform(-5, 5, size=(3, d)) * cell
    dxz, dzy = ppd(X, Z, cell_length=cell), ppd(Z, Y, cell_length=cell)
    expect(np.all(D[:, None, :] <= dxz[:, :, None] + dzy[None, :, :] + tol), 'post[C15]:triangle-inequality')
    expect(np.allclose(ppd(X, Y, cell_length=cell, squared=True), ref ** 2, atol=tol * max(1.0, ref.max())), 'post[C15]:squared=True-returns-the-square')
    expect(np.allclose(ppd(X, Y), euclidean_distances(X, Y)), 'post[C15]:without-a-cell-it-is-the-euclidean-distance')
    try:
        ppd(X, Y, cell_length=np.ones(d + 1)); expect(False, 'reject[C15]:mismatched-cell-dimension-is-rejected')
    except ValueError: pass
    for L in sorted(set([1, max(1, d - 1)]) - {d}):        # shorter cells, incl. a one-entry cell (which numpy would broadcast silently)
        try:
            ppd(X, Y, cell_length=np.ones(L)); expect(False, f'reject[C15]:mismatched-cell-dimension-is-rejected[shorter cell]')
        except ValueError: pass
    # Mahalanobis
    Pn = int(rng.integers(1, 4))
    Ls = [np.eye(d)] + [np.tril(rng.normal(size=(d, d))) + 2 * np.eye(d) for _ in range(Pn - 1)]
    if c['seed'] % 2: Ls = Ls[::-1]
    P = np.array([L @ L.T for L in Ls])
    M = pmd(X, Y, P, cell_length=cell)
    refm = np.array([[[np.sqrt(wrap(x - y, cell) @ Pk @ wrap(x - y, cell)) for y in Y] for x in X] for Pk in P])
    expect(M.shape == refm.shape and np.allclose(M, refm, atol=1e-8 * max(1.0, refm.max())), 'post[C15]:mahalanobis-is-the-quadratic-form-of-the-minimum-image-difference-per-precision', f"max dev {np.max(np.abs(M - refm)) if M.shape == refm.shape else M.shape}")
    for kk, Pk in enumerate(P):
        single = pmd(X, Y, Pk, cell_length=cell)
        expect(np.allclose(single[0], M[kk], atol=1e-9 * max(1.0, refm.max())), 'post[C15]:each-precision-of-a-stack-is-treated-independently')
    Mi = pmd(X, Y, np.eye(d), cell_length=cell)
    expect(np.allclose(Mi[0], D, atol=tol), 'post[C15]:identity-precision-equals-the-periodic-euclidean-distance')
    L = Ls[-1]
    Mw = pmd(X, Y, L @ L.T)      # free space: whitened Euclidean
    expect(np.allclose(Mw[0], euclidean_distances(X @ L, Y @ L), atol=1e-8 * max(1.0, Mw.max())), 'post[C15]:precision-LLt-equals-euclidean-distance-between-L-whitened-points')
    # the same law in other units: data larger by a factor s, precision entries smaller by s^2 (correlated precisions with entries of order 1e-8 .. 1e-14)
    Lc = np.tril(rng.normal(size=(d, d))) + 2 * np.eye(d); sc_ = 10.0 ** int(rng.integers(3, 8))
    Mu = pmd(X * sc_, Y * sc_, (Lc @ Lc.T) / sc_ ** 2)
    refu = euclidean_distances(X @ Lc, Y @ Lc)
    expect(np.allclose(Mu[0], refu, rtol=1e-6, atol=1e-7 * max(1.0, refu.max())), 'post[C15]:precision-LLt-equals-euclidean-distance-between-L-whitened-points', f"data scaled by {sc_}, precision by {sc_ ** -2}: max dev {np.max(np.abs(Mu[0] - refu))}")
    expect(np.allclose(pmd(X, Y, P, cell_length=cell, squared=True), refm ** 2, atol=1e-7 * max(1.0, (refm ** 2).max())), 'post[C15]:mahalanobis-squared=True-returns-the-square')
    try:
        pmd(X, Y, P, cell_length=np.ones(d + 1)); expect(False, 'reject[C15]:mismatched-cell-dimension-is-rejected[mahalanobis]')
    except ValueError: pass
    for L in sorted(set([1, max(1, d - 1)]) - {d}):
        try:
            pmd(X, Y, P, cell_length=np.ones(L)); expect(False, f'reject[C15]:mismatched-cell-dimension-is-rejected[mahalanobis, shorter cell]')
        except ValueError: pass
    return []
