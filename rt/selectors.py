"""Runtime contracts for the greedy selectors (concrete form of contracts/selectors.py) — bounded evidence + refutation."""
import itertools, warnings
import numpy as np
from .common import expect, Violation

def classes():
    from skmatter import feature_selection as fs, sample_selection as ss
    return {('FPS', 'feature'): fs.FPS, ('FPS', 'sample'): ss.FPS, ('PCovFPS', 'feature'): fs.PCovFPS, ('PCovFPS', 'sample'): ss.PCovFPS,
            ('CUR', 'feature'): fs.CUR, ('CUR', 'sample'): ss.CUR, ('PCovCUR', 'feature'): fs.PCovCUR, ('PCovCUR', 'sample'): ss.PCovCUR,
            ('VoronoiFPS', 'sample'): ss.VoronoiFPS}

FAMS = [('FPS', 'feature'), ('FPS', 'sample'), ('PCovFPS', 'feature'), ('PCovFPS', 'sample'), ('CUR', 'feature'), ('CUR', 'sample'),
        ('PCovCUR', 'feature'), ('PCovCUR', 'sample'), ('VoronoiFPS', 'sample')]

def gen_X(rng, kind, n, m):
    if kind == 'random': return rng.normal(size=(n, m))
    if kind == 'lattice': return rng.integers(-2, 3, size=(n, m)).astype(float)
    if kind == 'dup':
        X = rng.normal(size=(n, m)); X[rng.integers(0, n)] = X[rng.integers(0, n)]; X[:, rng.integers(0, m)] = X[:, rng.integers(0, m)]; return X
    if kind == 'lowrank':
        r = max(1, min(n, m) // 2); return rng.normal(size=(n, r)) @ rng.normal(size=(r, m))
    if kind == 'scaled': return rng.normal(size=(n, m)) * np.logspace(-3, 3, m)
    if kind == 'clustered': return rng.normal(size=(n, m)) * 0.05 + rng.integers(0, 3, size=(n, 1)) * 3.0
    raise ValueError(kind)

KINDS = ['random', 'lattice', 'dup', 'lowrank', 'scaled', 'clustered']

def make(fam, kw):
    return classes()[fam](**kw)

def N_of(fam, X): return X.shape[1] if fam[1] == 'feature' else X.shape[0]

def vectors(fam, X): return X.T if fam[1] == 'feature' else X

def fit(sel, fam, X, y, **kw):
    with warnings.catch_warnings():
        warnings.simplefilter('ignore')
        if fam[0] in ('PCovFPS', 'PCovCUR') or y is not None: return sel.fit(X, y, **kw)
        return sel.fit(X, **kw)

def expected_count(n_to_select, N):
    if n_to_select is None: return N // 2
    if isinstance(n_to_select, (int, np.integer)): return int(n_to_select)
    return int(N * n_to_select)

def check_bookkeeping(sel, fam, X, y, n_to_select, thr, tag, scores_log=None, k0=1):
    """C01 postconditions of fit (the runtime form of post_fit)"""
    N = N_of(fam, X); ax = 1 if fam[1] == 'feature' else 0
    idx = np.asarray(sel.selected_idx_); n = int(sel.n_selected_)
    sig = lambda s: f"{s}[{fam[0]},{fam[1]}]" + tag
    exp = expected_count(n_to_select, N)
    stopped = n < exp
    sfx = '@threshold-stop' if stopped else ''
    if stopped and len(idx) != n:
        # recorded finding: the index list is cut at the loop counter (= n_selected_ - selections present before the loop) instead of n_selected_
        sfx = '@threshold-stop' if len(idx) == n - k0 else '@threshold-stop-unrecorded-shape'
        mask_k = np.zeros(N, bool); mask_k[idx] = True
        if not np.array_equal(sel.support_, mask_k) or sel.X_selected_.shape[ax] != n or not np.array_equal(np.take(sel.X_selected_, np.arange(len(idx)), axis=ax), np.take(X, idx, axis=ax)):
            sfx = '@threshold-stop-unrecorded-shape'
    if thr is None: expect(n == exp, sig('post[C01]:number-selected-is-the-size-implied-by-n_to_select'), f"n_selected_={n} expected {exp}")
    expect(len(idx) == n and sel.X_selected_.shape[ax] == n, sig('post[C01]:reported-length-equals-number-selected' + sfx),
           f"len(selected_idx_)={len(idx)} n_selected_={n} X_selected_.shape={sel.X_selected_.shape}")
    expect(np.all((idx >= 0) & (idx < N)), sig('post[C01]:indices-in-range' + sfx), f"{idx.tolist()}")
    if len(set(idx.tolist())) != len(idx):
        exhausted = scores_log is not None and any(s <= 1e-12 * max(1.0, scores_log[0] if np.isfinite(scores_log[0]) else 1.0) for s in scores_log)
        first_dup = next(t for t in range(len(idx)) if idx[t] in idx[:t].tolist())
        if fam[0] in ('CUR', 'PCovCUR'):
            M_ = X
            if fam[0] == 'PCovCUR' and y is not None:
                try: M_ = pcov_D(('PCovFPS', fam[1]), X, y, getattr(sel, 'mixing', 0.5))      # the scores are leverage scores of the PCovR-modified Gram/covariance matrix
                except Exception: M_ = X
            if first_dup >= np.linalg.matrix_rank(M_, tol=1e-9 * max(1.0, np.abs(M_).max())): exhausted = True    # residual exhausted: singular vectors of a zero matrix are arbitrary
        if fam[0] in ('CUR', 'PCovCUR') and np.min(np.linalg.norm(X, axis=(0 if fam[1] == 'feature' else 1))) < 1e-10: exhausted = True    # slice norm below the absolute tolerance
        expect(False, sig('post[C01]:indices-pairwise-distinct' + ('@scores-exhausted' if exhausted else '@scores-positive') + sfx), f"{idx.tolist()} pick scores {scores_log}")
    take = np.take(X, idx, axis=ax)
    expect(np.array_equal(np.take(sel.X_selected_, np.arange(len(idx)), axis=ax), take), sig('post[C01]:stored-data-equal-input-sliced-at-indices' + sfx))
    if y is not None and ax == 0 and hasattr(sel, 'y_selected_') and len(idx) and len(sel.y_selected_):
        expect(np.array_equal(np.asarray(sel.y_selected_).reshape(len(sel.y_selected_), -1)[:len(idx)], np.asarray(y).reshape(len(y), -1)[idx]), sig('post[C01]:stored-targets-equal-input-sliced-at-indices' + sfx))
    mask = np.zeros(N, bool); mask[idx] = True
    expect(np.array_equal(sel.support_, mask), sig('post[C01]:support-mask-marks-exactly-the-selected-indices' + sfx), f"support {np.flatnonzero(sel.support_).tolist()} idx {sorted(idx.tolist())}")
    expect(list(sel.get_support(indices=True, ordered=True)) == idx.tolist(), sig('post[C01]:ordered-support-is-the-selection-sequence'))
    expect(list(sel.get_support(indices=True)) == sorted(idx.tolist()), sig('post[C01]:index-support-is-the-sorted-list-of-selected-indices'))
    expect(np.array_equal(sel.get_support(), sel.support_), sig('post[C01]:mask-support-marks-exactly-the-selected-indices'))
    if ax == 1:
        Xn = np.random.default_rng(1).normal(size=(3, X.shape[1]))
        expect(np.array_equal(sel.transform(Xn), Xn[:, sel.support_]), sig('post[C01]:transform-returns-exactly-the-masked-columns'))

def instrument_scores(sel):
    """record the score of every greedy pick (wrapper on the instance; evaluations are counted by the caller)"""
    log = []
    real = sel._get_best_new_selection
    def wrapped(scorer, X, y):
        r = real(scorer, X, y)
        if r is not None: log.append(float(np.asarray(scorer(X, y))[r]))
        return r
    sel._get_best_new_selection = wrapped
    return log

def pcov_D(fam, X, y, mixing):
    from skmatter.utils import pcovr_kernel, pcovr_covariance
    Y = np.asarray(y, float).reshape(len(y), -1)
    if fam[1] == 'sample': return mixing * X @ X.T + (1 - mixing) * Y @ Y.T      # documented Gram matrix
    return pcovr_covariance(mixing, X, Y)

def dist_matrix(fam, X, y=None, mixing=None):
    if fam[0] == 'PCovFPS':
        D = pcov_D(fam, X, y, mixing); d = np.diag(D)
        return d[:, None] + d[None, :] - 2 * D
    V = vectors(fam, X)
    return ((V[:, None, :] - V[None, :, :]) ** 2).sum(-1)

def check_fps_oracle(sel, fam, X, y, ninit, mixing=None, tag=''):
    """C02: brute-force O(n^2) oracle with tie-aware acceptance"""
    sig = lambda s: f"{s}[{fam[0]},{fam[1]}]" + tag
    D = dist_matrix(fam, X, y, mixing)
    idx = np.asarray(sel.selected_idx_)[: sel.n_selected_]
    scale = max(1.0, float(np.max(np.abs(D))))
    tol = 1e-9 * scale
    sd = np.asarray(sel.get_select_distance(), float)
    for t in range(len(idx)):
        prev = idx[:t]
        if t == 0:
            if len(set(idx.tolist())) == len(idx): expect(np.isinf(sd[0]), sig('post[C02]:first-selection-reports-infinity'), f"{sd[0]}")
            continue
        mind = D[:, prev].min(axis=1)
        if len(set(idx.tolist())) == len(idx) and t < len(sd):      # a re-selected index (recorded finding, scores exhausted) overwrites its entry
            expect(abs(sd[t] - mind[idx[t]]) <= tol, sig('post[C02]:reported-selection-distances-are-the-true-minimum-distances-to-earlier-selections'), f"t={t} reported {sd[t]} true {mind[idx[t]]}")
        if t >= ninit:
            expect(mind[idx[t]] >= mind.max() - tol, sig('hint[C02]:pick-maximises-the-minimum-distance-to-the-selected-set'), f"t={t} picked {idx[t]} at {mind[idx[t]]}, farthest is {int(np.argmax(mind))} at {mind.max()}")
            if t + 1 < len(sd) and len(set(idx.tolist())) == len(idx):
                expect(sd[t + 1] <= sd[t] + tol, sig('post[C02]:reported-selection-distances-never-increase-after-the-initial-picks'), f"t={t} {sd[t]} -> {sd[t + 1]}")
    table = np.asarray(sel.get_distance(), float)
    expect(np.allclose(table, D[:, idx].min(axis=1), rtol=0, atol=tol), sig('post[C02]:reported-distance-table-is-the-true-minimum-distance-to-the-selected-set'),
           f"max abs dev {np.max(np.abs(table - D[:, idx].min(axis=1)))}")
