"""C07 runtime contracts: CUR / PCov-CUR select by leverage score on the orthogonalised residual (dense SVD/eigh oracle, tie-aware)."""
import numpy as np, warnings
from .common import expect
from . import selectors as S

RULE = "full-rank X (rank above the number of selections) x y x k in {1,2,3} x mixing x recompute_every in {0,1,2,3} x both directions; distinct = (family, direction, k, recompute_every, mixing, shape)"

def cases(rng, tier, focus):
    reps = 6 if tier == 'quick' else 60
    for rep in range(reps):
        for fam in (('CUR', 'feature'), ('CUR', 'sample'), ('PCovCUR', 'feature'), ('PCovCUR', 'sample')):
            for re_ in (0, 1, 2, 3):
                yield dict(fam=fam, re=re_, k=int(rng.integers(1, 4)), mixing=float(rng.choice([0.0, 0.3, 0.7, 1.0])), n=int(rng.integers(8, 13)), m=int(rng.integers(8, 13)), nsel=int(rng.integers(2, 6)), seed=int(rng.integers(0, 10 ** 6)))

def nontrivial(c): return (tuple(c['fam']), c['re'], c['k'], c['mixing'], c['n'], c['m'], c['nsel'])

def residual(X, idx, direction):
    A = X if direction == 'feature' else X.T
    R = A.copy()
    for j in idx:
        col = R[:, [j]]; nrm = np.linalg.norm(col)
        if nrm > 1e-12: col = col / nrm
        R = R - col @ (col.T @ R)
    return R if direction == 'feature' else R.T

def pi_cur(R, k, direction):
    U, s, Vt = np.linalg.svd(R, full_matrices=False)
    if direction == 'feature': return (Vt[:k] ** 2).sum(axis=0), s
    return (U[:, :k] ** 2).sum(axis=1), s

def y_residual(X, y, idx, direction):
    Y = y.reshape(len(y), -1)
    if direction == 'feature':
        Xs = X[:, idx]; return Y - Xs @ np.linalg.pinv(Xs.T @ Xs, rcond=1e-12) @ Xs.T @ Y
    Xs = X[idx]; ys = Y[idx]
    return Y - X @ np.linalg.lstsq(Xs, ys, rcond=1e-12)[0]

def pi_pcov(Rx, Ry, k, mixing, direction):
    from skmatter.utils import pcovr_kernel, pcovr_covariance
    M = pcovr_kernel(mixing, Rx, Ry) if direction == 'sample' else pcovr_covariance(mixing, Rx, Ry, rcond=1e-12, rank=None)
    w, V = np.linalg.eigh(M); o = np.argsort(w)[::-1]
    return (V[:, o[:k]] ** 2).sum(axis=1), w[o]

def check(c):
    fam = tuple(c['fam']); direction = fam[1]
    rng = np.random.default_rng(c['seed']); n, m = c['n'], c['m']
    X = rng.normal(size=(n, m)); y = X @ rng.normal(size=m) + 0.3 * rng.normal(size=n)
    kw = dict(n_to_select=c['nsel'], recompute_every=c['re'], k=c['k'])
    if fam[0] == 'PCovCUR': kw['mixing'] = c['mixing']
    sel = S.make(fam, kw)
    # record the score vector used for every pick (wrapper on the instance)
    picks = []
    real = sel._get_best_new_selection
    def wrapped(scorer, X_, y_):
        r = real(scorer, X_, y_); picks.append((r, np.array(scorer(X_, y_), float).copy())); return r
    sel._get_best_new_selection = wrapped
    try: S.fit(sel, fam, X, y if fam[0] == 'PCovCUR' else None)
    except Exception: return []
    idx = [int(p[0]) for p in picks]
    expect(len(picks) == c['nsel'], 'harness:wrapper-evaluated')
    sig = lambda s: f"{s}[{fam[0]},{direction},re={c['re']}]"
    last_refresh = 0
    for t, (r, scores) in enumerate(picks):
        # most recent refresh: after every recompute_every selections (never for 0)
        if c['re'] != 0: last_refresh = (t // c['re']) * c['re']
        else: last_refresh = 0
        Rx = residual(X, idx[:last_refresh], direction) if c['re'] != 0 else X
        if fam[0] == 'CUR': pi, spec = pi_cur(Rx, c['k'], direction)
        else:
            Ry = y_residual(X, y, idx[:last_refresh], direction) if (c['re'] != 0 and last_refresh > 0) else y.reshape(-1, 1)
            pi, spec = pi_pcov(Rx, Ry, c['k'], c['mixing'], direction)
        gap_ok = len(spec) <= c['k'] or (spec[c['k'] - 1] - spec[c['k']]) > 1e-6 * max(1.0, abs(spec[0]))
        if not gap_ok: break       # leading subspace not unique: tie
        pi = pi.copy(); pi[idx[:t]] = 0.0
        expect(np.allclose(scores, pi, atol=1e-6), sig('post[C07]:scores-are-the-documented-importance-scores-as-of-the-most-recent-refresh'), f"pick {t}: max dev {np.max(np.abs(scores - pi))}")
        expect(r not in idx[:t] and pi[r] >= pi.max() - 1e-7, sig('post[C07]:each-selection-maximises-the-score-among-items-not-yet-selected'), f"pick {t}: chose {r} ({pi[r]}) best {int(np.argmax(pi))} ({pi.max()})")
    if c['re'] != 0:
        Rfin = residual(X, idx, direction)
        Xc = np.asarray(sel.X_current_)
        expect(np.allclose(Xc, Rfin, atol=1e-8), sig('post[C07]:exposed-residual-is-the-input-with-the-selected-span-projected-out'), f"max dev {np.max(np.abs(Xc - Rfin))}")
        Sel = np.take(X, idx, axis=(1 if direction == 'feature' else 0))
        ortho = (Sel.T @ Xc) if direction == 'feature' else (Xc @ Sel.T)
        expect(np.max(np.abs(ortho)) <= 1e-8 * max(1.0, np.abs(X).max() ** 2), sig('post[C07]:exposed-residual-is-orthogonal-to-every-selected-item'), f"{np.max(np.abs(ortho))}")
    if fam[0] == 'CUR':
        other = ('CUR', 'sample' if direction == 'feature' else 'feature')
        s2 = S.make(other, dict(n_to_select=c['nsel'], recompute_every=c['re'], k=c['k'])); S.fit(s2, other, X.T.copy(), None)
        expect(np.asarray(s2.selected_idx_).tolist() == idx, sig('post[C07]:sample-CUR-on-X-equals-feature-CUR-on-X-transpose'), f"{idx} vs {np.asarray(s2.selected_idx_).tolist()}")
    if fam[0] == 'PCovCUR' and c['mixing'] == 1.0:
        s3 = S.make(('CUR', direction), dict(n_to_select=c['nsel'], recompute_every=c['re'], k=c['k'])); S.fit(s3, ('CUR', direction), X, None)
        expect(np.asarray(s3.selected_idx_).tolist() == idx, sig('post[C07]:PCov-CUR-with-mixing-one-equals-CUR'), f"{idx} vs {np.asarray(s3.selected_idx_).tolist()}")
    return []
