from . import pcovr_rt as R
import numpy as np
RULE = "shapes tall/wide/square x mixing in (0,1) x n_components x spaces x solvers x 1-D/2-D targets; distinct = (kind, shape, k, mixing, seed); non-trivial = fit succeeded with separated retained spectrum"
KINDS = {'c03': ['routes', 'contracts'], 'c04': ['mixing', 'contracts'], 'c14': ['consistency', 'contracts']}['c03']
def cases(rng, tier, focus):
    reps = 40 if tier == "quick" else 400
    for rep in range(reps):
        for kind in KINDS:
            n, m = [(12, 4), (5, 9), (7, 7), (20, 3)][rep % 4]
            p = int(rng.integers(1, 4)); k = int(rng.integers(1, min(n, m)))
            for space in ('feature', 'sample'):
                yield dict(kind=kind, n=n, m=m, p=p, k=k, mixing=float(rng.choice([0.1, 0.3, 0.5, 0.8])), space=space, y1d=bool(rep % 3 == 0 and kind == 'consistency'), seed=int(rng.integers(0, 10 ** 6)))
def nontrivial(c): return (c['kind'], c['n'], c['m'], c['k'], c['mixing'], c['space'], c['y1d'], c['seed'] % 7)
def check(c):
    if c.get('y1d'): c = dict(c, p=1)
    {'routes': R.check_routes, 'mixing': R.check_mixing, 'consistency': R.check_consistency, 'contracts': R.check_contracts}[c['kind']](c)
    return []
