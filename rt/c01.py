"""C01 runtime contracts: bookkeeping consistency after every successful fit (cold / warm / threshold), all selector families."""
import numpy as np
from .common import expect, Violation
from . import selectors as S

RULE = ("families x directions x data kinds (random, lattice, duplicates, low rank, badly scaled, clustered) x n_to_select in {None,int,float} x "
        "threshold in {None, absolute, relative} x {cold, warm chain}; distinct = (family, direction, kind, shape, n_to_select kind, threshold kind, warm); "
        "non-trivial = fit succeeded with >= 2 selections")

def cases(rng, tier, focus):
    reps = 3 if tier == 'quick' else 25
    # deterministic cases that exhibit the recorded findings (so that KNOWN-FINDING lines are printed on every run)
    X0 = np.array([[0., 0.], [1., 0.], [1., 0.], [0., 2.], [0., 2.], [3., 1.]])
    yield dict(kind='fit', fam=('FPS', 'sample'), X=X0, y=None, nsel=6, thr=None, warm=False, dkind='dup-fixed', kw={})
    Xt = np.array([[0., 0.], [4., 0.], [0., 3.], [1., 1.], [2., 2.], [0.5, 0.2]])
    yield dict(kind='fit', fam=('FPS', 'sample'), X=Xt, y=None, nsel=5, thr=('absolute', 4.0), warm=False, dkind='thr-fixed', kw={})
    for rep in range(reps):
        for fam in S.FAMS:
            for dkind in S.KINDS:
                n, m = int(rng.integers(3, 12)), int(rng.integers(3, 9))
                X = S.gen_X(rng, dkind, n, m)
                y = rng.normal(size=n) if (fam[0].startswith('PCov') or rng.random() < 0.3) else None
                N = S.N_of(fam, X)
                nk = rng.integers(0, 3)
                nsel = [None, int(rng.integers(1, N + 1)), float(rng.uniform(1.0 / N, 1.0))][nk]
                if isinstance(nsel, float) and int(N * nsel) < 1: nsel = 1.0
                tk = rng.integers(0, 4)
                thr = [None, None, ('absolute', float(10 ** rng.uniform(-3, 1))), ('relative', float(rng.uniform(0.05, 0.9)))][tk]
                kw = {}
                if fam[0] in ('CUR', 'PCovCUR'): kw['recompute_every'] = int(rng.integers(0, 3)); kw['k'] = 1
                if fam[0] in ('FPS', 'PCovFPS', 'VoronoiFPS'):
                    kw['initialize'] = [int(rng.integers(0, N)), 'random'][int(rng.random() < 0.2)]
                    if fam[0] == 'FPS' and rng.random() < 0.3 and N >= 3:
                        kw['initialize'] = [int(x) for x in rng.choice(N, size=2, replace=False)]
                if fam[0] == 'VoronoiFPS' and rng.random() < 0.7: kw['full_fraction'] = float(rng.choice([0.01, 0.3, 0.9, 1.0]))
                if fam[0].startswith('PCov'): kw['mixing'] = float(rng.choice([0.0, 0.2, 0.5, 0.9]))
                yield dict(kind='fit', fam=fam, X=X, y=y, nsel=nsel, thr=thr, warm=bool(rng.random() < 0.35), dkind=dkind, kw=kw)

def nontrivial(c):
    return (c['fam'], c['dkind'], c['X'].shape, type(c['nsel']).__name__, c['thr'][0] if c['thr'] else None, c['warm'], tuple(sorted((k, str(v)) for k, v in c['kw'].items())))

def check(c):
    fam = tuple(c['fam']); X = c['X']; y = c['y']; nsel = c['nsel']; thr = c['thr']
    if isinstance(thr, list): thr = tuple(thr)
    kw = dict(c['kw'])
    if isinstance(kw.get('initialize'), list): kw['initialize'] = [int(v) for v in kw['initialize']]
    N = S.N_of(fam, X)
    ninit = len(kw['initialize']) if isinstance(kw.get('initialize'), list) else 1
    target = S.expected_count(nsel, N)
    if target < ninit or target < 1: return []
    if thr: kw['score_threshold'] = thr[1]; kw['score_threshold_type'] = thr[0]
    tag = ''; k0 = ninit if fam[0] in ('FPS', 'PCovFPS', 'VoronoiFPS') else 0
    try:
        if c['warm'] and target >= 2:
            first = max(ninit, target // 2)
            sel = S.make(fam, dict(kw, n_to_select=first))
            log = S.instrument_scores(sel)
            S.fit(sel, fam, X, y)
            if sel.n_selected_ == first and len(sel.selected_idx_) == first:
                sel.n_to_select = nsel
                S.fit(sel, fam, X, y, warm_start=True)
                tag = '@warm'; k0 = first
            else:
                sel = S.make(fam, dict(kw, n_to_select=nsel)); log = S.instrument_scores(sel); S.fit(sel, fam, X, y)
        else:
            sel = S.make(fam, dict(kw, n_to_select=nsel)); log = S.instrument_scores(sel); S.fit(sel, fam, X, y)
    except (ValueError, np.linalg.LinAlgError) as e:
        # rejected inputs are outside "after any successful fit"; scipy's sparse solvers reject k >= min(shape)
        return []
    S.check_bookkeeping(sel, fam, X, y, nsel, thr, tag, scores_log=log, k0=k0)
    return []
