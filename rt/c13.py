"""C13 runtime contracts: reconstruction measures (GRE, GRD, LRE): RMS, non-negativity, zero on contained information, invariances, all dimension pairs."""
import numpy as np, warnings
from .common import expect

RULE = "X,Y with X wider/equal/narrower x index choices (default, train only, test only, disjoint, overlapping) x source rotations/reflections, scalings, shifts x n_local_points 2..n_train; distinct = (measure, dims, index kind, transformation)"

def quiet(f, *a, **k):
    with warnings.catch_warnings():
        warnings.simplefilter('ignore'); return f(*a, **k)

def cases(rng, tier, focus):
    reps = 3 if tier == 'quick' else 30
    for rep in range(reps):
        for (dx, dy) in ((5, 3), (3, 3), (2, 5), (4, 1), (1, 3)):
            for idx in ('default', 'train', 'test', 'disjoint', 'overlap'):
                yield dict(dx=dx, dy=dy, idx=idx, seed=int(rng.integers(0, 10 ** 6)))

def nontrivial(c): return (c.get('pin'), c.get('dx'), c.get('dy'), c.get('idx'), c['seed'] % 3)

# witnesses of the recorded findings (known_findings.txt), evaluated on every run
PINNED = [dict(pin='gre-small-folds', seed=19), dict(pin='tiny-scale', seed=3)]

def check_pinned(c):
    from skmatter import metrics as M
    if c['pin'] == 'gre-small-folds':
        # the default estimator (Ridge2FoldCV) scores its alphas on folds of 5 samples for 9 features: the winning regularisation can be a large relative cut-off
        rng = np.random.RandomState(c['seed']); X = rng.randn(20, 9); A = rng.randn(9, 3)
        v = quiet(M.global_reconstruction_error, X, X @ A)
        expect(v <= 1e-6, 'post[C13]:GRE-of-a-linear-image-of-X-vanishes@default-estimator-with-cross-validation-folds-smaller-than-the-number-of-features', f"GRE(X, XA) = {v} for X 20x9 of full column rank")
    if c['pin'] == 'tiny-scale':
        rng = np.random.RandomState(c['seed']); X = rng.randn(40, 3); Y = rng.randn(40, 4)
        base = quiet(M.global_reconstruction_error, X, Y)
        try: v = quiet(M.global_reconstruction_error, 1e-7 * X, Y)
        except ValueError as e: v = None; msg = str(e)
        expect(v is not None and abs(v - base) <= 1e-6 * max(1.0, base), 'post[C13]:GRE-unchanged-by-uniform-rescaling-and-shifts-of-either-space@scale-below-the-absolute-variance-tolerance-of-the-default-scaler',
               f"GRE(X, Y) = {base}; GRE(1e-7 X, Y) " + (f"= {v}" if v is not None else f"raises ValueError: {msg}"))
    return []

def rand_orth(rng, d, kind):
    if kind == 'rotation':
        Q, _ = np.linalg.qr(rng.normal(size=(d, d)))
        if np.linalg.det(Q) < 0: Q[:, 0] *= -1
        return Q
    if kind == 'reflection':
        v = rng.normal(size=d); v /= np.linalg.norm(v); return np.eye(d) - 2 * np.outer(v, v)
    P = np.eye(d)[rng.permutation(d)]; return P

def check(c):
    if c.get('pin'): return check_pinned(c)
    from skmatter import metrics as M
    from sklearn.linear_model import Ridge
    rng = np.random.default_rng(c['seed']); n = 24; dx, dy = c['dx'], c['dy']
    X = rng.normal(size=(n, dx)); Y = np.tanh(X @ rng.normal(size=(dx, dy))) + 0.1 * rng.normal(size=(n, dy))
    perm = rng.permutation(n)
    kw = {'default': {}, 'train': dict(train_idx=np.sort(perm[:14])), 'test': dict(test_idx=np.sort(perm[:9])), 'disjoint': dict(train_idx=np.sort(perm[:12]), test_idx=np.sort(perm[14:])),
          'overlap': dict(train_idx=np.sort(perm[:15]), test_idx=np.sort(perm[10:20]))}[c['idx']]
    fixed = lambda: Ridge(alpha=1e-6, fit_intercept=False)        # rotation-invariant model selection (fixed regularisation)
    sig = lambda s: f"{s}[dx{'>' if dx > dy else '=' if dx == dy else '<'}dy,{c['idx']}]"
    for name, pw, gl, extra in (('GRE', M.pointwise_global_reconstruction_error, M.global_reconstruction_error, {}),
                                ('GRD', M.pointwise_global_reconstruction_distortion, M.global_reconstruction_distortion, {}),
                                ('LRE', M.pointwise_local_reconstruction_error, M.local_reconstruction_error, dict(n_local_points=6))):
        for est in ('default', 'fixed'):
            ekw = dict(kw, **extra)
            if est == 'fixed': ekw['estimator'] = fixed()
            p = quiet(pw, X, Y, **ekw)
            ekw2 = dict(kw, **extra)
            if est == 'fixed': ekw2['estimator'] = fixed()
            g = quiet(gl, X, Y, **ekw2)
            expect(np.all(np.asarray(p) >= 0), sig(f'post[C13]:pointwise-{name}-is-non-negative'))
            rms = np.sqrt(np.mean(np.asarray(p) ** 2))
            expect(abs(g - rms) <= 1e-9 * max(1.0, rms), sig(f'post[C13]:global-{name}-is-the-root-mean-square-of-its-pointwise-values[{est}]'), f"global {g} rms of pointwise {rms}")
            if 'test_idx' in kw: expect(len(p) == len(kw['test_idx']), sig(f'post[C13]:one-pointwise-{name}-value-per-test-sample'))
        # invariances (fixed estimator): source rotation/reflection, uniform rescaling and shift of either space
        base = quiet(gl, X, Y, estimator=fixed(), **dict(kw, **extra))
        for tk in ('rotation', 'reflection', 'permutation'):
            Q = rand_orth(rng, dx, tk)
            v = quiet(gl, X @ Q, Y, estimator=fixed(), **dict(kw, **extra))
            expect(abs(v - base) <= 1e-6 * max(1.0, base), sig(f'post[C13]:{name}-unchanged-by-a-{tk}-of-the-source-space'), f"{base} -> {v}")
        for a, b in ((3.0, 1.0), (1.0, 0.2), (0.5, 7.0)):
            v = quiet(gl, a * X + rng.normal(size=dx), b * Y + rng.normal(size=dy), estimator=fixed(), **dict(kw, **extra))
            expect(abs(v - base) <= 1e-6 * max(1.0, base), sig(f'post[C13]:{name}-unchanged-by-uniform-rescaling-and-shifts-of-either-space'), f"{base} -> {v}")
        R = rand_orth(rng, dy, 'rotation')
        v = quiet(gl, X, Y @ R, estimator=fixed(), **dict(kw, **extra))
        expect(abs(v - base) <= 1e-6 * max(1.0, base), sig(f'post[C13]:{name}-unchanged-by-a-rotation-of-the-target-space-with-rotation-invariant-model-selection'), f"{base} -> {v}")
    # contained information
    A = rng.normal(size=(dx, dy))
    v = quiet(M.global_reconstruction_error, X, X @ A, **kw)
    expect(v <= 1e-6, sig('post[C13]:GRE-of-a-linear-image-of-X-vanishes'), f"{v}")
    Q = rand_orth(rng, dx, 'rotation')
    v = quiet(M.global_reconstruction_distortion, X, X @ Q, **kw)
    expect(v <= 1e-6, sig('post[C13]:GRD-of-a-rotated-copy-of-X-vanishes'), f"{v}")
    tr = kw.get('train_idx', None)
    if tr is not None:
        v = quiet(M.global_reconstruction_error, X, Y, train_idx=tr, test_idx=tr, estimator=fixed())
        expect(v <= 1 + 1e-9, sig('post[C13]:GRE-on-the-training-set-never-exceeds-one'), f"{v}")
        pl = quiet(M.pointwise_local_reconstruction_error, X, Y, n_local_points=len(tr), train_idx=tr, test_idx=kw.get('test_idx', tr), estimator=fixed())
        pg = quiet(M.pointwise_global_reconstruction_error, X, Y, train_idx=tr, test_idx=kw.get('test_idx', tr), estimator=Ridge(alpha=1e-6, fit_intercept=True))
        # LRE with all training points as neighbours = a global fit on the centred training data
        expect(np.allclose(pl, pg, atol=1e-5 * max(1.0, np.abs(pg).max())), sig('post[C13]:LRE-with-all-training-points-as-neighbours-equals-the-pointwise-GRE'), f"max dev {np.max(np.abs(pl - pg))}")
    return []
