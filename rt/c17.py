"""C17 runtime contracts: SparseKDE assignment, weights, bandwidths, mixture formula, invariances."""
import numpy as np, warnings
from .common import expect

RULE = "descriptor clouds 1..4-D (multi-modal, anisotropic, degenerate) x weights x grids (FPS subset, arbitrary points) x fpoints/fspread x cells x queries; translations, permutations, integer image shifts; distinct = (dim, cloud kind, grid kind, localisation, cell, seed class)"

def cases(rng, tier, focus):
    reps = 3 if tier == 'quick' else 30
    yield dict(d=2, kind='multimodal', grid='subset', loc='fpoints', cell=True, n=40, g=5, seed=11)      # exhibits the recorded periodic finding on every run
    yield dict(d=2, kind='multimodal', grid='subset', loc='fspread', cell=False, n=40, g=5, seed=13)     # a small spread (seed odd: fspread=0.05): takes the branch that re-localises on the nearest-grid distance
    for rep in range(reps):
        for d in (1, 2, 3):
            for kind in ('multimodal', 'anisotropic'):
                for grid in ('subset', 'points'):
                    for cell in (False, True):
                        yield dict(d=d, kind=kind, grid=grid, loc=('fspread' if (rep + d + (kind == 'anisotropic')) % 3 == 2 and not cell else 'fpoints'), cell=cell, n=int(rng.integers(30, 60)), g=int(rng.integers(3, 8)), seed=int(rng.integers(0, 10 ** 6)))

# witness of the recorded effdim finding (known_findings.txt), evaluated on every run
PINNED = [dict(d=3, kind='multimodal', grid='points', loc='fpoints', cell=True, n=37, g=5, seed=159705),
          dict(d=1, kind='anisotropic', grid='points', loc='fpoints', cell=False, n=50, g=3, seed=988514),
          dict(d=3, kind='anisotropic', grid='points', loc='fspread', cell=False, n=48, g=6, seed=625225)]       # third witness: indefinite bandwidth at a grid point whose OAS coefficient leaves [0, 1] (small fspread, local population below one sample)      # second witness: non-terminating bisection (OverflowError)

def nontrivial(c): return (c['d'], c['kind'], c['grid'], c['loc'], c['cell'], c['seed'] % 3)

def quiet(f, *a, **k):
    with warnings.catch_warnings():
        warnings.simplefilter('ignore'); return f(*a, **k)

def build(c, rng, shift=None, dshift=None, perm=None):
    from skmatter.neighbors import SparseKDE
    d, n, g = c['d'], c['n'], c['g']
    cell = np.full(d, 12.0) * (np.arange(1, d + 1) ** 0.5) if c['cell'] else None
    centres = rng.uniform(2, 8, size=(3, d))
    D = centres[rng.integers(0, 3, n)] + rng.normal(size=(n, d)) * (0.4 if c['kind'] == 'multimodal' else np.linspace(0.1, 1.0, d))
    w = rng.uniform(0.5, 2.0, n)
    grid = D[rng.choice(n, size=g, replace=False)].copy() if c['grid'] == 'subset' else centres[rng.integers(0, 3, g)] + rng.normal(size=(g, d)) * 0.3
    Q = centres[rng.integers(0, 3, 6)] + rng.normal(size=(6, d)) * 0.5
    if d >= 2:
        # queries that share all coordinates but one with a descriptor (they are NOT descriptors): discretised / lattice-like situations
        Qs = D[rng.choice(n, size=3, replace=False)].copy(); Qs[:, 0] += rng.uniform(0.05, 0.3, 3)
        Q = np.vstack([Q, Qs])
    return D, w, grid, Q, cell

def fit(c, D, w, grid, cell):
    from skmatter.neighbors import SparseKDE
    kw = dict(fpoints=0.3) if c['loc'] == 'fpoints' else dict(fspread=(0.05 if c['seed'] % 2 else 0.5))      # small spreads take the branch that re-localises on the nearest-grid distance
    mp = {'cell_length': cell} if cell is not None else None
    return quiet(SparseKDE(D, w, metric_params=mp, **kw).fit, grid)

def mixture(est, D, wn, Q, cell):
    """the documented mixture evaluated from the fitted state"""
    from skmatter.metrics import pairwise_mahalanobis_distances as pmd
    H = est.bandwidth_; G = est._grids; gw = np.asarray(est._sample_weights); d = D.shape[1]
    cut2 = (3 * (np.sqrt(d) + 1)) ** 2
    out = np.zeros(len(Q))
    for i, q in enumerate(Q):
        terms = []
        for j in range(len(G)):
            Hi = np.linalg.inv(H[j]); nk = d * np.log(2 * np.pi) + np.linalg.slogdet(H[j])[1]
            dist = float(pmd(q[None], G[j][None], Hi, cell, squared=True).reshape(-1)[0])
            if dist > cut2: terms.append(-0.5 * (nk + dist) + np.log(gw[j]))
            else:
                nb = np.asarray(est._grid_neighbour[j])
                nb = nb[np.any(D[nb] != q, axis=1)] if len(nb) else nb
                if len(nb):
                    ds = pmd(D[nb], q[None], Hi, cell, squared=True).reshape(-1)
                    terms += list(-0.5 * (nk + ds) + np.log(wn[nb]))
        m = max(terms); out[i] = m + np.log(np.sum(np.exp(np.array(terms) - m))) - np.log(gw.sum())
    return out

def check(c):
    from skmatter.metrics import periodic_pairwise_euclidean_distances as ppd
    rng = np.random.default_rng(c['seed'])
    D, w, grid, Q, cell = build(c, rng)
    tag = f"[{'periodic' if c['cell'] else 'free'},{c['loc']}]"
    est = fit(c, D, w, grid, cell)       # an exception raised by the code is reported by the runner as raises:<Exc>@<function>
    wn = w / w.sum()
    dist = ppd(D, grid, squared=True, cell_length=cell)
    lab = np.argmin(dist, axis=1)
    tie = np.sort(dist, axis=1); notie = (tie[:, 1] - tie[:, 0] > 1e-9) if dist.shape[1] > 1 else np.ones(len(D), bool)
    expect(np.array_equal(np.asarray(est._sample_labels_)[notie], lab[notie]), f'post[C17]:each-descriptor-is-assigned-to-its-nearest-grid-point{tag}')
    gw = np.array([wn[np.asarray(est._sample_labels_) == j].sum() for j in range(len(grid))])
    expect(np.allclose(est._sample_weights, gw, atol=1e-12) and abs(np.sum(est._sample_weights) - 1) < 1e-9, f'post[C17]:grid-weights-are-the-sums-of-the-assigned-descriptor-weights-totalling-one{tag}')
    H = np.asarray(est.bandwidth_)
    ok = np.all(np.isfinite(H)) and np.allclose(H, H.transpose(0, 2, 1), atol=1e-10 * max(1.0, np.abs(H).max()))
    if ok: ok = all(np.all(np.linalg.eigvalsh(h) > 0) for h in H)
    if not ok:
        # which grid points have a bad bandwidth: only points without any assigned descriptor (recorded finding), or others too
        bad = [j for j, h in enumerate(H) if not (np.all(np.isfinite(h)) and np.allclose(h, h.T, atol=1e-10 * max(1.0, np.abs(h).max())) and np.all(np.linalg.eigvalsh((h + h.T) / 2) > 0))]
        # the OAS coefficient phi of the bad grid points, recomputed with the library's own (contract-verified) helpers and formula: for a local population of about one sample or less
        # phi leaves [0, 1] and the 'shrunk' covariance is no convex combination any more (recorded finding); a bad bandwidth at a grid point with 0 <= phi <= 1 is NOT listed
        small_only = False
        if c['loc'] == 'fspread' and cell is None and bad:
            from skmatter.neighbors._sparsekde import _covariance as _cov, _local_population as _lp
            G = np.asarray(est._grids); gwt = np.asarray(est._sample_weights, float)
            tune = np.trace(_cov(G, gwt, None)); dg = ppd(G, G, squared=True); np.fill_diagonal(dg, np.inf); mind = dg.min(axis=1)
            nl = []; reached = []
            for j in bad:
                s2 = tune * est.fspread ** 2; wl_, fl = _lp(None, G, G[j], gwt, s2)
                if s2 < fl: s2 = mind[j]; wl_, fl = _lp(None, G, G[j], gwt, s2)
                n_loc = fl * len(D); reached.append(fl > 0 and (fl - wl_[j]) / fl >= 1e-6)
                # the OAS coefficient the library computes for this grid point (its own formula, recomputed): a convex shrinkage needs 0 <= phi <= 1
                with np.errstate(all='ignore'):
                    S_ = _cov(G, wl_, None); Dd = G.shape[1]; tr_ = np.trace(S_); trc2 = np.trace(S_ ** 2)
                    phi = ((1 - 2 / Dd) * trc2 + tr_ ** 2) / ((n_loc + 1 - 2 / Dd) * trc2 - tr_ ** 2 / Dd)
                nl.append(phi)
            # proviso of the property: the localisation must reach at least one other grid point (otherwise the local covariance is that of a single point)
            bad = [j for j, r_ in zip(bad, reached) if r_]; nl = [v for v, r_ in zip(nl, reached) if r_]
            small_only = bool(bad) and all((not np.isfinite(v)) or v < 0 or v > 1 for v in nl)
        expect(not bad, f'post[C17]:every-bandwidth-matrix-is-finite-symmetric-and-positive-definite{tag}' + ('@only-at-grid-points-whose-shrinkage-coefficient-leaves-[0,1]' if small_only else ''), f"bad bandwidths at grid points {bad}")
    s = quiet(est.score_samples, Q)
    ref = mixture(est, D, wn, Q, cell)
    expect(np.allclose(s, ref, rtol=1e-8, atol=1e-8), f'post[C17]:score_samples-is-the-log-of-the-documented-mixture{tag}', f"max dev {np.max(np.abs(s - ref))}")
    expect(abs(quiet(est.score, Q) - np.sum(s)) <= 1e-9 * max(1.0, abs(np.sum(s))), f'post[C17]:score-is-the-sum-of-score_samples{tag}')
    # invariances of the log-density at non-descriptor points
    perm = rng.permutation(len(D)); gperm = rng.permutation(len(grid))
    e2 = fit(c, D[perm], w[perm], grid[gperm], cell)
    expect(np.allclose(quiet(e2.score_samples, Q), s, rtol=1e-7, atol=1e-7), f'post[C17]:log-density-unchanged-by-permuting-descriptors-and-grid-points{tag}', f"max dev {np.max(np.abs(quiet(e2.score_samples, Q) - s))}")
    if cell is None:
        t = rng.normal(size=D.shape[1]) * 5
        e3 = fit(c, D + t, w, grid + t, cell)
        expect(np.allclose(quiet(e3.score_samples, Q + t), s, rtol=1e-6, atol=1e-6), f'post[C17]:log-density-unchanged-by-a-free-space-translation{tag}', f"max dev {np.max(np.abs(quiet(e3.score_samples, Q + t) - s))}")
    else:
        sd = rng.integers(-2, 3, size=D.shape) * cell; sg = rng.integers(-2, 3, size=grid.shape) * cell; sq = rng.integers(-2, 3, size=Q.shape) * cell
        e4 = fit(c, D + sd, w, grid + sg, cell)
        s4 = quiet(e4.score_samples, Q + sq)
        expect(np.allclose(s4, s, rtol=1e-6, atol=1e-6), f'post[C17]:log-density-unchanged-by-whole-cell-shifts-of-descriptors-grid-points-and-queries{tag}', f"max dev {np.max(np.abs(s4 - s))}")
    return []
