"""External contracts for scikit-learn / scipy / time helpers used by the selectors (trusted base, DESIGN 3.4)."""
import z3
from z3 import And, Or, Not, Implies, If, IntVal, RealVal, BoolVal
from .engine import ForAll, ArrVal, ArrRef, ObjRef, ExtNS, ExtClass, Opaque, Unsupported, RaiseEx, tz, conc, is_sym, is_int, to_real
from . import npstubs as N

IntS, RealS, BoolS = z3.IntSort(), z3.RealSort(), z3.BoolSort()
RANDINT = z3.Function('RANDINT', IntS, IntS, IntS, IntS)     # (seed, draw ordinal, n) -> value in [0, n): seeded generators are deterministic

class StubObj:
    def __init__(self, **attrs): self._pyvc_attrs = attrs

def check_array(I, X, *a, ensure_min_samples=1, ensure_min_features=1, ensure_2d=True, **kw):
    N.used('sklearn.check_array (2-D float array returned unchanged; raises below the minimum sizes)')
    if isinstance(X, (list, tuple)): X = N.from_list(I, X)
    if not isinstance(X, ArrRef): raise RaiseEx('ValueError')
    A = I.A(X)
    if A.ndim != 2:
        if ensure_2d: raise RaiseEx('ValueError')
        return X
    if I.branch(Or(tz(A.shape[0]) < ensure_min_samples, tz(A.shape[1]) < ensure_min_features)): raise RaiseEx('ValueError')
    if A.sort != RealS:
        return I.new_arr(ArrVal(A.shape, lambda *ix: N.coerce(A.elem(*ix), RealS), RealS))
    return X

def _check_y(I, X, y, multi_output):
    Y = I.A(y); A = I.A(X)
    if Y.ndim == 2 and not multi_output:
        m = conc(Y.shape[1])
        if is_sym(m):
            if I.branch(m != 1): raise RaiseEx('ValueError')
        elif m != 1: raise RaiseEx('ValueError')
        I.event('warn')
        y = N.np_ravel(I, y); Y = I.A(y)
    if Y.ndim not in (1, 2): raise RaiseEx('ValueError')
    sd = N.same_dim(A.shape[0], Y.shape[0])
    if sd is False: raise RaiseEx('ValueError')
    if sd is None:
        if I.branch(tz(A.shape[0]) != tz(Y.shape[0])): raise RaiseEx('ValueError')
    if Y.sort != RealS:
        Yo = Y
        y = I.new_arr(ArrVal(Y.shape, lambda *ix: N.coerce(Yo.elem(*ix), RealS), RealS))
    return y

def check_X_y(I, X, y, *a, multi_output=False, **kw):
    N.used('sklearn.check_X_y')
    if y is None: raise RaiseEx('ValueError')
    X = check_array(I, X, **{k: v for k, v in kw.items() if k in ('ensure_min_samples', 'ensure_min_features')})
    if isinstance(y, (list, tuple)): y = N.from_list(I, y)
    return X, _check_y(I, X, y, multi_output)

def validate_data_attr(I, obj):
    def f(I2, X='no_validation', y='no_validation', reset=True, **kw):
        N.used('sklearn.BaseEstimator._validate_data')
        mo = kw.pop('multi_output', False)
        if isinstance(y, str) or y is None:
            Xo = check_array(I2, X, **{k: v for k, v in kw.items() if k in ('ensure_min_samples', 'ensure_min_features')})
            out = Xo
        else:
            Xo, yo = check_X_y(I2, X, y, multi_output=mo, **kw)
            out = (Xo, yo)
        o = I2.O(obj)
        if reset: o.attrs['n_features_in_'] = conc(I2.A(Xo).shape[1])
        else:
            if 'n_features_in_' in o.attrs:
                if I2.branch(tz(o.attrs['n_features_in_']) != tz(I2.A(Xo).shape[1])): raise RaiseEx('ValueError')
        return out
    return f

def check_is_fitted(I, obj, attributes=None, **kw):
    N.used('sklearn.check_is_fitted')
    if not isinstance(obj, ObjRef): return
    o = I.O(obj)
    if attributes is None:
        if not any(k.endswith('_') and not k.startswith('__') for k in o.attrs): raise RaiseEx('NotFittedError')
        return
    if isinstance(attributes, str): attributes = [attributes]
    if not all(a in o.attrs for a in attributes): raise RaiseEx('NotFittedError')

def check_random_state(I, seed):
    N.used('sklearn.check_random_state(int).randint: deterministic function of the seed')
    cnt = [0]
    def randint(I2, n, size=None, **kw):
        if seed is None or not is_int(seed):
            r = I2.fresh('rand', IntS)       # unseeded: arbitrary
            I2.assume(And(0 <= r, r < tz(n)))
            return r
        if size is not None:
            m = conc(size)
            f = I2.fresh_fn('randarr', IntS, IntS)
            t = z3.Int('t!r')
            I2.assume(ForAll([t], And(0 <= f(t), f(t) < tz(n))))
            return I2.new_arr(ArrVal((m,), lambda t_: f(tz(t_)), IntS))
        r = RANDINT(tz(seed), IntVal(cnt[0]), tz(n)); cnt[0] += 1
        I2.ob("pre:randint:n>=1", tz(n) >= 1, kind='pre')
        I2.assume(And(0 <= r, r < tz(n)))
        return r
    return StubObj(randint=randint)

def safe_mask(I, X, mask): return mask
def as_float_array(I, X, **kw):
    A = I.A(X)
    if A.sort == RealS: return X
    return I.new_arr(ArrVal(A.shape, lambda *ix: N.coerce(A.elem(*ix), RealS), RealS))
def time_(I):
    N.used('time.time: any real (wall clock is havocked)')
    return I.fresh('time', RealS)

def install(ext):
    ext['names'].update({
        'sklearn.utils.check_array': check_array, 'sklearn.utils.check_X_y': check_X_y, 'sklearn.utils.check_random_state': check_random_state,
        'sklearn.utils.safe_mask': safe_mask, 'sklearn.utils.validation.check_is_fitted': check_is_fitted,
        'sklearn.utils.validation.as_float_array': as_float_array, 'sklearn.utils.validation.FLOAT_DTYPES': ('float64', 'float32', 'float16'),
        'sklearn.utils.validation.check_array': check_array, 'sklearn.utils.validation.check_X_y': check_X_y,
        'sklearn.base.BaseEstimator': ExtClass('BaseEstimator'), 'sklearn.base.MetaEstimatorMixin': ExtClass('MetaEstimatorMixin'),
        'sklearn.base.TransformerMixin': ExtClass('TransformerMixin'), 'sklearn.base.RegressorMixin': ExtClass('RegressorMixin'),
        'sklearn.base.MultiOutputMixin': ExtClass('MultiOutputMixin'),
        'sklearn.feature_selection._base.SelectorMixin': ExtClass('SelectorMixin'),
        'sklearn.exceptions.NotFittedError': ExtClass('NotFittedError'),
        'abc.abstractmethod': (lambda I, f: f), 'time.time': time_,
    })
    ext['obj_attrs']['_validate_data'] = validate_data_attr
