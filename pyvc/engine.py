"""pyvc engine: symbolic interpreter over the real Python AST of /repo/src/skmatter.

Design (see DESIGN.md section 3): the interpreter executes the *real* function bodies, re-parsed on
every run.  A path is identified by its list of decisions (branch outcomes); forking is done by
re-execution: a run follows a decision prefix and, when it needs a decision beyond the prefix, takes
option 0 and schedules the siblings.  Fresh symbol names are deterministic per path, so re-executed
prefixes build identical terms and obligations are de-duplicated by (name, decision prefix at emission).

Loops are cut with invariants from the sidecar contracts; calls to repo functions are inlined unless a
modular contract is registered; externals (numpy, sklearn, ...) are python stubs with pre/postconditions.
"""
import ast
import os
import z3
from z3 import And, Or, Not, Implies, If, ForAll, Exists, IntVal, RealVal, BoolVal

INF = z3.Real('INF')
_ForAll = ForAll
def ForAll(vs, body, patterns=None, **kw):
    """ForAll with optional patterns; a pattern z3 rejects (interpreted head symbol) is dropped, never an error"""
    if not isinstance(vs, (list, tuple)): vs = [vs]
    if patterns:
        pats = [p for p in patterns if _valid_pattern(p, vs)]
        if pats:
            try: return _ForAll(vs, body, patterns=pats, **kw)
            except z3.Z3Exception: pass
    return _ForAll(vs, body, **kw)

_QC = {}
def _has_quant(e):
    k = e.get_id()
    if k in _QC: return _QC[k]
    r = False
    stack = [e]; seen = set()
    while stack:
        x = stack.pop()
        if x.get_id() in seen: continue
        seen.add(x.get_id())
        if z3.is_quantifier(x): r = True; break
        stack.extend(x.children())
    _QC[k] = r
    return r

_BAD_KINDS = None
def _valid_pattern(p, vs):
    global _BAD_KINDS
    if _BAD_KINDS is None:
        _BAD_KINDS = {z3.Z3_OP_ITE, z3.Z3_OP_AND, z3.Z3_OP_OR, z3.Z3_OP_NOT, z3.Z3_OP_EQ, z3.Z3_OP_LE, z3.Z3_OP_LT, z3.Z3_OP_GE,
                      z3.Z3_OP_GT, z3.Z3_OP_IMPLIES, z3.Z3_OP_DISTINCT, z3.Z3_OP_TRUE, z3.Z3_OP_FALSE}
    if isinstance(p, z3.PatternRef):
        try: kids = [p.arg(i) for i in range(p.num_args())]
        except Exception: kids = p.children()
        seen_all = set()
        for kchild in kids:
            if not _valid_pattern(kchild, []): return False
        return True
    if not z3.is_app(p) or p.decl().kind() != z3.Z3_OP_UNINTERPRETED or p.num_args() == 0: return False
    seen = set()
    def walk(t):
        if z3.is_quantifier(t): return False
        if z3.is_app(t):
            if t.decl().kind() in _BAD_KINDS: return False
            if t.num_args() == 0: seen.add(t.get_id())
            return all(walk(c) for c in t.children())
        return True
    if not walk(p): return False
    return all(v.get_id() in seen for v in vs)
          # np.inf: an uninterpreted constant; finiteness facts are stated by contracts


# --------------------------------------------------------------------------- control-flow exceptions
class ReturnEx(Exception):
    def __init__(self, v): self.v = v
class BreakEx(Exception): pass
class ContinueEx(Exception): pass
class RaiseEx(Exception):
    """the code under analysis raised"""
    def __init__(self, kind, node=None): self.kind, self.node = kind, node
class PathEnd(Exception): pass
class Infeasible(Exception): pass
class EnumV:
    """enumerate(<array of symbolic length>)"""
    def __init__(self, arr, start=0): self.arr, self.start = arr, start
EXPECTED_LOOPS = {}      # set by the checker from baseline/<P>.loops.json: {'sigs': {'qual#k': header text}, 'nloops': {qual: n}}
SEEN_LOOPS = {}          # filled while loops are resolved (written with the baseline)
def loop_signature(s):
    if isinstance(s, ast.For): return 'for ' + ast.unparse(s.target) + ' in ' + ast.unparse(s.iter)
    return 'while ' + ast.unparse(s.test)

class Unsupported(Exception):
    """construct outside the interpretable subset"""


# --------------------------------------------------------------------------- values
class ArrVal:
    """immutable content of an array cell: symbolic shape + element function (+ algebraic tag)"""
    __slots__ = ('shape', 'elem', 'sort', 'tag', 'islist', 'vecs')
    def __init__(self, shape, elem, sort, tag=None, islist=False, vecs=None):
        self.shape, self.elem, self.sort, self.tag, self.islist = tuple(shape), elem, sort, tag, islist
        # vector-level view (DESIGN 3.2 algebraic layer): for 2-D arrays (axis, fn) with fn(i) the Vec term of the i-th slice along
        # `axis` (axis 0: rows are vectors); for 1-D arrays (coef, term): the array is coef * term.  Always consistent with elem.
        self.vecs = vecs
    @property
    def ndim(self): return len(self.shape)

class ArrRef:
    """reference to a heap cell holding an ArrVal"""
    __slots__ = ('id',)
    def __init__(self, id): self.id = id
    def __repr__(self): return f"<arr {self.id}>"

class ObjVal:
    def __init__(self, cls, attrs): self.cls, self.attrs = cls, attrs
class ObjRef:
    __slots__ = ('id',)
    def __init__(self, id): self.id = id
    def __repr__(self): return f"<obj {self.id}>"

class Func:
    def __init__(self, module, node, qual, closure=None, cls=None):
        self.module, self.node, self.qual, self.closure, self.cls = module, node, qual, closure, cls
class Bound:
    def __init__(self, obj, func): self.obj, self.func = obj, func
class ClassV:
    def __init__(self, module, node, qual):
        self.module, self.node, self.qual = module, node, qual
        self.name = node.name
class SuperV:
    def __init__(self, obj, cls): self.obj, self.cls = obj, cls
class Opaque:
    def __init__(self, what): self.what = what
    def __repr__(self): return f"<opaque {self.what}>"
class RangeV:
    def __init__(self, lo, hi): self.lo, self.hi = lo, hi
class ExtNS:
    """namespace of externals (np, scipy, ...)"""
    def __init__(self, name, **kw):
        self._name = name
        self.__dict__.update(kw)
class ExtClass:
    """marker for external classes used in isinstance/except clauses"""
    def __init__(self, name): self.name = name


def is_sym(v): return isinstance(v, z3.ExprRef)
def tz(v):
    if isinstance(v, bool): return BoolVal(v)
    if isinstance(v, int): return IntVal(v)
    if isinstance(v, float):
        if v == float('inf'): return INF
        if v == float('-inf'): return -INF
        return RealVal(repr(v)) if v == v else RealVal(0)
    return v
def is_int(v): return isinstance(v, int) and not isinstance(v, bool) or (is_sym(v) and v.sort() == z3.IntSort())
def is_real(v): return isinstance(v, float) or (is_sym(v) and v.sort() == z3.RealSort())
def is_boolv(v): return isinstance(v, bool) or (is_sym(v) and v.sort() == z3.BoolSort())
def to_real(v):
    v = tz(v)
    return z3.ToReal(v) if v.sort() == z3.IntSort() else v
def sort_of(v):
    return tz(v).sort()
def zmin(a, b): return If(tz(a) <= tz(b), tz(a), tz(b))
def zmax(a, b): return If(tz(a) >= tz(b), tz(a), tz(b))
def simp(e):
    return z3.simplify(e) if is_sym(e) else e
def conc(v):
    """concrete python value of a z3 numeral if it is one, else v"""
    if is_sym(v):
        s = z3.simplify(v)
        if z3.is_int_value(s): return s.as_long()
        if z3.is_true(s): return True
        if z3.is_false(s): return False
        return s
    return v


# --------------------------------------------------------------------------- repository model
class Repo:
    """parses the real source tree on construction; nothing is cached across runs"""
    def __init__(self, root):
        self.root = root            # .../src
        self.modules = {}           # dotted name -> ast.Module
        self.files = {}
    def module(self, name):
        if name not in self.modules:
            path = os.path.join(self.root, *name.split('.'))
            if os.path.isdir(path): path = os.path.join(path, '__init__.py')
            else: path += '.py'
            if not os.path.exists(path): return None
            self.files[name] = path
            self.modules[name] = ast.parse(open(path).read())
            self.modules[name]._is_pkg = path.endswith('__init__.py')
        return self.modules[name]
    def lookup(self, modname, name, depth=0):
        """resolve a top-level name of a repo module to ClassV / Func / ('import', target) / None"""
        mod = self.module(modname)
        if mod is None or depth > 8: return None
        for n in mod.body:
            if isinstance(n, ast.ClassDef) and n.name == name: return ClassV(modname, n, f"{modname}.{name}")
            if isinstance(n, ast.FunctionDef) and n.name == name: return Func(modname, n, f"{modname}.{name}")
            if isinstance(n, ast.ImportFrom):
                for a in n.names:
                    if (a.asname or a.name) == name:
                        target = self.resolve_from(modname, n)
                        if target is not None and target.startswith('skmatter'):
                            if self.module(target + '.' + a.name) is not None:
                                return ('module', target + '.' + a.name)
                            return self.lookup(target, a.name, depth + 1)
                        return ('ext', (target or n.module), a.name)
            if isinstance(n, ast.Import):
                for a in n.names:
                    if (a.asname or a.name.split('.')[0]) == name:
                        return ('extmod', a.name if a.asname else a.name.split('.')[0])
            if isinstance(n, ast.Assign):
                for t in n.targets:
                    if isinstance(t, ast.Name) and t.id == name: return ('const', n.value)
        return None
    def resolve_from(self, modname, node):
        if node.level == 0: return node.module
        parts = modname.split('.')
        if not self.modules[modname]._is_pkg: parts = parts[:-1]
        parts = parts[:len(parts) - (node.level - 1)]
        return '.'.join(parts + ([node.module] if node.module else []))
    def get(self, qual):
        """qual like skmatter.clustering._quick_shift.QuickShift._qs_next"""
        parts = qual.split('.')
        for k in range(len(parts), 0, -1):
            modname = '.'.join(parts[:k])
            if self.module(modname) is not None:
                rest = parts[k:]
                v = self.lookup(modname, rest[0])
                for r in rest[1:]:
                    assert isinstance(v, ClassV), qual
                    for n in v.node.body:
                        if isinstance(n, ast.FunctionDef) and n.name == r:
                            v = Func(modname, n, qual, cls=v); break
                    else: raise KeyError(qual)
                return v
        raise KeyError(qual)


class Obligation:
    __slots__ = ('name', 'assumptions', 'goal', 'prefix', 'kind', 'extra', 'axgroups')
    def __init__(self, name, assumptions, goal, prefix, kind='vc', extra=None, axgroups=None):
        self.name, self.assumptions, self.goal, self.prefix, self.kind, self.extra = name, assumptions, goal, prefix, kind, extra
        self.axgroups = axgroups      # background axioms by group ('ring' laws are only sent when the lighter attempts fail)


class LoopContract:
    """inv(I, F, k): invariant over frame F (dict-like of locals; objects via I.attr) at iteration counter k
    (k is the loop variable value for `for .. in range`, a ghost counter otherwise)
    modifies: extra names/attrs to havoc beyond those computed from the AST (optional)
    ghost: dict name -> (init(I,F), step(I,Fpre,Fpost,g))  -- ghost state with explicit witnesses
    decreases(I,F): optional variant (Int) for while loops
    """
    def __init__(self, inv, modifies=(), ghost=None, decreases=None, unroll=None, keep=(), hints=None):
        self.inv, self.modifies, self.ghost, self.decreases, self.unroll = inv, tuple(modifies), ghost or {}, decreases, unroll
        self.keep = tuple(keep)
        self.types = {}               # name / 'self.attr' -> z3 sort: havoc sort override (e.g. a local that starts as int 0 and becomes a float)
        self.const_ghost = set()      # ghost names that are loop constants (snapshot at entry, never havocked)
        self.hints = hints      # hints(I, Fpre, Fpost, k, ghost_pre, ghost_post) -> [(label, formula)]: proved in order, then assumed (like `assert`)


class FuncContract:
    """modular contract: requires(I, args) -> list of (label, formula); ensures(I, args, result, old) -> list of (label, formula)
    result_shape(I, args) -> fresh result value constructor; modifies: list of arg names whose array cells are havocked"""
    def __init__(self, requires=None, ensures=None, make_result=None, modifies=(), modifies_self=()):
        self.requires, self.ensures, self.make_result, self.modifies = requires, ensures, make_result, tuple(modifies)
        # attributes of `self` the callee may write: name or (name, ('vec', axis)); havocked at the call, `old` (heap snapshot) is passed to ensures
        self.modifies_self = tuple(modifies_self)
        self.assign_self = None       # optional: assign_self(I, F, old) -> {attr: value} set directly (exact post-values of scalars)


# --------------------------------------------------------------------------- interpreter state (one path)
class State:
    def __init__(self, prefix):
        self.prefix = list(prefix)
        self.pos = 0
        self.pc = []
        self.heap = {}
        self.nfresh = 0
        self.siblings = []
        self.events = []
        self.occ = {}
        self.guards = []          # temporary guards (short-circuit operands, conditional expressions)
    def taken(self): return tuple(self.prefix[:self.pos])


class Interp:
    def __init__(self, repo, externals, loop_contracts=None, func_contracts=None, tag=''):
        self.repo = repo
        self.ext = externals                  # name -> stub for builtins; module map for imports
        self.loop_contracts = loop_contracts or {}     # (qualname, ordinal) -> LoopContract
        self.func_contracts = func_contracts or {}     # qualname -> FuncContract
        self.obls = {}
        self.st = None
        self.tag = tag
        self.feas_cache = {}
        self.inlined = set()
        self.under_contract = set()
        self.unsupported = []
        self.loop_ord_cache = {}
        self.call_stack = []
        self.paths_done = 0
        self.axgroups = {}

    # ----- path-level helpers
    def fresh(self, name, sort):
        self.st.nfresh += 1
        return z3.Const(f"{name}!{self.st.nfresh}", sort)
    def fresh_fn(self, name, *sorts):
        self.st.nfresh += 1
        return z3.Function(f"{name}!{self.st.nfresh}", *sorts)
    def new_arr(self, val):
        self.st.nfresh += 1
        r = ArrRef(f"a{self.st.nfresh}")
        self.st.heap[r.id] = val
        return r
    def new_obj(self, cls, attrs=None):
        self.st.nfresh += 1
        r = ObjRef(f"o{self.st.nfresh}")
        self.st.heap[r.id] = ObjVal(cls, dict(attrs or {}))
        return r
    def fresh_arr(self, name, shape, sort=None, islist=False, layout=None):
        sort = z3.RealSort() if sort is None else sort
        if layout is not None:
            return self.new_arr(self.fresh_vec_arrval(name, shape, layout))
        f = self.fresh_fn(name, *([z3.IntSort()] * len(shape) + [sort]))
        return self.new_arr(ArrVal(shape, lambda *ix: f(*[tz(i) for i in ix]), sort, ('base', f), islist))
    def fresh_vec_arrval(self, name, shape, layout):
        """2-D real array represented through its row (layout 0) or column (layout 1) vectors; 1-D: a single Vec"""
        from . import veclayer as V
        if len(shape) == 1:
            self.st.nfresh += 1
            v = z3.Const(f"{name}!{self.st.nfresh}", V.Vec)
            return ArrVal(shape, lambda c: V.comp(v, tz(c)), z3.RealSort(), ('base', v), False, (1, v))
        f = self.fresh_fn(name, z3.IntSort(), V.Vec)
        if layout == 0: elem = lambda i, c: V.comp(f(tz(i)), tz(c))
        else: elem = lambda i, c: V.comp(f(tz(c)), tz(i))
        return ArrVal(shape, elem, z3.RealSort(), ('base', f), False, (layout, lambda i: f(tz(i))))
    def A(self, ref):
        """content of an array reference"""
        if isinstance(ref, ArrVal): return ref
        return self.st.heap[ref.id]
    def O(self, ref): return self.st.heap[ref.id]
    def attr(self, ref, name): return self.st.heap[ref.id].attrs[name]
    def assume(self, f):
        if f is True: return
        if self.st.guards: f = Implies(And(*self.st.guards), tz(f))
        self.st.pc.append(tz(f))
    def ob(self, name, goal, kind='vc', extra=None, using=None):
        """using: prove the goal from these facts alone (each must already be a fact of this path: it is looked up in the path condition, otherwise the whole
        path condition is sent) — a smaller query for steps whose justification is known"""
        base = (name, self.st.taken())
        nth = self.st.occ.get(base, 0); self.st.occ[base] = nth + 1
        key = (name, self.st.taken(), nth)
        if key in self.obls: return
        goal = tz(goal)
        assumptions = list(self.st.pc) + list(self.st.guards)
        axg = {g: list(v) for g, v in self.axgroups.items()} if self.axgroups else None
        if using is not None:
            facts = [tz(u) for u in using]
            if all(any(f.eq(a) for a in assumptions if z3.is_expr(a)) for f in facts):
                assumptions, axg = facts, None
        self.obls[key] = Obligation(name, assumptions, goal, self.st.taken(), kind, extra, axg)
    def choose(self, n, label=''):
        st = self.st
        if st.pos < len(st.prefix):
            c = st.prefix[st.pos]
        else:
            c = 0
            for k in range(1, n): st.siblings.append(tuple(st.prefix) + (k,))
            st.prefix.append(0)
        st.pos += 1
        return c
    def feasible(self, extra=None):
        key = self.st.taken()
        if key in self.feas_cache: return self.feas_cache[key]
        # stage 1: quantifier-free part only (fast, complete for linear arithmetic); stage 2: everything, under a resource limit
        # (timeouts are not honoured inside E-matching loops).  `unknown` counts as feasible: pruning is only an optimisation.
        qf = [f for f in self.st.pc if not _has_quant(f)]
        s = z3.Solver(); s.set('timeout', int(os.environ.get('PYVC_FEAS_MS', '400')))
        s.add(*qf)
        if extra is not None: s.add(extra)
        r = s.check()
        if r != z3.unsat and len(qf) < len(self.st.pc):
            s2 = z3.Solver(); s2.set('timeout', int(os.environ.get('PYVC_FEAS_MS', '400'))); s2.set('rlimit', 400000)
            s2.add(*self.st.pc)
            if extra is not None: s2.add(extra)
            r = s2.check()
        res = r != z3.unsat
        self.feas_cache[key] = res
        return res
    def branch(self, cond, label=''):
        """decide a (possibly symbolic) condition; forks"""
        cond = self.truth(cond)
        if isinstance(cond, bool): return cond
        cond = z3.simplify(cond)
        if z3.is_true(cond): return True
        if z3.is_false(cond): return False
        if self.st.guards: raise Unsupported("branch under short-circuit guard")
        c = self.choose(2, label)
        taken = cond if c == 0 else Not(cond)
        self.st.pc.append(taken)
        if not self.feasible(): raise Infeasible()
        return c == 0
    def truth(self, v):
        if isinstance(v, (bool, type(None), str, tuple, dict)): return bool(v)
        if isinstance(v, list): return len(v) > 0
        if isinstance(v, (int, float)): return v != 0
        if is_sym(v):
            if v.sort() == z3.BoolSort(): return v
            return v != 0
        if isinstance(v, ArrRef):
            a = self.A(v)
            if a.islist: return tz(a.shape[0]) > 0
            raise Unsupported("truth value of an array")
        return True
    def event(self, *e): self.st.events.append(e)
    def use_axioms(self, group, formulas):
        """background axioms (not path conditions): sent with every obligation emitted from now on, by group"""
        self.axgroups[group] = list(formulas)

    # ----- name resolution
    def resolve_global(self, modname, name):
        r = self.repo.lookup(modname, name)
        if r is None:
            if name in self.ext['builtins']: return self.ext['builtins'][name]
            raise Unsupported(f"unknown name {name} in {modname}")
        if isinstance(r, (ClassV, Func)): return r
        kind = r[0]
        if kind == 'extmod':
            top = r[1].split('.')[0]
            if top in self.ext['modules']:
                v = self.ext['modules'][top]
                for part in r[1].split('.')[1:]: v = getattr(v, part)
                return v
            raise Unsupported(f"external module {r[1]}")
        if kind == 'ext':
            key = f"{r[1]}.{r[2]}"
            if key in self.ext['names']: return self.ext['names'][key]
            if r[2] in self.ext['names']: return self.ext['names'][r[2]]
            raise Unsupported(f"external {key}")
        if kind == 'module': return ('module', r[1])
        if kind == 'const':
            return self.ev(r[1], {'$module': modname})
        raise Unsupported(f"name kind {kind}")

    # ----- class machinery
    def bases(self, cls):
        out = []
        for b in cls.node.bases:
            try: v = self.ev(b, {'$module': cls.module})
            except Unsupported: v = None
            if isinstance(v, ClassV): out.append(v)
        return out
    def mro(self, cls):
        # linearisation sufficient for single inheritance chains + external mixins (externals skipped)
        out = [cls]
        for b in self.bases(cls):
            for c in self.mro(b):
                if all(c.qual != x.qual for x in out): out.append(c)
        return out
    def find_method(self, cls, name, after=None):
        chain = self.mro(cls)
        if after is not None:
            quals = [c.qual for c in chain]
            chain = chain[quals.index(after.qual) + 1:]
        for c in chain:
            for n in c.node.body:
                if isinstance(n, ast.FunctionDef) and n.name == name:
                    return Func(c.module, n, f"{c.qual}.{name}", cls=c)
        return None
    def isinstance_(self, v, cls):
        if isinstance(cls, tuple): return any(self.isinstance_(v, c) for c in cls)
        if isinstance(v, ObjRef) and isinstance(cls, ClassV):
            return any(c.qual == cls.qual for c in self.mro(self.O(v).cls))
        if isinstance(cls, ExtClass) or isinstance(cls, type) or callable(cls):
            nm = getattr(cls, 'name', getattr(cls, '__name__', ''))
            if nm in ('int', 'Integral', 'numbers.Integral'): return is_int(v)
            if nm in ('float', 'Real', 'numbers.Real'): return (is_real(v) or is_int(v)) if nm != 'float' else is_real(v)
            if nm == 'bool': return is_boolv(v)
            if nm == 'str': return isinstance(v, str)
            if nm == 'dict': return isinstance(v, dict)
            if nm in ('list',): return isinstance(v, list) or (isinstance(v, ArrRef) and self.A(v).islist)
            if nm == 'tuple': return isinstance(v, tuple)
            if nm == 'ndarray': return isinstance(v, ArrRef) and not self.A(v).islist
            if nm == 'Callable' or nm == 'callable': return isinstance(v, (Func, Bound)) or callable(v)
        if isinstance(cls, ExtClass):
            # an external class: only external stub objects of that kind are instances
            if hasattr(v, '_pyvc_attrs'): return v._pyvc_attrs.get('kind') == cls.name
            if v is None or isinstance(v, (str, int, float, bool, tuple, list, dict, ArrRef)) or is_sym(v): return False
            if isinstance(v, ObjRef): return False
        raise Unsupported(f"isinstance({v}, {cls})")

    # ----- expressions
    def ev(self, e, F):
        m = getattr(self, 'e_' + type(e).__name__, None)
        if m is None: raise Unsupported(f"expression {type(e).__name__}: {ast.unparse(e)[:60]}")
        return m(e, F)
    def e_Constant(self, e, F): return e.value
    def e_JoinedStr(self, e, F): return Opaque('fstring')
    def e_Name(self, e, F):
        if e.id in F: return F[e.id]
        if '$closure' in F and F['$closure'] is not None:
            G = F['$closure']
            while G is not None:
                if e.id in G: return G[e.id]
                G = G.get('$closure')
        if e.id in self.ext['builtins'] and self.repo.lookup(F['$module'], e.id) is None:
            return self.ext['builtins'][e.id]
        return self.resolve_global(F['$module'], e.id)
    def e_Attribute(self, e, F):
        b = self.ev(e.value, F)
        return self.getattr_(b, e.attr, e)
    def getattr_(self, b, name, node=None):
        if isinstance(b, ObjRef):
            o = self.O(b)
            if name in o.attrs: return o.attrs[name]
            fn = self.find_method(o.cls, name)
            if fn is not None:
                if any(isinstance(d, ast.Name) and d.id == 'property' for d in fn.node.decorator_list):
                    return self.call_func(fn, [b], {})
                if any(isinstance(d, ast.Name) and d.id == 'staticmethod' for d in fn.node.decorator_list):
                    return fn
                return Bound(b, fn)
            if name in self.ext.get('obj_attrs', {}): return self.ext['obj_attrs'][name](self, b)
            raise RaiseEx('AttributeError', node)
        if isinstance(b, SuperV):
            fn = self.find_method(self.O(b.obj).cls, name, after=b.cls)
            if fn is None:
                if name in self.ext.get('super_methods', {}): return self.ext['super_methods'][name](self, b.obj)
                raise Unsupported(f"super().{name} resolves to an external base")
            return Bound(b.obj, fn)
        if isinstance(b, ArrRef):
            m = self.ext['arr_attrs'].get(name)
            if m is None: raise Unsupported(f"array attribute .{name}")
            return m(self, b)
        if isinstance(b, tuple) and len(b) == 2 and b[0] == 'module':
            return self.resolve_global(b[1], name)
        if isinstance(b, ClassV):
            for n in b.node.body:
                if isinstance(n, ast.FunctionDef) and n.name == name:
                    return Func(b.module, n, f"{b.qual}.{name}", cls=b)
            raise Unsupported(f"class attribute {b.qual}.{name}")
        if isinstance(b, dict) and name in ('get', 'items', 'keys', 'values', 'pop', 'update', 'copy'):
            m = getattr(b, name)
            return lambda I, *a, **k: (list(m(*a, **k)) if name in ('items', 'keys', 'values') else m(*a, **k))
        if isinstance(b, list) and name in ('append', 'extend', 'pop', 'index', 'copy', 'insert', 'count'):
            m = getattr(b, name)
            return lambda I, *a, **k: m(*a, **k)
        if isinstance(b, (ExtNS,)):
            if not hasattr(b, name): raise Unsupported(f"external {b._name}.{name}")
            return getattr(b, name)
        if is_sym(b) or isinstance(b, (int, float)):
            m = self.ext['num_attrs'].get(name)
            if m: return m(self, b)
        if hasattr(b, '_pyvc_attrs') and name in b._pyvc_attrs: return b._pyvc_attrs[name]
        raise Unsupported(f"attribute .{name} on {type(b).__name__}")
    def e_NamedExpr(self, e, F):
        v = self.ev(e.value, F)
        self.assign(e.target, v, F)
        return v
    def e_Tuple(self, e, F): return tuple(self.ev(x, F) for x in e.elts)
    def e_List(self, e, F): return [self.ev(x, F) for x in e.elts]
    def e_Dict(self, e, F): return {self.ev(k, F): self.ev(v, F) for k, v in zip(e.keys, e.values)}
    def e_Lambda(self, e, F):
        fn = ast.FunctionDef(name='<lambda>', args=e.args, body=[ast.Return(value=e.body)], decorator_list=[], lineno=e.lineno, col_offset=e.col_offset)
        ast.fix_missing_locations(fn)
        return Func(F['$module'], fn, F.get('$qual', '') + '.<lambda>', closure=F)
    def e_UnaryOp(self, e, F):
        v = self.ev(e.operand, F)
        if isinstance(e.op, ast.Not):
            t = self.truth(v)
            return (not t) if isinstance(t, bool) else Not(t)
        if isinstance(e.op, ast.USub):
            if isinstance(v, ArrRef): return self.ext['arr_unop']('neg', self, v)
            return -v
        if isinstance(e.op, ast.UAdd): return v
        if isinstance(e.op, ast.Invert) and isinstance(v, ArrRef): return self.ext['arr_unop']('not', self, v)
        raise Unsupported("unary op")
    def e_BoolOp(self, e, F):
        isand = isinstance(e.op, ast.And)
        vals = []
        pushed = 0
        try:
            last = None
            for sub in e.values:
                v = self.ev(sub, F)
                last = v
                t = self.truth(v)
                if isinstance(t, bool):
                    if isand and not t: return v if not vals else False
                    if (not isand) and t: return v if not vals else True
                    continue
                vals.append(t)
                self.st.guards.append(t if isand else Not(t)); pushed += 1
            if not vals: return last
            return And(*vals) if isand else Or(*vals)
        finally:
            for _ in range(pushed): self.st.guards.pop()
    def e_IfExp(self, e, F):
        c = self.truth(self.ev(e.test, F))
        if isinstance(c, bool): return self.ev(e.body if c else e.orelse, F)
        c = z3.simplify(c)
        if z3.is_true(c): return self.ev(e.body, F)
        if z3.is_false(c): return self.ev(e.orelse, F)
        self.st.guards.append(c)
        try: a = self.ev(e.body, F)
        finally: self.st.guards.pop()
        self.st.guards.append(Not(c))
        try: b = self.ev(e.orelse, F)
        finally: self.st.guards.pop()
        if isinstance(a, ArrRef) or isinstance(b, ArrRef) or a is None or b is None or isinstance(a, (str, tuple)):
            # not mergeable: fork instead
            if self.branch(c): return a
            return b
        return If(c, tz(a), tz(b))
    def cmp(self, op, a, b):
        if isinstance(op, ast.Is): return self.is_(a, b)
        if isinstance(op, ast.IsNot):
            r = self.is_(a, b); return (not r) if isinstance(r, bool) else Not(r)
        if isinstance(op, (ast.In, ast.NotIn)):
            r = self.contains(b, a)
            if isinstance(op, ast.In): return r
            return (not r) if isinstance(r, bool) else Not(r)
        if isinstance(a, ArrRef) or isinstance(b, ArrRef):
            return self.ext['arr_cmp'](self, op, a, b)
        nonnum = lambda x: isinstance(x, (str, type(None), Opaque, tuple, list, dict)) and not is_sym(x)
        if nonnum(a) or nonnum(b):
            if isinstance(op, (ast.Eq, ast.NotEq)):
                if is_sym(a) or is_sym(b): same = False
                else: same = (a == b)
                return same if isinstance(op, ast.Eq) else not same
            if isinstance(a, tuple) and isinstance(b, tuple) and not any(is_sym(x) for x in a + b):
                return {ast.Lt: a < b, ast.Gt: a > b, ast.LtE: a <= b, ast.GtE: a >= b}[type(op)]
            raise RaiseEx('TypeError')
        a2, b2 = a, b
        if is_sym(a) or is_sym(b):
            a2, b2 = tz(a), tz(b)
            if a2.sort() != b2.sort():
                if a2.sort() == z3.BoolSort(): a2 = If(a2, IntVal(1), IntVal(0))
                if b2.sort() == z3.BoolSort(): b2 = If(b2, IntVal(1), IntVal(0))
                if a2.sort() != b2.sort(): a2, b2 = to_real(a2), to_real(b2)
        f = {ast.Lt: lambda x, y: x < y, ast.Gt: lambda x, y: x > y, ast.LtE: lambda x, y: x <= y,
             ast.GtE: lambda x, y: x >= y, ast.Eq: lambda x, y: x == y, ast.NotEq: lambda x, y: x != y}[type(op)]
        return f(a2, b2)
    def is_(self, a, b):
        if a is None or b is None: return a is b
        if isinstance(a, (ArrRef, ObjRef)) and isinstance(b, (ArrRef, ObjRef)): return type(a) is type(b) and a.id == b.id
        if isinstance(a, bool) or isinstance(b, bool): return a is b
        return a is b
    def contains(self, container, item):
        if isinstance(container, (list, tuple, dict, str)) and not is_sym(item):
            if isinstance(container, (list, tuple)) and any(is_sym(x) for x in container):
                return Or(*[tz(x) == tz(item) for x in container])
            return item in container
        if isinstance(container, (list, tuple)):
            nums = [x for x in container if not isinstance(x, (str, type(None)))]
            if not nums: return False
            return Or(*[tz(x) == item for x in nums])
        if isinstance(container, ArrRef):
            a = self.A(container)
            if a.ndim == 1:
                k = z3.Int('k!in')
                return Exists([k], And(0 <= k, k < tz(a.shape[0]), a.elem(k) == tz(item)))
        raise Unsupported("membership test")
    def e_Compare(self, e, F):
        left = self.ev(e.left, F); res = []
        for op, c in zip(e.ops, e.comparators):
            r = self.ev(c, F); res.append(self.cmp(op, left, r)); left = r
        if len(res) == 1: return res[0]
        if all(isinstance(x, bool) for x in res): return all(res)
        return And(*[tz(x) for x in res])
    def e_BinOp(self, e, F):
        a, b = self.ev(e.left, F), self.ev(e.right, F)
        return self.binop(type(e.op), a, b, e)
    def binop(self, op, a, b, node=None):
        if isinstance(a, ArrRef) or isinstance(b, ArrRef):
            return self.ext['arr_binop'](self, op, a, b, node)
        if hasattr(a, '_pyvc_binop'): return a._pyvc_binop(self, op, a, b)
        if hasattr(b, '_pyvc_binop'): return b._pyvc_binop(self, op, a, b)
        if isinstance(a, (list, tuple)) and isinstance(b, (list, tuple)) and op is ast.Add: return a + b
        if isinstance(a, list) and op is ast.Mult and isinstance(b, int): return a * b
        if isinstance(a, str) or isinstance(b, str) or isinstance(a, Opaque) or isinstance(b, Opaque): return Opaque('str')
        if a is None or b is None: raise RaiseEx('TypeError', node)
        if isinstance(a, bool): a = int(a)
        if isinstance(b, bool): b = int(b)
        sym = is_sym(a) or is_sym(b)
        if not sym:
            try:
                return {ast.Add: lambda x, y: x + y, ast.Sub: lambda x, y: x - y, ast.Mult: lambda x, y: x * y,
                        ast.Div: lambda x, y: x / y, ast.FloorDiv: lambda x, y: x // y, ast.Mod: lambda x, y: x % y,
                        ast.Pow: lambda x, y: x ** y}[op](a, b)
            except ZeroDivisionError:
                raise RaiseEx('ZeroDivisionError', node)
        a, b = tz(a), tz(b)
        if a.sort() == z3.BoolSort(): a = If(a, IntVal(1), IntVal(0))
        if b.sort() == z3.BoolSort(): b = If(b, IntVal(1), IntVal(0))
        bothint = a.sort() == z3.IntSort() and b.sort() == z3.IntSort()
        if op is ast.Add: return a + b
        if op is ast.Sub: return a - b
        if op is ast.Mult: return a * b
        if op is ast.Div:
            # numpy/float division by zero is not an exception (inf/nan + warning); over the reals x/0 is left unspecified
            return to_real(a) / to_real(b)
        if op is ast.FloorDiv:
            if bothint:
                self.ob(f"div-nonzero:{ast.unparse(node) if node is not None else ''}", b != 0, kind='safety')
                # python floor division; SMT div is Euclidean: equal for b > 0; for b < 0 adjust
                return If(b > 0, a / b, -((-a) / (-b)) if False else If(a % (-b) == 0, -(a / (-b)), -(a / (-b)) - 1))
            return z3.ToReal(z3.ToInt(to_real(a) / to_real(b)))
        if op is ast.Mod:
            if bothint:
                self.ob(f"mod-nonzero:{ast.unparse(node) if node is not None else ''}", b != 0, kind='safety')
                return If(b > 0, a % b, -((-a) % (-b)))
            raise Unsupported("float modulo")
        if op is ast.Pow:
            bb = conc(b)
            sb = z3.simplify(b)
            if z3.is_rational_value(sb) and sb.denominator_as_long() == 1 and 0 <= sb.numerator_as_long() <= 4: bb = sb.numerator_as_long()
            if bb == 2 and z3.is_app(a) and a.decl().name() == 'sqrt' and a.num_args() == 1:
                x_ = a.arg(0)
                if z3.is_app(x_) and x_.decl().name() == 'fro2': return x_      # squared Frobenius norms are non-negative by definition
                return If(x_ >= 0, x_, a * a)       # sqrt(x)^2 = x for x >= 0 (definition of the square root)
            if isinstance(bb, int) and 0 <= bb <= 4:
                r = IntVal(1) if a.sort() == z3.IntSort() else RealVal(1)
                for _ in range(bb): r = r * a
                return r
            s = z3.simplify(b)
            if z3.is_rational_value(s) and s.numerator_as_long() == 1 and s.denominator_as_long() == 2:
                return self.ext['sqrt'](self, a)
            if self.ext.get('pow_hook'): return self.ext['pow_hook'](self, a, b)
            raise Unsupported("symbolic power")
        raise Unsupported(f"binop {op.__name__}")
    def e_Subscript(self, e, F):
        b = self.ev(e.value, F)
        ix = self.ev_index(e.slice, F)
        return self.subscript(b, ix, e)
    def ev_index(self, s, F):
        if isinstance(s, ast.Slice):
            return slice(*(None if x is None else self.ev(x, F) for x in (s.lower, s.upper, s.step)))
        if isinstance(s, ast.Tuple):
            return tuple(self.ev_index(x, F) for x in s.elts)
        return self.ev(s, F)
    def subscript(self, b, ix, node=None):
        if isinstance(b, (tuple, list)) and not isinstance(ix, (ArrRef, tuple)):
            if isinstance(ix, slice):
                if any(is_sym(x) for x in (ix.start, ix.stop, ix.step)): raise Unsupported("symbolic slice of concrete list")
                return b[ix]
            i = conc(ix)
            if is_sym(i):
                # symbolic index into a concrete list of numbers
                self.ob(f"index:{ast.unparse(node) if node is not None else ''}", And(i >= -len(b), i < len(b)), kind='safety')
                vals = [tz(x) for x in b]
                r = vals[-1]
                for k in range(len(vals) - 2, -1, -1): r = If(Or(i == k, i == k - len(b)), vals[k], r)
                return r
            try: return b[i]
            except IndexError: raise RaiseEx('IndexError', node)
        if isinstance(b, dict):
            try: return b[ix]
            except KeyError: raise RaiseEx('KeyError', node)
        if isinstance(b, ArrRef):
            return self.ext['arr_getitem'](self, b, ix, node)
        if hasattr(b, '_pyvc_getitem'): return b._pyvc_getitem(self, b, ix)
        raise Unsupported(f"subscript of {type(b).__name__}")
    def e_Call(self, e, F):
        if isinstance(e.func, ast.Name) and e.func.id == 'super' and not e.args:
            return SuperV(F['self'], F['$cls'])
        f = self.ev(e.func, F)
        args = []
        for a in e.args:
            if isinstance(a, ast.Starred):
                v = self.ev(a.value, F)
                if not isinstance(v, (list, tuple)): raise Unsupported("*args of symbolic sequence")
                args += list(v)
            else:
                if isinstance(a, ast.GeneratorExp): args.append(self.e_ListComp(a, F))
                else: args.append(self.ev(a, F))
        kw = {}
        for k in e.keywords:
            if k.arg is None:
                v = self.ev(k.value, F)
                if not isinstance(v, dict): raise Unsupported("**kwargs non-dict")
                kw.update(v)
            else: kw[k.arg] = self.ev(k.value, F)
        return self.call(f, args, kw, e)
    def call(self, f, args, kw, node=None):
        if isinstance(f, Bound): return self.call_func(f.func, [f.obj] + list(args), kw, node)
        if isinstance(f, Func): return self.call_func(f, list(args), kw, node)
        if isinstance(f, ClassV): return self.instantiate(f, args, kw, node)
        if isinstance(f, type) and issubclass(f, BaseException): return ('exc', f.__name__)
        if isinstance(f, ExtClass):
            if hasattr(f, 'ctor'): return f.ctor(self, *args, **kw)
            return ('exc', f.name)
        if callable(f):
            self.curnode = node
            return f(self, *args, **kw)
        raise Unsupported(f"call of {f}")
    def instantiate(self, cls, args, kw, node=None):
        o = self.new_obj(cls)
        init = self.find_method(cls, '__init__')
        if init is not None: self.call_func(init, [o] + list(args), kw, node)
        return o
    def bind_args(self, fn, args, kw, F0):
        a = fn.node.args
        names = [x.arg for x in a.posonlyargs + a.args]
        F = dict(F0)
        if len(args) > len(names) and not a.vararg: raise RaiseEx('TypeError')
        for nme, v in zip(names, args): F[nme] = v
        if a.vararg: F[a.vararg.arg] = tuple(args[len(names):])
        defaults = a.defaults; nd = len(defaults)
        kw = dict(kw)
        for i, nme in enumerate(names):
            if i < len(args): continue
            if nme in kw: F[nme] = kw.pop(nme)
            elif i >= len(names) - nd: F[nme] = self.ev(defaults[i - (len(names) - nd)], F0)
            else: raise RaiseEx('TypeError')
        for x, d in zip(a.kwonlyargs, a.kw_defaults):
            if x.arg in kw: F[x.arg] = kw.pop(x.arg)
            elif d is not None: F[x.arg] = self.ev(d, F0)
            else: raise RaiseEx('TypeError')
        if a.kwarg: F[a.kwarg.arg] = kw
        elif kw: raise RaiseEx('TypeError')
        return F
    def call_func(self, fn, args, kw, node=None):
        fc = self.func_contracts.get(fn.qual)
        if fc is not None and fn.qual not in self.call_stack[:1] and not getattr(self, 'inline_all', False):
            return self.call_modular(fn, fc, args, kw, node)
        if len(self.call_stack) > 40: raise Unsupported("recursion depth")
        F0 = {'$module': fn.module, '$qual': fn.qual, '$cls': fn.cls, '$closure': fn.closure, '$func': fn}
        F = self.bind_args(fn, args, kw, F0)
        if self.call_stack: self.inlined.add(fn.qual)
        self.call_stack.append(fn.qual)
        try:
            self.exec_block(fn.node.body, F)
            return None
        except ReturnEx as r:
            return r.v
        finally:
            self.call_stack.pop()
    def call_modular(self, fn, fc, args, kw, node):
        F0 = {'$module': fn.module, '$qual': fn.qual, '$cls': fn.cls, '$closure': fn.closure}
        F = self.bind_args(fn, args, kw, F0)
        self.under_contract.add(fn.qual)
        if fc.requires:
            site = ''
            if node is not None:
                try: site = '@' + ' '.join(ast.unparse(node).split())[:70]
                except Exception: site = ''
            for label, g in fc.requires(self, F):
                self.ob(f"pre-at-call:{fn.qual.split('.')[-1]}:{label}{site}", g, kind='pre')
        old = {}
        if fc.modifies_self:
            old['$heap'] = self.snapshot()
            me = F['self']; o = self.O(me)
            for m in fc.modifies_self:
                typ = None
                if isinstance(m, tuple): m, typ = m
                if m not in o.attrs: continue
                cur = o.attrs[m]
                if isinstance(cur, ArrRef) and typ is not None and typ[0] == 'vec':
                    o.attrs[m] = self.new_arr(self.fresh_vec_arrval(m + '_post', self.A(cur).shape, typ[1]))
                elif isinstance(cur, ArrRef):
                    o.attrs[m] = self.havoc_value(self.new_arr(self.A(cur)), m + '_post', False)
                else:
                    o.attrs[m] = self.havoc_value(cur, m + '_post', False)
        for m in fc.modifies:
            old[m] = self.A(F[m])
            a = old[m]
            f = self.fresh_fn(m + '_post', *([z3.IntSort()] * a.ndim + [a.sort]))
            self.st.heap[F[m].id] = ArrVal(a.shape, (lambda f: lambda *ix: f(*[tz(i) for i in ix]))(f), a.sort)
        if fc.assign_self:
            for k_, v_ in fc.assign_self(self, F, old).items(): self.O(F['self']).attrs[k_] = v_
        res = fc.make_result(self, F) if fc.make_result else None
        if fc.ensures:
            for label, g in fc.ensures(self, F, res, old): self.assume(g)
        return res

    # comprehension over concrete lists / symbolic arrays (bound index)
    def e_ListComp(self, e, F):
        if len(e.generators) != 1: raise Unsupported("nested comprehension")
        g = e.generators[0]
        it = self.ev(g.iter, F)
        if isinstance(it, RangeV) and not is_sym(conc(it.lo)) and not is_sym(conc(it.hi)):
            it = list(range(conc(it.lo), conc(it.hi)))
        if isinstance(it, (list, tuple)) or (isinstance(it, zip)):
            out = []
            for x in it:
                G = dict(F); self.assign(g.target, x, G)
                ok = True
                for c in g.ifs:
                    if not self.branch(self.ev(c, G)): ok = False
                if ok: out.append(self.ev(e.elt, G))
            return out
        if 'comp_sym' in self.ext: return self.ext['comp_sym'](self, e, g, it, F)
        raise Unsupported("comprehension over symbolic iterable")
    e_GeneratorExp = e_ListComp
    def e_DictComp(self, e, F):
        if len(e.generators) != 1: raise Unsupported("nested comprehension")
        g = e.generators[0]
        it = self.ev(g.iter, F)
        if isinstance(it, RangeV) and not is_sym(conc(it.lo)) and not is_sym(conc(it.hi)): it = list(range(conc(it.lo), conc(it.hi)))
        if isinstance(it, (list, tuple)) and not g.ifs:
            out = {}
            for x in it:
                G = dict(F); self.assign(g.target, x, G)
                out[self.ev(e.key, G)] = self.ev(e.value, G)
            return out
        if 'dictcomp_sym' in self.ext: return self.ext['dictcomp_sym'](self, e, g, it, F)
        raise Unsupported("dict comprehension over symbolic iterable")

    # ----- statements
    def exec_block(self, stmts, F):
        for s in stmts:
            m = getattr(self, 's_' + type(s).__name__, None)
            if m is None: raise Unsupported(f"statement {type(s).__name__}")
            m(s, F)
    def s_Expr(self, s, F):
        if isinstance(s.value, ast.Constant): return
        self.ev(s.value, F)
    def s_Pass(self, s, F): pass
    def s_Import(self, s, F): pass
    def s_ImportFrom(self, s, F): pass
    def s_Assert(self, s, F):
        self.ob(f"assert:{ast.unparse(s.test)}", self.truth(self.ev(s.test, F)), kind='safety')
    def s_FunctionDef(self, s, F):
        F[s.name] = Func(F['$module'], s, F.get('$qual', '') + '.' + s.name, closure=F)
    def s_Assign(self, s, F):
        v = self.ev(s.value, F)
        for t in s.targets: self.assign(t, v, F)
    def s_AnnAssign(self, s, F):
        if s.value is not None: self.assign(s.target, self.ev(s.value, F), F)
    def assign(self, t, v, F):
        if isinstance(t, ast.Name): F[t.id] = v
        elif isinstance(t, (ast.Tuple, ast.List)):
            if isinstance(v, ArrRef):
                a = self.A(v)
                n = conc(a.shape[0])
                if is_sym(n): raise Unsupported("unpacking symbolic-length array")
                v = [self.subscript(v, k) for k in range(n)]
            if len(v) != len(t.elts): raise RaiseEx('ValueError')
            for tt, vv in zip(t.elts, v): self.assign(tt, vv, F)
        elif isinstance(t, ast.Attribute):
            o = self.ev(t.value, F)
            if not isinstance(o, ObjRef): raise Unsupported("attribute store on non-object")
            self.O(o).attrs[t.attr] = v
            self.event('setattr', o.id, t.attr)
        elif isinstance(t, ast.Subscript):
            b = self.ev(t.value, F)
            ix = self.ev_index(t.slice, F)
            if isinstance(b, list):
                i = conc(ix)
                if is_sym(i): raise Unsupported("symbolic store into concrete list")
                b[i] = v
            elif isinstance(b, dict): b[ix] = v
            elif isinstance(b, ArrRef): self.ext['arr_setitem'](self, b, ix, v, t)
            else: raise Unsupported("subscript store")
        else: raise Unsupported("assignment target")
    def s_AugAssign(self, s, F):
        t = s.target
        cur = self.ev(t, F)
        v = self.ev(s.value, F)
        if isinstance(cur, ArrRef) and isinstance(t, (ast.Name, ast.Attribute)):
            # in-place on the array cell
            r = self.binop(type(s.op), cur, v, s)
            self.st.heap[cur.id] = ArrVal(self.A(cur).shape, self.A(r).elem, self.A(r).sort, self.A(r).tag, self.A(cur).islist, self.A(r).vecs)
            self.event('inplace', cur.id)
            return
        if isinstance(cur, list) and isinstance(s.op, ast.Add):
            cur.extend(v); return
        r = self.binop(type(s.op), cur, v, s)
        self.assign(t, r, F)
    def s_If(self, s, F):
        c = self.ev(s.test, F)
        if self.branch(c, f"if:{s.lineno}"): self.exec_block(s.body, F)
        else: self.exec_block(s.orelse, F)
    def s_Raise(self, s, F):
        kind = 'Exception'
        if s.exc is not None:
            try:
                v = self.ev(s.exc, F)
                if isinstance(v, tuple) and v and v[0] == 'exc': kind = v[1]
                elif isinstance(v, ExtClass): kind = v.name
                elif isinstance(v, type): kind = v.__name__
            except Unsupported: pass
        raise RaiseEx(kind, s)
    def s_Return(self, s, F):
        raise ReturnEx(self.ev(s.value, F) if s.value is not None else None)
    def s_Break(self, s, F): raise BreakEx()
    def s_Continue(self, s, F): raise ContinueEx()
    def s_Try(self, s, F):
        try:
            self.exec_block(s.body, F)
        except RaiseEx as r:
            for h in s.handlers:
                names = []
                if h.type is None: names = None
                else:
                    ts = h.type.elts if isinstance(h.type, ast.Tuple) else [h.type]
                    names = [ast.unparse(x).split('.')[-1] for x in ts]
                if names is None or r.kind in names or 'Exception' in names or 'BaseException' in names:
                    if h.name: F[h.name] = Opaque('exception')
                    self.exec_block(h.body, F)
                    break
            else: raise
        else:
            self.exec_block(s.orelse, F)
        finally:
            pass
        self.exec_block(s.finalbody, F)
    def s_With(self, s, F):
        self.exec_block(s.body, F)
    def s_Delete(self, s, F):
        for t in s.targets:
            if isinstance(t, ast.Name): F.pop(t.id, None)
            elif isinstance(t, ast.Attribute):
                o = self.ev(t.value, F); self.O(o).attrs.pop(t.attr, None)
            else: raise Unsupported("del target")

    # ----- loops
    def loop_ordinal(self, F, s):
        """ordinal (static source order) of a loop in its function -- the key of its sidecar contract.  Guard against ordinal drift: the signature (loop
        header text) of every contracted loop is recorded with the baseline; when the loop now found at an ordinal has another signature than recorded, the
        contract meant for THIS loop is looked up by signature (an edit that adds, removes or reorders other loops must not attach a contract to the wrong
        loop); a pure rename (same number of loops) keeps the ordinal; anything else leaves the interpretable subset (undecided, never a verdict)."""
        fn = F.get('$func')
        key = id(fn.node) if fn else None
        if key not in self.loop_ord_cache:
            loops = [n for n in ast.walk(fn.node) if isinstance(n, (ast.For, ast.While))]
            loops.sort(key=lambda n: (n.lineno, n.col_offset))
            self.loop_ord_cache[key] = ({id(n): k for k, n in enumerate(loops)}, len(loops))
        ords, nloops = self.loop_ord_cache[key]
        k = ords[id(s)]
        qual = F['$qual']
        if (qual, k) not in self.loop_contracts and not any(q == qual for q, _ in self.loop_contracts): return k
        sig = loop_signature(s)
        SEEN_LOOPS.setdefault('sigs', {})[f'{qual}#{k}'] = sig; SEEN_LOOPS.setdefault('nloops', {})[qual] = nloops
        exp = EXPECTED_LOOPS.get('sigs', {})
        mine = exp.get(f'{qual}#{k}')
        if not exp or mine == sig or not any(key_.startswith(qual + '#') for key_ in exp): return k
        cands = [int(key_.split('#')[-1]) for key_, e in exp.items() if key_.startswith(qual + '#') and e == sig]
        if len(cands) == 1:
            SEEN_LOOPS['sigs'].pop(f'{qual}#{k}', None)
            return cands[0]
        if EXPECTED_LOOPS.get('nloops', {}).get(qual) == nloops: return k          # same loops, renamed header
        raise Unsupported(f"the loops of {qual} changed: no contract can be attached to `{sig}`")
    def s_For(self, s, F):
        it = self.ev(s.iter, F)
        if isinstance(it, RangeV):
            lo, hi = conc(it.lo), conc(it.hi)
            if not is_sym(lo) and not is_sym(hi): it = list(range(lo, hi))
        if isinstance(it, ArrRef):
            a = self.A(it); n = conc(a.shape[0])
            if not is_sym(n): it = [self.subscript(it, k) for k in range(n)]
        if isinstance(it, zip): it = list(it)
        if isinstance(it, (list, tuple)):
            if isinstance(it, list) and it and isinstance(it[0], tuple) and it[0] and it[0][0] == '$enum':
                it = [(k, x) for k, (_, x) in enumerate(it)]
            for x in it:
                self.assign(s.target, x, F)
                try: self.exec_block(s.body, F)
                except BreakEx: break
                except ContinueEx: continue
            else:
                self.exec_block(s.orelse, F)
            return
        if isinstance(it, RangeV):
            return self.cut_loop(s, F, it)
        if isinstance(it, EnumV) and isinstance(s.target, ast.Tuple) and len(s.target.elts) == 2 and all(isinstance(e_, ast.Name) for e_ in s.target.elts) and conc(it.start) == 0:
            # for i, x in enumerate(<array of symbolic length>): cut like `for i in range(len(a)): x = a[i]`
            return self.cut_loop(s, F, RangeV(0, self.A(it.arr).shape[0]), over=self.A(it.arr), enum=(s.target.elts[0].id, s.target.elts[1].id))
        if hasattr(it, '_pyvc_for'):
            return it._pyvc_for(self, s, F)
        if isinstance(it, ArrRef) and isinstance(s.target, ast.Name):
            # for c in <array of symbolic length>: cut like `for k in range(len(a)): c = a[k]` (the array value is snapshotted, as numpy iterates the original buffer)
            return self.cut_loop(s, F, RangeV(0, self.A(it).shape[0]), over=self.A(it))
        raise Unsupported(f"for over {type(it).__name__}")
    def s_While(self, s, F):
        key = (F['$qual'], self.loop_ordinal(F, s))
        lc = self.loop_contracts.get(key)
        if lc is None:
            # concrete while: unroll while the condition stays concrete
            n = 0
            while True:
                c = self.truth(self.ev(s.test, F))
                if not isinstance(c, bool):
                    c = conc(z3.simplify(c))
                if not isinstance(c, bool): raise Unsupported(f"while loop {key} without contract")
                if not c: break
                n += 1
                if n > 64: raise Unsupported("unbounded concrete while")
                try: self.exec_block(s.body, F)
                except BreakEx: break
                except ContinueEx: continue
            return
        return self.cut_loop(s, F, None)

    def written_in(self, body, F, depth=0, seen=None):
        """names / self-attributes / arrays possibly written by executing `body` (syntactic, transitive over repo calls)"""
        names, attrs = set(), set()
        seen = seen if seen is not None else set()
        def target(t):
            if isinstance(t, ast.Name): names.add(t.id)
            elif isinstance(t, (ast.Tuple, ast.List)):
                for x in t.elts: target(x)
            elif isinstance(t, ast.Attribute):
                if isinstance(t.value, ast.Name) and t.value.id == 'self': attrs.add(t.attr)
                else: names.add(ast.unparse(t.value).split('.')[0].split('[')[0])
            elif isinstance(t, ast.Subscript):
                base = t.value
                while isinstance(base, ast.Subscript): base = base.value
                target(base)
        for node in body:
            for n in ast.walk(node):
                if isinstance(n, ast.Assign):
                    for t in n.targets: target(t)
                elif isinstance(n, (ast.AugAssign, ast.AnnAssign)): target(n.target)
                elif isinstance(n, ast.For): target(n.target)
                elif isinstance(n, ast.Call):
                    f = n.func
                    if isinstance(f, ast.Attribute):
                        if f.attr in ('append', 'extend', 'pop', 'insert', 'sort', 'fill', 'remove'): target(f.value)
                        if isinstance(f.value, ast.Name) and f.value.id == 'self' or (isinstance(f.value, ast.Call) and isinstance(f.value.func, ast.Name) and f.value.func.id == 'super'):
                            # repo method call: transitive attribute writes
                            cls = self.O(F['self']).cls if 'self' in F and isinstance(F['self'], ObjRef) else None
                            if cls is not None:
                                after = F.get('$cls') if isinstance(f.value, ast.Call) else None
                                m = self.find_method(cls, f.attr, after=after)
                                if m is not None and m.qual not in seen and depth < 6:
                                    seen.add(m.qual)
                                    G = {'self': F['self'], '$cls': m.cls}
                                    n2, a2 = self.written_in(m.node.body, G, depth + 1, seen)
                                    attrs |= a2
                                    # arrays passed as arguments could be mutated: treat out-params conservatively
                    for k in n.keywords:
                        if k.arg == 'out': target(k.value)
                    fn = ast.unparse(f)
                    if fn in ('np.minimum', 'np.maximum') and len(n.args) == 3: target(n.args[2])
                    if fn in ('np.fill_diagonal',) and n.args: target(n.args[0])
        return names, attrs

    def inv_items(self, r):
        """an invariant is a formula or a list of (label, formula)"""
        if isinstance(r, (list, tuple)): return [(l, tz(f)) for l, f in r]
        return [('', tz(r))]
    def snapshot(self):
        """pre-state of the heap (object attribute maps are copied; array values are immutable)"""
        return {k: (ObjVal(v.cls, dict(v.attrs)) if isinstance(v, ObjVal) else v) for k, v in self.st.heap.items()}
    def havoc_value(self, v, name, shape_too):
        if isinstance(v, ArrRef):
            a = self.A(v)
            shape = a.shape
            if shape_too:
                shape = tuple(self.fresh(f"{name}_dim{k}", z3.IntSort()) for k in range(a.ndim))
                for d in shape: self.st.pc.append(d >= 0)
            if a.vecs is not None and a.sort == z3.RealSort():
                nv = self.fresh_vec_arrval(name, shape, a.vecs[0] if a.ndim == 2 else 0)
                if shape_too: return self.new_arr(nv)
                self.st.heap[v.id] = nv
                return v
            f = self.fresh_fn(name, *([z3.IntSort()] * a.ndim + [a.sort]))
            if shape_too:
                return self.new_arr(ArrVal(shape, (lambda f: lambda *ix: f(*[tz(i) for i in ix]))(f), a.sort, ('base', f), a.islist))
            self.st.heap[v.id] = ArrVal(shape, (lambda f: lambda *ix: f(*[tz(i) for i in ix]))(f), a.sort, ('base', f), a.islist)
            return v
        if isinstance(v, bool): return self.fresh(name, z3.BoolSort())
        if isinstance(v, int): return self.fresh(name, z3.IntSort())
        if isinstance(v, float): return self.fresh(name, z3.RealSort())
        if is_sym(v): return self.fresh(name, v.sort())
        if isinstance(v, list):
            from .npstubs import from_list
            r = from_list(self, v)
            a = self.A(r)
            self.st.heap[r.id] = ArrVal(a.shape, a.elem, a.sort, None, True)
            return self.havoc_value(r, name, True)
        return v   # None, strings, objects: left as is (contracts must not rely on them changing)

    def cut_loop(self, s, F, rng, over=None, enum=None):
        qual = F['$qual']; k = self.loop_ordinal(F, s)
        lc = self.loop_contracts.get((qual, k))
        if lc is None: raise Unsupported(f"loop {qual}#{k} has no contract")
        self.under_contract.add(qual)
        short = qual.split('.')[-1]
        isfor = rng is not None
        if isfor and enum is None and not isinstance(s.target, ast.Name): raise Unsupported("for target")
        var = (enum[0] if enum is not None else s.target.id) if isfor else None
        elemvar = None
        if enum is not None: elemvar = enum[1]
        elif over is not None:
            elemvar = var; var = f"$k{k}"
        lo = tz(rng.lo) if isfor else IntVal(0)
        hi = tz(rng.hi) if isfor else None
        names, attrs = self.written_in(s.body, F)
        names |= set(m for m in lc.modifies if not m.startswith('self.'))
        attrs |= set(m[5:] for m in lc.modifies if m.startswith('self.'))
        names -= set(lc.keep)
        if var: names.discard(var)
        if elemvar: names.discard(elemvar)
        # rebinding vs in-place
        rebound_names, rebound_attrs = set(), set()
        for node in s.body:
            for n in ast.walk(node):
                ts = []
                if isinstance(n, ast.Assign): ts = n.targets
                elif isinstance(n, ast.AugAssign): ts = []
                for t in ts:
                    for x in (t.elts if isinstance(t, (ast.Tuple, ast.List)) else [t]):
                        if isinstance(x, ast.Name): rebound_names.add(x.id)
                        if isinstance(x, ast.Attribute): rebound_attrs.add(x.attr)
        selfref = F.get('self') if isinstance(F.get('self'), ObjRef) else None
        ghost0 = {g: init(self, F) for g, (init, step) in lc.ghost.items()}
        # (1) init
        if isfor: F[var] = lo
        for label, f_ in self.inv_items(lc.inv(self, F, lo, ghost0)):
            self.ob(f"{short}/loop{k}-init" + (f":{label}" if label else ''), f_, kind='loop-init')
        c = self.choose(2, f"loop{k}")
        # havoc
        def havoc():
            for nme in sorted(names):
                if nme in lc.types: F[nme] = self.fresh(nme, lc.types[nme])
                elif nme in F: F[nme] = self.havoc_value(F[nme], nme, nme in rebound_names)
            if selfref is not None:
                o = self.O(selfref)
                for a in sorted(attrs):
                    if 'self.' + a in lc.types and isinstance(lc.types['self.' + a], tuple):
                        # ('vec', axis): keep/establish the vector-level representation of a 2-D real buffer
                        cur_ = self.A(o.attrs[a])
                        shp = tuple(self.fresh(f"{a}_dim{k_}", z3.IntSort()) for k_ in range(cur_.ndim))
                        for d_ in shp: self.st.pc.append(d_ >= 0)
                        o.attrs[a] = self.new_arr(self.fresh_vec_arrval(a, shp, lc.types['self.' + a][1]))
                    elif 'self.' + a in lc.types: o.attrs[a] = self.fresh(a, lc.types['self.' + a])
                    elif a in o.attrs: o.attrs[a] = self.havoc_value(o.attrs[a], a, True)
            g = {}
            for gname in lc.ghost:
                v0 = ghost0[gname]
                if gname in lc.const_ghost: g[gname] = v0
                else: g[gname] = self.havoc_value(v0, 'ghost_' + gname, False) if not isinstance(v0, ArrRef) else self.havoc_value(self.new_arr(self.A(v0)), 'ghost_' + gname, False)
            return g
        if c == 0:
            # arbitrary iteration
            g = havoc()
            i = self.fresh(var or 'iter', z3.IntSort())
            if isfor:
                F[var] = i
                self.st.pc += [i >= lo, i < hi]
                if elemvar: F[elemvar] = over.elem(i) if over.ndim == 1 else self.subscript(self.new_arr(over), i)
            else:
                self.st.pc.append(i >= 0)
            for _, f_ in self.inv_items(lc.inv(self, F, i, g)): self.st.pc.append(tz(f_))
            if not isfor:
                cnd = self.truth(self.ev(s.test, F))
                self.st.pc.append(tz(cnd))
            if not self.feasible(): raise Infeasible()
            self.ob(f"{short}/loop{k}-canary", BoolVal(False), kind='canary')
            Fpre = dict(F)
            heap_pre = self.snapshot()
            dec0 = lc.decreases(self, F) if lc.decreases else None
            try:
                try:
                    self.exec_block(s.body, F)
                except ContinueEx:
                    pass
                g2 = {gname: (g[gname] if gname in lc.const_ghost else step(self, Fpre, F, g[gname], heap_pre)) for gname, (init, step) in lc.ghost.items()}
                if isfor: F[var] = i + 1
                if lc.hints:
                    for label, h in lc.hints(self, Fpre, F, i, g, g2):
                        self.ob(f"{short}/loop{k}-step-hint:{label}", h, kind='loop-step')
                        self.st.pc.append(tz(h))
                for label, f_ in self.inv_items(lc.inv(self, F, i + 1, g2)):
                    self.ob(f"{short}/loop{k}-step" + (f":{label}" if label else ''), f_, kind='loop-step')
                if dec0 is not None:
                    d1 = lc.decreases(self, F)
                    self.ob(f"{short}/loop{k}-decreases", And(d1 < dec0, dec0 >= 0), kind='termination')
                raise PathEnd()
            except BreakEx:
                F['$ghost%d' % k] = g
                self.last_ghost[(qual, k)] = g
                # leaving the loop from inside an iteration: recorded like a `return` inside the loop (an early exit written with `break` + the code
                # after the loop is the same control flow as one written with `return`)
                self.last_ghost[(qual, k, 'returned-inside')] = (i, Fpre)
                return
            except ReturnEx:
                self.last_ghost[(qual, k)] = g
                self.last_ghost[(qual, k, 'returned-inside')] = (i, Fpre)
                raise
        else:
            g = havoc()
            if isfor:
                end = If(hi > lo, hi, lo)
                for _, f_ in self.inv_items(lc.inv(self, F, end, g)): self.st.pc.append(tz(f_))
                F[var] = end - 1     # python leaves the last value; undefined if the loop did not run
            else:
                i = self.fresh('iter', z3.IntSort()); self.st.pc.append(i >= 0)
                for _, f_ in self.inv_items(lc.inv(self, F, i, g)): self.st.pc.append(tz(f_))
                cnd = self.truth(self.ev(s.test, F))
                self.st.pc.append(tz(Not(cnd)) if is_sym(cnd) else BoolVal(not cnd))
            if not self.feasible(): raise Infeasible()
            F['$ghost%d' % k] = g
            self.last_ghost[(qual, k)] = g
            self.exec_block(s.orelse, F)

    # ----- driver
    def explore(self, body_fn, max_paths=4000):
        """body_fn(I) runs one path on self.st; returns list of per-path results"""
        work = [()]
        results = []
        while work:
            prefix = work.pop()
            self.st = State(prefix)
            self.call_stack = []
            self.last_ghost = {}
            self.axgroups = {}
            try:
                r = body_fn(self)
                # vacuity canary at the end of every completed path: assumptions + background axioms must not be contradictory
                self.ob('path-end-canary', BoolVal(False), kind='canary')
                results.append(('ok', self.st, r))
            except PathEnd:
                results.append(('end', self.st, None))
            except Infeasible:
                results.append(('infeasible', self.st, None))
            except RaiseEx as r:
                results.append(('raise', self.st, r))
            except (BreakEx, ContinueEx):
                raise Unsupported("break/continue outside loop")
            work += self.st.siblings
            self.paths_done += 1
            if self.paths_done > max_paths: raise Unsupported("path explosion")
        return results
