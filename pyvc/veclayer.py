"""Vector-level algebraic layer: rows/columns of real matrices as terms of an uninterpreted sort Vec.

comp(v, c)  component c of v          dot(u, v)  inner product (uninterpreted, symmetric)
ZEROV       the zero vector           sqd(u, v) = dot(u,u) + dot(v,v) - 2 dot(u,v)   (= ||u - v||^2, Lean lemma sqd_expand)

Only sound consequences of the real inner product are axiomatised (symmetry, positivity of sqd, zero vector); Vec
extensionality is NOT assumed (a weaker theory: fewer equalities, never more)."""
import ast
import z3
from z3 import And, Or, Not, Implies, If, IntVal, RealVal
from .engine import ForAll, ArrVal, ArrRef, Unsupported, RaiseEx, tz, conc, is_sym, to_real
from . import npstubs as N

Vec = z3.DeclareSort('Vec')
IntS, RealS = z3.IntSort(), z3.RealSort()
comp = z3.Function('comp', Vec, IntS, RealS)
dot = z3.Function('dot', Vec, Vec, RealS)
ZEROV = z3.Const('ZEROV', Vec)

def sqd(u, v): return dot(u, u) + dot(v, v) - 2 * dot(u, v)

def axioms():
    u, v = z3.Consts('u!ax v!ax', Vec); c = z3.Int('c!ax')
    return [ForAll([u, v], dot(u, v) == dot(v, u), patterns=[dot(u, v)]),
            ForAll([u, v], sqd(u, v) >= 0, patterns=[dot(u, v)]),
            ForAll([u], dot(u, u) >= 0, patterns=[dot(u, u)]),
            ForAll([c], comp(ZEROV, c) == 0, patterns=[comp(ZEROV, c)]),
            ForAll([u], dot(ZEROV, u) == 0, patterns=[dot(ZEROV, u)])]

def voronoi_prune_axiom():
    """Lean lemma voronoi_prune (lemmas/lean/Lemmas.lean): in any inner-product space, ||s-l||^2 / 4 >= ||x-s||^2  implies  ||x-l||^2 >= ||x-s||^2
    (triangle inequality: ||x-l|| >= ||s-l|| - ||x-s|| >= ||x-s||)"""
    x, s, l = z3.Consts('x!vp s!vp l!vp', Vec)
    return ForAll([x, s, l], Implies(sqd(s, l) * RealVal('1/4') >= sqd(x, s), sqd(x, l) >= sqd(x, s)),
                  patterns=[z3.MultiPattern(dot(x, s), dot(s, l))])

def vec_of_1d(A):
    """(coef, term) of a 1-D array value or None"""
    if A.ndim == 1 and A.vecs is not None: return A.vecs
    return None

def matmul_hook(I, a, b, what):
    if not isinstance(a, ArrRef) or not isinstance(b, ArrRef): return None
    A, B = I.A(a), I.A(b)
    N.used('np.matmul (vector layer: result entries are inner products of row/column vectors)')
    # 1-D @ 2-D : contraction over components; needs the columns of B as vectors
    if A.ndim == 1 and B.ndim == 2 and A.vecs is not None and B.vecs is not None and B.vecs[0] == 1:
        sd = N.same_dim(A.shape[0], B.shape[0])
        if sd is False: raise RaiseEx('ValueError')
        if sd is None: I.ob(f"shape:{what}", tz(A.shape[0]) == tz(B.shape[0]), kind='shape')
        c, v = A.vecs; fn = B.vecs[1]
        return I.new_arr(ArrVal((B.shape[1],), lambda j: tz(c) * dot(v, fn(j)), RealS))
    if A.ndim == 2 and B.ndim == 1 and A.vecs is not None and B.vecs is not None and A.vecs[0] == 0:
        sd = N.same_dim(A.shape[1], B.shape[0])
        if sd is False: raise RaiseEx('ValueError')
        if sd is None: I.ob(f"shape:{what}", tz(A.shape[1]) == tz(B.shape[0]), kind='shape')
        c, v = B.vecs; fn = A.vecs[1]
        return I.new_arr(ArrVal((A.shape[0],), lambda i: tz(c) * dot(fn(i), v), RealS))
    if A.ndim == 2 and B.ndim == 2 and A.vecs is not None and B.vecs is not None and A.vecs[0] == 0 and B.vecs[0] == 1:
        sd = N.same_dim(A.shape[1], B.shape[0])
        if sd is False: raise RaiseEx('ValueError')
        if sd is None: I.ob(f"shape:{what}", tz(A.shape[1]) == tz(B.shape[0]), kind='shape')
        fa, fb = A.vecs[1], B.vecs[1]
        return I.new_arr(ArrVal((A.shape[0], B.shape[1]), lambda i, j: dot(fa(i), fb(j)), RealS, ('gram', a, b)))
    if A.ndim == 1 and B.ndim == 1 and A.vecs is not None and B.vecs is not None:
        sd = N.same_dim(A.shape[0], B.shape[0])
        if sd is False: raise RaiseEx('ValueError')
        if sd is None: I.ob(f"shape:{what}", tz(A.shape[0]) == tz(B.shape[0]), kind='shape')
        return tz(A.vecs[0]) * tz(B.vecs[0]) * dot(A.vecs[1], B.vecs[1])
    return None

def sum_hook(I, a, axis, kw):
    if not isinstance(a, ArrRef): return None
    A = I.A(a)
    if A.tag and A.tag[0] == 'sq' and isinstance(A.tag[1], ArrRef):
        B = I.A(A.tag[1])
        if B.ndim == 2 and B.vecs is not None and axis is not None:
            ax = axis if axis >= 0 else 2 + axis
            if ax != B.vecs[0]:
                # summing squares over the component axis: squared norms of the row/column vectors
                N.used('np.sum of squares along the component axis = squared norms')
                fn = B.vecs[1]
                return I.new_arr(ArrVal((B.shape[B.vecs[0]],), lambda j: dot(fn(j), fn(j)), RealS, ('norms', A.tag[1])))
    return None

def np_pad(I, a, pad_width, mode='constant', constant_values=0, **kw):
    N.used('np.pad')
    A = I.A(a)
    if mode != 'constant': raise Unsupported("np.pad mode")
    cv = conc(constant_values)
    if isinstance(pad_width, tuple) and len(pad_width) == 2 and not isinstance(pad_width[0], (tuple, list)): pad_width = [pad_width]
    pw = [tuple(x) for x in pad_width]
    if len(pw) != A.ndim: raise RaiseEx('ValueError')
    shp = []
    for d, (lo, hi) in enumerate(pw):
        if conc(lo) != 0: raise Unsupported("np.pad leading pad")
        hc = conc(hi)
        if is_sym(hc): I.ob("pre:np.pad:non-negative-width", hc >= 0, kind='pre')
        elif hc < 0: raise RaiseEx('ValueError')
        shp.append(conc(z3.simplify(tz(A.shape[d]) + tz(hi))))
    old = A
    def elem(*ix):
        inside = And(*[tz(i) < tz(d) for i, d in zip(ix, old.shape)])
        return If(inside, old.elem(*ix), N.coerce(cv, old.sort))
    vecs = None
    if A.vecs is not None and A.ndim == 2 and (cv == 0):
        ax, fn = A.vecs
        other = 1 - ax
        if conc(pw[other][1]) == 0:
            n_old = tz(A.shape[ax])
            vecs = (ax, lambda i: If(tz(i) < n_old, fn(i), ZEROV))
    return I.new_arr(ArrVal(tuple(shp), elem, A.sort, None, False, vecs))

def norm_(I, a, axis=None, **kw):
    """np.linalg.norm of a vector-valued array"""
    A = I.A(a)
    N.used('np.linalg.norm')
    if A.ndim == 1 and A.vecs is not None and axis is None:
        c, v = A.vecs
        return N.sqrt_(I, tz(c) * tz(c) * dot(v, v))
    if A.ndim == 2 and A.vecs is not None and axis is None:
        ax, fn = A.vecs
        n = conc(A.shape[ax])
        if not is_sym(n) and n == 1:
            return N.sqrt_(I, dot(fn(IntVal(0)), fn(IntVal(0))))
    raise Unsupported("np.linalg.norm form")

def install(ext):
    if matmul_hook not in N.MATMUL_HOOKS: N.MATMUL_HOOKS.append(matmul_hook)
    ext['sum_hook'] = sum_hook
    ext['modules']['np'].pad = np_pad
    ext['modules']['np'].linalg.norm = norm_


# ------------------------------------------------------------------ statistics layer (C11/C12): weighted averages as a linear functional
vsubs = z3.Function('vsubs', Vec, RealS, Vec)      # v - c  (the same constant subtracted from every component)
vscale = z3.Function('vscale', Vec, RealS, Vec)    # c * v
vsq = z3.Function('vsq', Vec, Vec)                 # component-wise square
WAVG = z3.Function('WAVG', IntS, Vec, RealS)       # np.average(v, weights=w): w identified by a token (0 = no weights); normalised, non-negative

def stats_axioms():
    v = z3.Const('v!st', Vec); a, b = z3.Reals('a!st b!st'); w = z3.Int('w!st'); c = z3.Int('c!st')
    return [ForAll([w, v, a], WAVG(w, vsubs(v, a)) == WAVG(w, v) - a, patterns=[WAVG(w, vsubs(v, a))]),
            ForAll([w, v, a], WAVG(w, vscale(v, a)) == a * WAVG(w, v), patterns=[WAVG(w, vscale(v, a))]),
            ForAll([w, v], WAVG(w, vsq(v)) >= 0, patterns=[WAVG(w, vsq(v))]),
            ForAll([v, a], vsq(vscale(v, a)) == vscale(vsq(v), a * a), patterns=[vsq(vscale(v, a))]),
            ForAll([v], vsubs(v, 0) == v, patterns=[vsubs(v, 0)]),
            ForAll([v], vscale(v, 1) == v, patterns=[vscale(v, 1)]),
            ForAll([v, a, b], vsubs(vsubs(v, a), b) == vsubs(v, a + b), patterns=[vsubs(vsubs(v, a), b)]),
            ForAll([v, a, b], vscale(vscale(v, a), b) == vscale(v, a * b), patterns=[vscale(vscale(v, a), b)]),
            ForAll([v, a, b], vscale(vsubs(v, a), b) == vsubs(vscale(v, b), a * b), patterns=[vscale(vsubs(v, a), b)]),
            ForAll([v, a, c], comp(vsubs(v, a), c) == comp(v, c) - a, patterns=[comp(vsubs(v, a), c)]),
            ForAll([v, a, c], comp(vscale(v, a), c) == a * comp(v, c), patterns=[comp(vscale(v, a), c)]),
            ForAll([v, c], comp(vsq(v), c) == comp(v, c) * comp(v, c), patterns=[comp(vsq(v), c)]),
            ForAll([a], Implies(a >= 0, And(N.SQRT(a) >= 0, N.SQRT(a) * N.SQRT(a) == a)), patterns=[N.SQRT(a)]),
            ForAll([a], Implies(a > 0, And(N.SQRT(a) > 0, (1 / N.SQRT(a)) * (1 / N.SQRT(a)) * a == 1, (1 / N.SQRT(a)) * N.SQRT(a) == 1)), patterns=[N.SQRT(a)])]

def weight_token(I, w):
    """token of the weight vector behind an array value: positive rescaling does not change np.average"""
    if w is None: return IntVal(0)
    seen = 0
    while isinstance(w, ArrRef) and seen < 10:
        A = I.A(w)
        if A.tag and A.tag[0] == 'smul' and isinstance(A.tag[2], ArrRef): w = A.tag[2]
        elif A.tag and A.tag[0] in ('divs', 'copy') and isinstance(A.tag[1], ArrRef): w = A.tag[1]
        else: break
        seen += 1
    toks = I.cur.setdefault('wtoks', {})
    if w.id not in toks: toks[w.id] = IntVal(len(toks) + 1)
    return toks[w.id]

def np_average(I, a, axis=None, weights=None, **kw):
    N.used('np.average (weighted mean: a normalised non-negative linear functional of each column)')
    A = I.A(a)
    tok = weight_token(I, weights)
    if weights is not None:
        W = I.A(weights)
        if W.ndim == 1 and axis is not None:
            sd = N.same_dim(W.shape[0], A.shape[axis])
            if sd is False: raise RaiseEx('ValueError')
            if sd is None: I.ob('shape:np.average weights', tz(W.shape[0]) == tz(A.shape[axis]), kind='shape')
    I.cur.setdefault('avg_calls', []).append((a, weights, axis))
    if A.ndim == 2 and axis == 0 and A.vecs is not None and A.vecs[0] == 1:
        fn = A.vecs[1]
        return I.new_arr(ArrVal((A.shape[1],), lambda j: WAVG(tok, fn(tz(j))), RealS, ('wavg', a, tok)))
    if A.ndim == 1 and A.vecs is not None and axis in (None, 0):
        c, v = A.vecs
        return tz(c) * WAVG(tok, v)
    if A.ndim == 1 and weights is None and axis in (None, 0):
        N.used('np.average of a plain vector (opaque: result unconstrained)')
        return I.fresh('avg', RealS)
    raise Unsupported("np.average form")

def stats_binop(I, op, a, b, what):
    """column-vector arithmetic with a broadcast 1-D array / scalar keeps the vector-level representation"""
    if not isinstance(a, ArrRef): return None
    A = I.A(a)
    if A.ndim != 2 or A.vecs is None or A.vecs[0] != 1 or A.sort != RealS: return None
    fn = A.vecs[1]
    if isinstance(b, ArrRef):
        B = I.A(b)
        if B.ndim != 1: return None
        sd = N.same_dim(B.shape[0], A.shape[1])
        if sd is False: raise RaiseEx('ValueError')
        if sd is None: I.ob(f'shape:{what}', tz(B.shape[0]) == tz(A.shape[1]), kind='shape')
        bj = lambda j: to_real(B.elem(tz(j)))
    else:
        if b is None: return None
        bj = lambda j: to_real(tz(b))
    if op is ast.Sub: nf = lambda j: vsubs(fn(j), bj(j)); el = lambda i, j: A.elem(i, j) - bj(j)
    elif op is ast.Add: nf = lambda j: vsubs(fn(j), -bj(j)); el = lambda i, j: A.elem(i, j) + bj(j)
    elif op is ast.Mult: nf = lambda j: vscale(fn(j), bj(j)); el = lambda i, j: A.elem(i, j) * bj(j)
    elif op is ast.Div: nf = lambda j: vscale(fn(j), 1 / bj(j)); el = lambda i, j: A.elem(i, j) / bj(j)
    elif op is ast.Pow and not isinstance(b, ArrRef) and conc(b) == 2: nf = lambda j: vsq(fn(j)); el = lambda i, j: A.elem(i, j) * A.elem(i, j)
    else: return None
    return I.new_arr(ArrVal(A.shape, el, RealS, None, False, (1, nf)))

def install_stats(ext):
    ext['modules']['np'].average = np_average
    ext['mat_binop'] = stats_binop
