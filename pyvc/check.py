"""vcheck driver: prove -> refute/replay -> report (DESIGN.md section 1).

exit 0  all obligations discharged, no runtime contract violation outside known findings
exit 1  VIOLATION line(s) printed
exit 2  UNDECIDED (an obligation could not be stated / code left the interpretable subset, and no failing input was found)
exit 3  internal error of the checker (never a VIOLATION)
"""
import argparse, importlib, json, os, subprocess, sys, time, traceback, hashlib, re

ROOT = os.path.dirname(os.path.dirname(os.path.abspath(__file__)))
VENV_PY = '/venv/bin/python'

def load_known(prop):
    """known_findings.txt lines:  finding: property=<id> key=<obligation name or runtime signature> :: <what fails>
                                  fixed: property=<id> <commit> <what failed>      (suppresses nothing)"""
    out = KnownFindings()
    path = os.path.join(ROOT, 'known_findings.txt')
    if not os.path.exists(path): return out
    for line in open(path):
        line = line.strip()
        m = re.match(r'finding:\s+property=(\S+)\s+key=(\S+)\s*::\s*(.*)', line)
        if m and m.group(1) == prop: out.items.append((m.group(2), m.group(3)))
    return out

class KnownFindings:
    """keys are fnmatch patterns over obligation names / runtime signatures (they name the call site + input class of a recorded finding)"""
    def __init__(self): self.items = []
    def __contains__(self, name): return self.match(name) is not None
    def match(self, name):
        for pat, text in self.items:
            rx = '^' + '.*'.join(re.escape(x) for x in pat.split('*')) + '$'     # only `*` is a wildcard
            if re.match(rx, name): return (pat, text)
        return None
    def __getitem__(self, name): return self.match(name)[1]
    def key(self, name): return self.match(name)[0]

def run_rt(prop, tier, seed, focus, out_path, budget=None):
    cmd = [VENV_PY, '-m', 'rt.run', prop, '--tier', tier, '--seed', str(seed), '--out', out_path]
    if focus: cmd += ['--focus', ','.join(sorted(focus))[:4000]]
    if budget: cmd += ['--budget', str(budget)]
    env = dict(os.environ)
    src = os.environ.get('PYVC_REPO_SRC', '/repo/src')
    env['PYTHONPATH'] = src + os.pathsep + ROOT
    env.setdefault('OMP_NUM_THREADS', '1'); env.setdefault('OPENBLAS_NUM_THREADS', '1')
    p = subprocess.run(cmd, cwd=ROOT, env=env, capture_output=True, text=True, timeout=3600)
    if p.returncode not in (0, 1):
        raise RuntimeError(f"runtime side crashed (exit {p.returncode}):\n{p.stdout[-2000:]}\n{p.stderr[-4000:]}")
    return json.load(open(out_path))

def main(argv=None):
    ap = argparse.ArgumentParser()
    ap.add_argument('prop')
    ap.add_argument('--tier', default=os.environ.get('VERIF_TIER', 'quick'), choices=['quick', 'thorough'])
    ap.add_argument('--only')
    ap.add_argument('--no-rt', action='store_true')
    ap.add_argument('--write-baseline', action='store_true')
    ap.add_argument('--write-loops', action='store_true', help='record only the headers of the contracted loops (baseline/<P>.loops.json)')
    ap.add_argument('-v', action='store_true')
    a = ap.parse_args(argv)
    prop = a.prop.upper()
    seed = int(os.environ.get('VERIF_SEED', '0') or 0)
    t0 = time.time()
    try:
        return _main(a, prop, seed, t0)
    except SystemExit: raise
    except Exception:
        traceback.print_exc()
        print(f"CHECKER-ERROR property={prop} (internal error of the verification machinery; not a verdict about the code)")
        return 3

def _main(a, prop, seed, t0):
    sys.path.insert(0, ROOT)
    from . import run as R, solve
    from .engine import Obligation
    mod = importlib.import_module('contracts.' + prop.lower())
    tier = a.tier
    timeout = 60 if tier == 'quick' else 300
    if getattr(mod, 'BOUNDED_ONLY', False):
        return _bounded_only(a, prop, seed, t0, mod, tier)
    from . import engine as _E
    loops_path = os.path.join(ROOT, 'baseline', f'{prop}.loops.json')
    _E.SEEN_LOOPS.clear(); _E.EXPECTED_LOOPS.clear()
    if not a.write_baseline and not a.write_loops and os.path.exists(loops_path): _E.EXPECTED_LOOPS.update(json.load(open(loops_path)))
    obls, info = R.generate(mod, a.only)
    if a.write_loops:
        json.dump(_E.SEEN_LOOPS, open(loops_path, 'w'), indent=0, sort_keys=True)
        print(f"loop headers written: {len(_E.SEEN_LOOPS.get('sigs', {}))}"); return 0
    gen_s = time.time() - t0
    known = load_known(prop)
    jobs = [Obligation(ob.name, list(ax) + list(ob.assumptions), ob.goal, ob.prefix, ob.kind, None, ob.axgroups) for name, ob, ax in obls]
    # obligations of recorded findings are expected not to be discharged: give them a short budget
    # per-obligation budget from the solver time recorded when the baseline was written (an obligation that took 0.1 s is not given 4 x 60 s before it is
    # reported as not discharged; obligations without a record get the full budget); undecided baseline obligations get a second, larger attempt below
    try: base_times = json.load(open(os.path.join(ROOT, 'baseline', f'{prop}.times.json')))
    except Exception: base_times = {}
    def budget_of(name):
        if name in known and not name.endswith('~known-defect-shape'): return 8
        if name in base_times: return max(12, min(timeout, int(8 * base_times[name]) + 1))
        return timeout
    budgets = [budget_of(name) for name, ob, ax in obls]
    res = solve.discharge(jobs, timeout=timeout, budgets=budgets)
    # a baseline obligation that came back undecided (not refuted) gets one more attempt with a larger budget and fewer parallel solvers:
    # verdicts must not flip because the machine was busy (a refuted obligation is never retried)
    try: base_names = set(json.load(open(os.path.join(ROOT, 'baseline', f'{prop}.json'))))
    except Exception: base_names = set()
    retry = [k for k, ((name, ob, _), r) in enumerate(zip(obls, res)) if ob.kind != 'canary' and r['result'] not in ('unsat', 'sat') and name in base_names and name not in known]
    n_retried = 0
    if retry and len(retry) <= 12:
        rb = [max(30, min(timeout * 2, int(6 * base_times.get(obls[k][0], 10)) + 1)) for k in retry]
        res2 = solve.discharge([jobs[k] for k in retry], timeout=timeout, budgets=rb, jobs=6, mode='retry')
        for k, r2 in zip(retry, res2):
            if r2['result'] == 'unsat':
                r2['log'] = res[k]['log'] + [('retry',)] + r2['log']; res[k] = r2; n_retried += 1
    # ---- collect per-name status
    by_name = {}
    canary_bad = []
    path_end = {}
    backends = {}
    solver_s = 0.0
    samples = []
    for (name, ob, _), r in zip(obls, res):
        solver_s += r['wall']
        if ob.kind == 'canary':
            if name.endswith('/path-end-canary'):
                # a proved end-of-path canary means that path is infeasible (not pruned earlier); vacuity = EVERY completed path of a unit is infeasible
                u_ = name.split('/')[0]
                pe = path_end.setdefault(u_, [0, 0]); pe[0] += 1
                if r['result'] == 'unsat': pe[1] += 1
            elif r['result'] == 'unsat': canary_bad.append(name)
            continue
        st = by_name.setdefault(name, dict(instances=0, proved=0, results=[], models=[]))
        if ob.extra and r['result'] != 'unsat': st.setdefault('details', []).append(str(ob.extra)[:2000])
        st['instances'] += 1
        if r['result'] == 'unsat':
            st['proved'] += 1
            backends[r['backend']] = backends.get(r['backend'], 0) + 1
        else:
            st['results'].append(r['result']); st['models'].append(r.get('model'))
            st.setdefault('logs', []).append(r['log'][:6])
    canary_bad += [u_ + '/every-completed-path-infeasible' for u_, (tot, bad) in path_end.items() if tot > 0 and bad == tot]
    # a unit none of whose paths completes or raises: its preconditions are contradictory (pruned as infeasible before any obligation was stated)
    raised_units = set(x['unit'] for x in info['raised']) | set(x['unit'] for x in info['unsupported'])
    for u_ in info['units']:
        if u_.get('kind') == 'function' and u_.get('paths', 0) > 0 and u_.get('completed', 0) == 0 and u_['name'] not in raised_units \
           and not any(n.startswith(u_['name'] + '/reject/') or n.startswith(u_['name'] + '/post/reject') for n, _, _ in obls):
            canary_bad.append(u_['name'] + '/no-path-completed')
    if canary_bad:
        print(f"CHECKER-ERROR property={prop} vacuity canary proved (contradictory assumptions) in: {canary_bad[:5]}")
        return 3
    n_canary = sum(1 for n, ob, _ in obls if ob.kind == 'canary')
    names = sorted(by_name)
    if not names:
        print(f"CHECKER-ERROR property={prop} zero obligations generated")
        return 3
    failed = [n for n in names if by_name[n]['proved'] < by_name[n]['instances']]
    base_path = os.path.join(ROOT, 'baseline', f'{prop}.json')
    if a.write_baseline:
        os.makedirs(os.path.dirname(base_path), exist_ok=True)
        json.dump(sorted(n for n in names if n not in failed), open(base_path, 'w'), indent=0)
        tms = {}
        for (name, ob, _), r in zip(obls, res):
            if ob.kind != 'canary' and r['result'] == 'unsat': tms[name] = round(max(tms.get(name, 0.0), r['wall']), 2)
        json.dump(tms, open(os.path.join(ROOT, 'baseline', f'{prop}.times.json'), 'w'), indent=0, sort_keys=True)
        json.dump(_E.SEEN_LOOPS, open(loops_path, 'w'), indent=0, sort_keys=True)      # headers of the loops the sidecar contracts were written for (guard against ordinal drift)
        print(f"baseline written: {len(names)-len(failed)} proved obligation names ({len(failed)} failed not listed)")
    baseline = set(json.load(open(base_path))) if os.path.exists(base_path) else set()
    missing = sorted(baseline - set(names))          # proved before, not even generated now
    # safety obligations are NAMED after the source text of the expression / call they guard (index:a[i], shape:..., pre-at-call:f:...@f(x)); a harmless edit
    # (renamed local, extracted helper) renames them.  Their absence alone decides nothing: the obligations generated from the current source are all
    # checked, and the semantic ones (post / loop / lemma / frame / reject) keep their names -- those must still be generated.
    renamed_safety = [n for n in missing if re.search(r'/(index|shape)/', n) or (re.search(r'/pre/', n) and '@' in n)]
    missing = [n for n in missing if n not in set(renamed_safety)]
    # ---- runtime side: concrete interpretation of the contracts on the real code (bounded; refutation + validation)
    rt = None
    focus = set(failed) | set(missing)
    if not a.no_rt and hasattr(mod, 'RT') and mod.RT:
        os.makedirs(os.path.join(ROOT, 'replays', prop), exist_ok=True)
        outp = os.path.join(ROOT, 'replays', prop, f'.rt_result.{os.getpid()}.json')      # per process: two runs of the same property (e.g. one against a scratch tree) must not read each other's result
        need_refute = bool([n for n in failed if n not in known] or missing or info['unsupported'])
        rt = run_rt(prop, tier, seed, focus if need_refute else None, outp, budget=('refute' if need_refute else None))
        try: os.unlink(outp)
        except OSError: pass
    # ---- verdict
    violations = []     # (replay path, note)
    known_lines = []
    undecided = []
    rt_viol = rt['violations'] if rt else []
    rt_unlisted = []
    for v in rt_viol:
        if v['signature'] in known: known_lines.append((known.key(v['signature']), known[v['signature']]))
        else: rt_unlisted.append(v)
    seen_sig = set()
    for v in rt_unlisted:
        if v['signature'] in seen_sig: continue
        seen_sig.add(v['signature'])
        violations.append((v['replay'], ''))
    for n in failed:
        if n.endswith('~known-defect-shape'): continue
        if n in known:
            # a recorded finding suppresses the alarm only while the code still has exactly the recorded shape of the defect
            comp = n + '~known-defect-shape'
            if comp not in by_name or by_name[comp]['proved'] == by_name[comp]['instances']:
                known_lines.append((known.key(n), known[n])); continue
        st = by_name[n]
        rp = os.path.join(ROOT, 'replays', prop, 'obligation__' + re.sub(r'[^A-Za-z0-9_.\[\]-]+', '_', n)[:150] + '.json')
        if n in baseline:
            if rt_unlisted:
                # a failing input was found for this run; attach the obligation to the first replay and do not double-report
                continue
            os.makedirs(os.path.dirname(rp), exist_ok=True)
            json.dump(dict(property=prop, kind='obligation-not-discharged', obligation=n, solver_results=st['results'],
                           solver_log=st.get('logs'), model=(st['models'][0] if st['models'] else None), flow_or_detail=st.get('details'),
                           runtime_inputs_tried=(rt['coverage']['evaluations'] if rt else 0),
                           note='obligation was discharged on the unchanged tree (baseline) and is not discharged now; no failing input found'),
                      open(rp, 'w'), indent=1)
            violations.append((rp, 'no-failing-input-found'))
        else:
            undecided.append((n, 'obligation not in baseline and not discharged'))
    for n in missing:
        if rt_unlisted: continue
        undecided.append((n, 'baseline obligation could not be generated from the current source'))
    for u in info['unsupported']:
        if rt_unlisted: continue
        undecided.append((u['unit'], 'left the interpretable subset: ' + u['reason']))
    for r_ in info['raised']:
        pass
    kf_failed = [n for n in failed if (n in known and not n.endswith('~known-defect-shape'))]
    kf_inst = sum(by_name[n]['instances'] - by_name[n]['proved'] for n in kf_failed)
    total_inst = sum(by_name[n]['instances'] for n in names) - kf_inst      # obligations of recorded findings are reported separately, not claimed
    proved_inst = sum(by_name[n]['proved'] for n in names)
    wall = time.time() - t0
    # ---- evidence
    sample_ob = []
    for (name, ob, ax) in obls[:400]:
        if ob.kind in ('post', 'loop-step', 'lemma') and len(sample_ob) < 3:
            txt = solve.to_smt2(Obligation(ob.name, list(ax) + list(ob.assumptions), ob.goal, ob.prefix, ob.kind, None, ob.axgroups))
            sample_ob.append(dict(obligation=name, smt2_sha256=hashlib.sha256(txt.encode()).hexdigest(), smt2_head=txt[:1500]))
    trusted = ['A-SEM: Python/numpy semantics as encoded by pyvc (floats are reals; no overflow; left-to-right evaluation; only explicit raises and index/shape/division obligations model exceptions)']
    trusted += ['external contract: ' + e for e in sorted(info['externals'])]
    trusted += list(getattr(mod, 'TRUSTED', []))
    ev = dict(property_id=prop, tier=tier, seed=seed, level='proof',
              coverage=dict(obligations=total_inst, discharged=proved_inst,
                            obligation_names=len(names), names_discharged=len(names) - len(failed), known_finding_obligations_not_discharged=kf_inst,
                            checker_cmd=f"python3-vt -m pyvc.check {prop} --tier {tier}  (portfolio: z3-solver 5.1 python API -> /usr/bin/z3 4.8.12 -> /usr/bin/cvc5 1.0.3; {timeout}s per query)",
                            trusted_base=trusted, backends=backends, solver_s=round(solver_s, 2), generation_s=round(gen_s, 2),
                            vacuity_canaries=dict(checked=n_canary, proved_false=len(canary_bad), infeasible_paths_dropped=sum(b for _, (t_, b) in path_end.items())),
                            functions_under_contract=sorted(info['functions']), functions_inlined=sorted(info['inlined']),
                            units=info['units'], paths=info['paths'], unsupported=info['unsupported'],
                            rejected_paths=[dict(unit=x['unit'], exc=x['exc'], line=x['where']) for x in info['raised']][:40],
                            samples=sample_ob,
                            baseline_names=len(baseline), baseline_missing=missing, baseline_safety_obligations_renamed=renamed_safety[:40],
                            failed_obligations=[dict(name=n, results=by_name[n]['results']) for n in failed],
                            bounded=(rt['coverage'] if rt else None),
                            known_findings_printed=[k for k, _ in known_lines]),
              assumptions=trusted + list(getattr(mod, 'ASSUMPTIONS', [])),
              wall_s=round(wall, 2), violations=len(violations))
    lean = getattr(mod, 'LEAN_LEMMAS', None)
    if lean:
        ev['coverage']['lean_lemmas'] = _lean_lemmas(lean, tier)
        if ev['coverage']['lean_lemmas'].get('status') == 'failed':
            print(f"CHECKER-ERROR property={prop} the Lean lemma file no longer checks: {lean}")
            return 3
    if getattr(mod, 'EVIDENCE_LEVEL', None) == 'exploration' and rt:
        # only a part of the property is under deductive contracts: the property as a whole is claimed at the bounded level; the discharged obligations are reported as extra keys
        ev['level'] = 'exploration'
        for k_ in ('evaluations', 'distinct_nontrivial', 'rule', 'samples'): ev['coverage'][k_] = rt['coverage'].get(k_)
        ev['coverage']['explanation'] = ('property claimed at the bounded level (runtime contracts on generated inputs); in addition the listed obligations on the functions under contract '
                                         'are discharged deductively on every run (keys obligations/discharged/functions_under_contract)')
    if not a.only:
        json.dump(ev, open(_evidence_path(prop), 'w'), indent=1, default=str)
    # ---- report
    print(f"{prop} [{tier}] obligations {proved_inst}/{total_inst} discharged ({len(names)-len(failed)}/{len(names)} names); "
          f"backends {backends}; solver {solver_s:.1f}s; gen {gen_s:.1f}s; wall {wall:.1f}s"
          + (f"; runtime evaluations {rt['coverage']['evaluations']} ({rt['coverage']['distinct_nontrivial']} distinct non-trivial), {len(rt_viol)} contract violations" if rt else ''))
    if a.v or failed:
        for n in failed: print("  not discharged:", n, by_name[n]['results'])
    if a.v:
        slow = sorted(((r['wall'], name) for (name, ob, _), r in zip(obls, res)), reverse=True)[:15]
        for w_, n_ in slow: print(f"  slow {w_:.1f}s {n_}")
    seen = set()
    for k, what in known_lines:
        if k in seen: continue
        seen.add(k)
        print(f"KNOWN-FINDING: property={prop} {k} :: {what}")
    if violations:
        for rp, note in violations:
            print(f"VIOLATION property={prop} replay={rp}" + (f" {note}" if note else ''))
        return 1
    if undecided:
        for n, why in undecided: print(f"UNDECIDED property={prop} reason={why} [{n}]")
        return 2
    return 0

def _lean_lemmas(rel, tier):
    """lemmas cited by the algebraic layers, machine-checked by Lean 4 + Mathlib: re-checked on every thorough run (and when PYVC_LEAN=1); a quick run
    compares the file with the hash recorded by the last successful check (lemmas/lean/CHECKED.json)"""
    path = os.path.join(ROOT, rel); rec = os.path.join(os.path.dirname(path), 'CHECKED.json')
    sha = hashlib.sha256(open(path, 'rb').read()).hexdigest()
    out = dict(file=rel, sha256=sha, theorems=[l.split()[1] for l in open(path) if l.startswith('theorem ')])
    if tier == 'thorough' or os.environ.get('PYVC_LEAN') == '1':
        t = time.time()
        try:
            p = subprocess.run(['lean', path], capture_output=True, text=True, timeout=1800)
            ok = p.returncode == 0 and not re.search(r': error', p.stdout + p.stderr) and 'sorry' not in (p.stdout + p.stderr)
        except Exception as e:
            ok = None; out['note'] = f'lean could not be run: {e}'
        out['status'] = 'checked-on-this-run' if ok else ('failed' if ok is False else 'not-run')
        out['seconds'] = round(time.time() - t, 1)
        if ok: json.dump(dict(sha256=sha, lean='lean 4 + Mathlib (offline toolchain)'), open(rec, 'w'))
    else:
        try: prev = json.load(open(rec)).get('sha256')
        except Exception: prev = None
        out['status'] = 'unchanged-since-last-successful-lean-check' if prev == sha else 'NOT machine-checked in this state (run the thorough tier)'
    return out

def _evidence_path(prop):
    """evidence/<P>.json describes runs against /repo itself; a run against a scratch tree (PYVC_REPO_SRC, used for seeded changes) writes elsewhere"""
    src = os.environ.get('PYVC_REPO_SRC')
    d = os.path.join(ROOT, 'evidence') if (not src or os.path.realpath(src) == os.path.realpath('/repo/src')) else os.path.join(ROOT, 'replays', 'scratch-evidence')
    os.makedirs(d, exist_ok=True)
    return os.path.join(d, f'{prop}.json')

def _bounded_only(a, prop, seed, t0, mod, tier):
    """properties (or the part of them) for which no contract is discharged yet: the runtime form of the contracts on generated inputs,
    labelled bounded (level 'exploration'); never reported as proved"""
    known = load_known(prop)
    os.makedirs(os.path.join(ROOT, 'replays', prop), exist_ok=True)
    outp = os.path.join(ROOT, 'replays', prop, f'.rt_result.{os.getpid()}.json')      # per process: two runs of the same property (e.g. one against a scratch tree) must not read each other's result
    rt = run_rt(prop, tier, seed, None, outp)
    try: os.unlink(outp)
    except OSError: pass
    viol = []; known_lines = []
    for v in rt['violations']:
        if v['signature'] in known: known_lines.append((known.key(v['signature']), known[v['signature']]))
        else: viol.append(v)
    cov = dict(rt['coverage'])
    cov['explanation'] = 'bounded stand-in: runtime contracts evaluated on the real code over generated inputs; no obligation of this property is discharged deductively (see MANIFEST level_note)'
    ev = dict(property_id=prop, tier=tier, seed=seed, level='exploration', coverage=cov,
              assumptions=list(getattr(mod, 'TRUSTED', [])) + ['bounded: only the generated inputs are covered'], wall_s=round(time.time() - t0, 2), violations=len(viol))
    json.dump(ev, open(_evidence_path(prop), 'w'), indent=1, default=str)
    print(f"{prop} [{tier}] BOUNDED ONLY: runtime evaluations {cov['evaluations']} ({cov['distinct_nontrivial']} distinct non-trivial), {len(rt['violations'])} contract violations; wall {time.time() - t0:.1f}s")
    seen = set()
    for k, what in known_lines:
        if k in seen: continue
        seen.add(k); print(f"KNOWN-FINDING: property={prop} {k} :: {what}")
    if viol:
        for v in viol: print(f"VIOLATION property={prop} replay={v['replay']}")
        return 1
    return 0

if __name__ == '__main__':
    sys.exit(main())
