"""Runner: generate obligations for the units of a property from the current /repo source, discharge them, report."""
import importlib, json, os, sys, time, traceback
import z3
from .engine import Interp, Repo, Unsupported, RaiseEx, Obligation
from .api import Unit, Lemma
from . import npstubs, solve

REPO_SRC = os.environ.get('PYVC_REPO_SRC', '/repo/src')

def make_ext(prop_module):
    ext = npstubs.make_ext()
    if hasattr(prop_module, 'extend_ext'): prop_module.extend_ext(ext)
    return ext

def generate(prop_module, only=None):
    """returns (obligations [(fullname, Obligation, axioms)], info)"""
    out = []
    info = dict(units=[], functions=set(), inlined=set(), unsupported=[], paths=0, raised=[], externals=set())
    for mk in prop_module.UNITS:
        u = mk()
        if only and only not in u.name: continue
        if hasattr(u, 'run') and not hasattr(u, 'body'):
            # static frame analysis unit: each finding-free flow question is an obligation discharged by the flow analysis itself
            from z3 import BoolVal
            res_ = u.run(REPO_SRC)
            for name, ok, detail in res_:
                out.append((f"{u.name}/{name}", Obligation(name, [], BoolVal(bool(ok)), (), 'frame', extra=detail), []))
            info['units'].append(dict(name=u.name, kind='static-flow', obligations=len(res_)))
            info['functions'] |= set(getattr(u.run, 'functions', []))
            continue
        if isinstance(u, Lemma):
            from z3 import BoolVal as _BV
            for label, hyps, goal in u.items:
                out.append((f"{u.name}/lemma/{label}", Obligation(label, list(hyps), goal, (), 'lemma'), u.axioms))
            if u.items:     # vacuity canary: the hypotheses of the lemma (incl. axioms) must not be contradictory
                label, hyps, goal = u.items[-1]
                out.append((f"{u.name}/canary/hypotheses-consistent", Obligation('hypotheses-consistent', list(hyps), _BV(False), (), 'canary'), u.axioms))
            info['units'].append(dict(name=u.name, kind='lemma', obligations=len(u.items)))
            continue
        repo = Repo(REPO_SRC)
        npstubs.USED.clear()
        I = Interp(repo, make_ext(prop_module), u.loops, u.funcs)
        t = time.time()
        try:
            results = I.explore(u.body)
        except Unsupported as e:
            info['unsupported'].append(dict(unit=u.name, reason=str(e)))
            results = []
        except RecursionError as e:
            info['unsupported'].append(dict(unit=u.name, reason='recursion'))
            results = []
        except Exception as e:
            # an exception inside the interpreter/stubs on code shapes they do not anticipate: the unit cannot be stated (never a verdict)
            info['unsupported'].append(dict(unit=u.name, reason=f'interpreter could not handle the code: {type(e).__name__}: {str(e)[:200]}'))
            results = []
        n_ok = sum(1 for r in results if r[0] == 'ok')
        for kind, st, r in results:
            if kind == 'raise':
                handled = u.on_raise(I, st, r) if u.on_raise else False
                if handled:
                    # a path that is required to be rejected and is: recorded as a (trivially discharged) named obligation
                    from z3 import BoolVal
                    rn = getattr(u, 'reject_name', None)
                    if rn: I.obls[(rn, tuple(st.prefix), 0)] = Obligation(rn, [], BoolVal(True), tuple(st.prefix), 'post')
                    else: I.obls[('reject:path-raises-' + r.kind, tuple(st.prefix), 0)] = Obligation('reject:path-raises-' + r.kind, [], BoolVal(True), tuple(st.prefix), 'reject')
                if not handled:
                    info['raised'].append(dict(unit=u.name, exc=r.kind, where=(getattr(r.node, 'lineno', None)), prefix=list(st.prefix)))
        for (name, prefix, nth), ob in I.obls.items():
            out.append((f"{u.name}/{ob.kind}/{name}", ob, u.axioms))
        info['units'].append(dict(name=u.name, kind='function', paths=len(results), completed=n_ok,
                                  obligations=len(I.obls), gen_s=round(time.time() - t, 2)))
        info['functions'] |= set(u.functions) | I.under_contract
        info['inlined'] |= I.inlined
        info['externals'] |= set(npstubs.USED)
        info['paths'] += len(results)
    # units of other contract modules that need their own external stubs (e.g. a utility function verified with a different numpy model)
    import importlib
    for em in getattr(prop_module, 'EXTRA_MODULES', []):
        out2, info2 = generate(importlib.import_module('contracts.' + em), only)
        out += out2
        for k in ('units', 'unsupported', 'raised'): info[k] += info2[k]
        for k in ('functions', 'inlined', 'externals'): info[k] |= info2[k]
        info['paths'] += info2['paths']
    return out, info

def main(argv):
    import argparse
    ap = argparse.ArgumentParser()
    ap.add_argument('prop'); ap.add_argument('--only'); ap.add_argument('--timeout', type=float, default=30)
    ap.add_argument('--dump'); ap.add_argument('-v', action='store_true')
    a = ap.parse_args(argv)
    mod = importlib.import_module('contracts.' + a.prop.lower())
    t0 = time.time()
    obls, info = generate(mod, a.only)
    print(f"generated {len(obls)} obligations in {time.time()-t0:.1f}s; units: {json.dumps(info['units'])}")
    for u in info['unsupported']: print("UNSUPPORTED", u)
    for u in info['raised']: print("RAISED", u)
    class O: pass
    jobs = []
    for name, ob, axioms in obls:
        o = Obligation(ob.name, list(axioms) + list(ob.assumptions), ob.goal, ob.prefix, ob.kind, None, ob.axgroups)
        jobs.append(o)
    res = solve.discharge(jobs, timeout=a.timeout)
    bad = 0
    for (name, ob, _), r in zip(obls, res):
        ok = (r['result'] == 'unsat') if ob.kind != 'canary' else (r['result'] != 'unsat' or name.endswith('/path-end-canary'))
        if not ok or a.v:
            print(('ok   ' if ok else 'FAIL ') + name, r['result'], r['backend'], r.get('failed_parts'), [(b, x, round(t, 2)) for b, x, t in r['log']][:6], 'prefix', ob.prefix)
        if not ok:
            bad += 1
            if a.dump:
                os.makedirs(a.dump, exist_ok=True)
                open(os.path.join(a.dump, name.replace('/', '__')[:150] + '.smt2'), 'w').write(solve.to_smt2(jobs[r['key']]))
    print(f"{len(obls)-bad}/{len(obls)} ok, solver wall {sum(r['wall'] for r in res):.1f}s, total {time.time()-t0:.1f}s")
    return 0 if bad == 0 else 1

if __name__ == '__main__':
    sys.exit(main(sys.argv[1:]))
