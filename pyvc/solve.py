"""Portfolio discharge of obligations: z3 (python API, 5.x) -> /usr/bin/z3 4.8 -> cvc5, over a process pool."""
import os, subprocess, tempfile, time, hashlib
import multiprocessing as mp
import z3

def conjuncts(g):
    if z3.is_and(g):
        out = []
        for c in g.children(): out += conjuncts(c)
        return out
    return [g]

def to_smt2(ob, axioms=(), goal=None):
    s = z3.Solver()
    for a in axioms: s.add(a)
    for a in ob.assumptions: s.add(a)
    s.add(z3.Not(ob.goal if goal is None else goal))
    return s.to_smt2()

def _run_cli(cmd, txt, timeout):
    with tempfile.NamedTemporaryFile('w', suffix='.smt2', delete=False, dir=os.environ.get('PYVC_TMP', None)) as f:
        f.write(txt); path = f.name
    try:
        t = time.time()
        p = subprocess.run(cmd + [path], capture_output=True, text=True, timeout=timeout + 10)
        out = (p.stdout or '').strip().splitlines()
        res = out[0].strip() if out else 'unknown'
        if res not in ('sat', 'unsat', 'unknown'): res = 'unknown'
        return res, time.time() - t
    except subprocess.TimeoutExpired:
        return 'unknown', timeout
    finally:
        try: os.unlink(path)
        except OSError: pass

def solve_one(job):
    """job = (key, smt2 text, timeout_s, expect_unprovable, backends) -> dict"""
    key, txt, timeout, canary, backends = job
    log = []
    result = 'unknown'; backend = None; model = None
    t_all = time.time()
    stages = []
    for be in backends:
        if be == 'z3py' and timeout > 12 and len(backends) > 1:
            stages.append(('z3py', 10.0))          # quick first attempt; the full budget is spent only after the other back ends had their turn
        else: stages.append((be, timeout))
    if len(backends) > 1 and timeout > 12 and 'z3py' in backends: stages.append(('z3py', timeout))
    for be, tmo in stages:
        t = time.time()
        timeout_ = tmo
        if be == 'z3py':
            try:
                ctx = z3.Context()
                s = z3.Solver(ctx=ctx)
                s.set('timeout', int(timeout_ * 1000))
                s.from_string(txt)
                r = str(s.check())
                if r == 'sat':
                    try: model = s.model().sexpr()[:20000]
                    except Exception: model = None
                if r == 'unknown':
                    log.append(('z3py', 'unknown:' + s.reason_unknown(), time.time() - t))
                else:
                    log.append(('z3py', r, time.time() - t))
            except Exception as e:      # parser / internal error: treat as unknown for this back end
                r = 'unknown'; log.append(('z3py', 'error:' + str(e)[:200], time.time() - t))
        elif be == 'z3cli':
            r, dt = _run_cli(['/usr/bin/z3', f'-T:{int(timeout_)}'], txt, timeout_); log.append(('z3-4.8', r, dt))
        elif be == 'cvc5':
            r, dt = _run_cli(['/usr/bin/cvc5', f'--tlimit={int(timeout_ * 1000)}', '--lang=smt2', '--full-saturate-quant'], "(set-logic ALL)\n" + txt, timeout_); log.append(('cvc5', r, dt))
        else:
            continue
        if r in ('unsat', 'sat'):
            result, backend = r, log[-1][0]
            break
    return dict(key=key, result=result, backend=backend, model=model, log=log, wall=time.time() - t_all)

def discharge(obls, axioms=(), timeout=60, canary_timeout=2, jobs=None, thorough=False, budgets=None):
    """obls: list of Obligation.  Returns list of result dicts in the same order."""
    jobs = jobs or min(16, os.cpu_count() or 4)
    work = []
    for k, ob in enumerate(obls):
        if ob.kind == 'canary':
            work.append(((k, 0), to_smt2(ob, axioms), canary_timeout, True, ['z3py']))
        else:
            for c, g in enumerate(conjuncts(ob.goal)):
                work.append(((k, c), to_smt2(ob, axioms, g), (budgets[k] if budgets else timeout), False, ['z3py', 'z3cli', 'cvc5']))
    if not work: return []
    if jobs == 1 or len(work) < 4:
        res = [solve_one(w) for w in work]
    else:
        ctx = mp.get_context('fork')
        with ctx.Pool(jobs) as pool:
            res = pool.map(solve_one, work, chunksize=1)
    # merge the conjuncts of one obligation: discharged iff every part is unsat
    merged = {}
    for r in res:
        k, c = r['key']
        m = merged.setdefault(k, dict(key=k, result='unsat', backend=None, model=None, log=[], wall=0.0, parts=0, failed_parts=[]))
        m['parts'] += 1; m['wall'] += r['wall']; m['log'] += r['log']
        if r['result'] != 'unsat':
            m['failed_parts'].append(c)
            if m['result'] == 'unsat' or r['result'] == 'sat': m['result'] = r['result']; m['model'] = r['model']
        if r['backend'] and (m['backend'] is None or r['result'] != 'unsat'): m['backend'] = r['backend']
    return [merged[k] for k in sorted(merged)]
