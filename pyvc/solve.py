"""Portfolio discharge of obligations: z3 (python API, 5.x) -> /usr/bin/z3 4.8 -> cvc5, over a process pool."""
import os, subprocess, tempfile, time, hashlib
import multiprocessing as mp
import z3

def conjuncts(g):
    if z3.is_and(g):
        out = []
        for c in g.children(): out += conjuncts(c)
        return out
    return [g]

def to_smt2(ob, axioms=(), goal=None, groups=None):
    s = z3.Solver()
    for a in axioms: s.add(a)
    if ob.axgroups:
        for g, fs in ob.axgroups.items():
            if groups is None or g in groups:
                for a in fs: s.add(a)
    for a in ob.assumptions: s.add(a)
    s.add(z3.Not(ob.goal if goal is None else goal))
    return s.to_smt2()

def _run_cli(cmd, txt, timeout):
    with tempfile.NamedTemporaryFile('w', suffix='.smt2', delete=False, dir=os.environ.get('PYVC_TMP', None)) as f:
        f.write(txt); path = f.name
    try:
        t = time.time()
        p = subprocess.run(cmd + [path], capture_output=True, text=True, timeout=timeout + 5)
        out = (p.stdout or '').strip().splitlines()
        res = out[0].strip() if out else 'unknown'
        if res not in ('sat', 'unsat', 'unknown'): res = 'unknown'
        return res, time.time() - t
    except subprocess.TimeoutExpired:
        return 'unknown', float(timeout)
    finally:
        try: os.unlink(path)
        except OSError: pass

Z3NEW = os.environ.get('PYVC_Z3NEW', 'z3-new')

def solve_one(job):
    """job = (key, [smt2 text variants: lightest first, full last], timeout_s, canary, _) -> dict.
    Every back end runs as a separate process with a hard timeout (in-process z3 does not honour timeouts inside E-matching loops)."""
    key, txts, timeout, canary, mode = job
    if isinstance(txts, str): txts = [txts]
    log = []
    result = 'unknown'; backend = None; model = None
    t_all = time.time()
    stages = []
    full = txts[-1]
    if canary: stages = [('z3-5.1', timeout, full)]
    elif mode == 'retry': stages = [('z3-5.1', timeout, full), ('z3-4.8', timeout, full)]
    else:
        for v in txts[:-1]: stages.append(('z3-5.1', min(5.0, timeout), v))       # lighter axiom sets first (sound: fewer assumptions)
        stages.append(('z3-5.1', 10.0 if timeout > 12 else timeout, full))
        stages += [('z3-4.8', timeout, full), ('cvc5', timeout, full)]
        if timeout > 12: stages.append(('z3-5.1', timeout, full))
    for be, tmo, txt in stages:
        if be == 'z3-5.1': r, dt = _run_cli([Z3NEW, f'-T:{max(1, int(tmo))}'], txt, tmo)
        elif be == 'z3-4.8': r, dt = _run_cli(['/usr/bin/z3', f'-T:{max(1, int(tmo))}'], txt, tmo)
        else: r, dt = _run_cli(['/usr/bin/cvc5', f'--tlimit={int(tmo * 1000)}', '--lang=smt2', '--full-saturate-quant'], "(set-logic ALL)\n" + txt, tmo)
        log.append((be, r, dt))
        if r == 'unsat' or (r == 'sat' and txt is full):
            result, backend = r, be
            break
    if result == 'sat' and not canary:
        try:
            p = subprocess.run([Z3NEW, '-T:10', '-in'], input=full.replace('(check-sat)', '(check-sat)\n(get-model)'), capture_output=True, text=True, timeout=20)
            model = p.stdout[:20000]
        except Exception: model = None
    return dict(key=key, result=result, backend=backend, model=model, log=log, wall=time.time() - t_all)

def discharge(obls, axioms=(), timeout=60, canary_timeout=4, jobs=None, thorough=False, budgets=None, mode=None):
    """obls: list of Obligation.  Returns list of result dicts in the same order."""
    jobs = jobs or min(16, os.cpu_count() or 4)
    work = []
    for k, ob in enumerate(obls):
        if ob.kind == 'canary':
            work.append(((k, 0), [to_smt2(ob, axioms)], canary_timeout, True, None))
        else:
            for c, g in enumerate(conjuncts(ob.goal)):
                if ob.axgroups:
                    variants = [to_smt2(ob, axioms, g, groups=())]
                    if 'ring' in ob.axgroups and len(ob.axgroups) > 1: variants.append(to_smt2(ob, axioms, g, groups=[x for x in ob.axgroups if x != 'ring']))
                    variants.append(to_smt2(ob, axioms, g))
                else: variants = [to_smt2(ob, axioms, g)]
                work.append(((k, c), variants, (budgets[k] if budgets else timeout), False, mode))
    if not work: return []
    if jobs == 1 or len(work) < 4:
        res = [solve_one(w) for w in work]
    else:
        ctx = mp.get_context('fork')
        with ctx.Pool(jobs) as pool:
            res = pool.map(solve_one, work, chunksize=1)
    # merge the conjuncts of one obligation: discharged iff every part is unsat
    merged = {}
    for r in res:
        k, c = r['key']
        m = merged.setdefault(k, dict(key=k, result='unsat', backend=None, model=None, log=[], wall=0.0, parts=0, failed_parts=[]))
        m['parts'] += 1; m['wall'] += r['wall']; m['log'] += r['log']
        if r['result'] != 'unsat':
            m['failed_parts'].append(c)
            if m['result'] == 'unsat' or r['result'] == 'sat': m['result'] = r['result']; m['model'] = r['model']
        if r['backend'] and (m['backend'] is None or r['result'] != 'unsat'): m['backend'] = r['backend']
    return [merged[k] for k in sorted(merged)]
