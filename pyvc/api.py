"""Contract-side API: units of verification, helpers to build symbolic inputs and quantified formulas."""
import z3
from z3 import And, Or, Not, Implies, If, Exists, IntVal, RealVal, BoolVal, Int, Real
from .engine import (ForAll, Interp, Repo, LoopContract, FuncContract, ArrVal, ArrRef, ObjRef, INF, tz, conc, is_sym, to_real,
                     zmin, zmax, Unsupported, RaiseEx, PathEnd, Infeasible, Func, Bound, ClassV)
from . import npstubs

IntS, RealS, BoolS = z3.IntSort(), z3.RealSort(), z3.BoolSort()
SRC = None   # set by the runner: path of /repo/src

class Unit:
    """one verified function (or lemma) under a configuration.
    body(I): runs ONE path (called repeatedly by the explorer); emits obligations through I.ob.
    loops: {(qualname, ordinal): LoopContract}; funcs: {qualname: FuncContract} (modular callees)
    axioms: list of z3 formulas (definitional axioms of spec functions) sent with every obligation
    expect_raise: if True a path ending in an exception is fine; otherwise `on_raise(I, exc)` decides
    """
    def __init__(self, name, body, loops=None, funcs=None, axioms=(), on_raise=None, functions=(), on_result=None, assumptions=(), reject_name=None):
        self.name, self.body, self.loops, self.funcs, self.axioms = name, body, loops or {}, funcs or {}, list(axioms)
        self.on_raise = on_raise
        # name of the clause 'this input is rejected': a raising path discharges it, a completing path states it as False under the same name (so that
        # accepting the input fails a baseline obligation instead of producing a new, unknown one)
        self.reject_name = reject_name
        self.functions = list(functions)     # qualnames of the repo functions this unit puts under contract
        self.assumptions = list(assumptions)

class Lemma:
    """pure obligation over contracts/spec functions: list of (label, hypotheses, goal)"""
    def __init__(self, name, items, axioms=()):
        self.name, self.items, self.axioms = name, items, list(axioms)

def qvars(prefix, n=1, sort=None):
    sort = sort or IntS
    vs = [z3.Const(f"{prefix}{k}", sort) for k in range(n)]
    return vs[0] if n == 1 else vs

def inrange(j, lo, hi): return And(tz(lo) <= j, j < tz(hi))

def forall(vs, body, patterns=None):
    if not isinstance(vs, (list, tuple)): vs = [vs]
    if patterns: return ForAll(list(vs), body, patterns=patterns)
    return ForAll(list(vs), body)

def seq(I, v):
    """(length, elem) view of a python list / list-like array"""
    if isinstance(v, ArrRef):
        A = I.A(v); return tz(A.shape[0]), A.elem
    if isinstance(v, (list, tuple)):
        vals = [tz(x) for x in v]
        def elem(i):
            r = vals[-1] if vals else IntVal(0)
            for a in range(len(vals) - 2, -1, -1): r = If(tz(i) == a, vals[a], r)
            return r
        return IntVal(len(vals)), elem
    raise Unsupported("seq view")
