"""Matrix-level algebraic layer: 2-D real arrays as terms of an uninterpreted sort Mat with the ring-like laws of matrix algebra.

Soundness of using the ring laws without dimension typing: a model is the set of pairs (dims, finitely supported infinite matrix) with the usual
operations on the matrices, dims(mul(A,B)) = (rows A, cols B), dims(add/sub) = component-wise maximum, dims(T) swapped; all laws below hold in it.
Identity laws are guarded by rows/cols, dimension facts of sums by conformability, Id/Zero by non-negative sizes.  Consistency of everything a path
assumes is checked on every run by a vacuity canary at the end of every path (this caught two inconsistent unguarded dimension axioms).
Extensionality (equal dimensions and equal entries => equal matrices) is a meta-rule applied through `mat_ext` (obligation, then equality).
"""
import ast
import z3
from z3 import And, Or, Not, Implies, If, IntVal, RealVal, BoolVal
from .engine import ForAll, ArrVal, ArrRef, Unsupported, RaiseEx, tz, conc, is_sym, to_real
from . import npstubs as N

Mat = z3.DeclareSort('Mat')
IntS, RealS = z3.IntSort(), z3.RealSort()
rows = z3.Function('rows', Mat, IntS); cols = z3.Function('cols', Mat, IntS)
at = z3.Function('at', Mat, IntS, IntS, RealS)
mul = z3.Function('mul', Mat, Mat, Mat); add = z3.Function('madd', Mat, Mat, Mat); sub = z3.Function('msub', Mat, Mat, Mat)
T = z3.Function('T', Mat, Mat); smul = z3.Function('smul', RealS, Mat, Mat)
Id = z3.Function('Id', IntS, Mat); Zero = z3.Function('Zero', IntS, IntS, Mat)
tr = z3.Function('tr', Mat, RealS); fro2 = z3.Function('fro2', Mat, RealS)
isdiag = z3.Function('isdiag', Mat, z3.BoolSort())
pinv = z3.Function('pinv', Mat, Mat)

def axioms(group=None):
    """group None: all; 'ring': algebraic laws (associativity, distributivity, transposes ...); 'entries': dimensions, entries, diagonal products, sqrt"""
    all_ = _axioms()
    if group is None: return all_['entries'] + all_['ring']
    return all_[group]

def _axioms():
    A, B, C = z3.Consts('A!m B!m C!m', Mat); c, d = z3.Reals('c!m d!m'); n, m, i, j = z3.Ints('n!m m!m i!m j!m')
    ax = [
        # dimensions
        ForAll([A, B], And(rows(mul(A, B)) == rows(A), cols(mul(A, B)) == cols(B)), patterns=[mul(A, B)]),
        # sums/differences: dimensions only for conformable operands (with commutativity an unguarded version would force all matrices to one size;
        # model: (dims, finitely supported matrix) pairs with dims(add) = component-wise maximum)
        ForAll([A, B], Implies(And(rows(A) == rows(B), cols(A) == cols(B)), And(rows(add(A, B)) == rows(A), cols(add(A, B)) == cols(A))), patterns=[add(A, B)]),
        ForAll([A, B], Implies(And(rows(A) == rows(B), cols(A) == cols(B)), And(rows(sub(A, B)) == rows(A), cols(sub(A, B)) == cols(A))), patterns=[sub(A, B)]),
        ForAll([A], And(rows(T(A)) == cols(A), cols(T(A)) == rows(A)), patterns=[T(A)]),
        ForAll([c, A], And(rows(smul(c, A)) == rows(A), cols(smul(c, A)) == cols(A)), patterns=[smul(c, A)]),
        ForAll([n], Implies(n >= 0, And(rows(Id(n)) == n, cols(Id(n)) == n)), patterns=[Id(n)]),
        ForAll([n, m], Implies(And(n >= 0, m >= 0), And(rows(Zero(n, m)) == n, cols(Zero(n, m)) == m)), patterns=[Zero(n, m)]),
        ForAll([A], And(rows(A) >= 0, cols(A) >= 0), patterns=[rows(A)]),
        '$RING$',
        ForAll([A, B, C], mul(mul(A, B), C) == mul(A, mul(B, C)), patterns=[mul(mul(A, B), C)]),
        ForAll([A, B, C], mul(A, mul(B, C)) == mul(mul(A, B), C), patterns=[mul(A, mul(B, C))]),
        ForAll([A, B], T(mul(A, B)) == mul(T(B), T(A)), patterns=[T(mul(A, B))]),
        ForAll([A, B], mul(T(B), T(A)) == T(mul(A, B)), patterns=[mul(T(B), T(A))]),
        ForAll([A], T(T(A)) == A, patterns=[T(T(A))]),
        ForAll([A, B], T(add(A, B)) == add(T(A), T(B)), patterns=[T(add(A, B))]),
        ForAll([A, B], T(sub(A, B)) == sub(T(A), T(B)), patterns=[T(sub(A, B))]),
        ForAll([c, A], T(smul(c, A)) == smul(c, T(A)), patterns=[T(smul(c, A))]),
        ForAll([n], T(Id(n)) == Id(n), patterns=[T(Id(n))]),
        ForAll([A], mul(Id(rows(A)), A) == A, patterns=[mul(Id(rows(A)), A)]),
        ForAll([A], mul(A, Id(cols(A))) == A, patterns=[mul(A, Id(cols(A)))]),
        ForAll([n, A], Implies(rows(A) == n, mul(Id(n), A) == A), patterns=[mul(Id(n), A)]),
        ForAll([n, A], Implies(cols(A) == n, mul(A, Id(n)) == A), patterns=[mul(A, Id(n))]),
        ForAll([A, B, C], mul(A, add(B, C)) == add(mul(A, B), mul(A, C)), patterns=[mul(A, add(B, C))]),
        ForAll([A, B, C], mul(add(A, B), C) == add(mul(A, C), mul(B, C)), patterns=[mul(add(A, B), C)]),
        ForAll([A, B, C], mul(A, sub(B, C)) == sub(mul(A, B), mul(A, C)), patterns=[mul(A, sub(B, C))]),
        ForAll([A, B, C], mul(sub(A, B), C) == sub(mul(A, C), mul(B, C)), patterns=[mul(sub(A, B), C)]),
        ForAll([c, A, B], mul(smul(c, A), B) == smul(c, mul(A, B)), patterns=[mul(smul(c, A), B)]),
        ForAll([c, A, B], mul(A, smul(c, B)) == smul(c, mul(A, B)), patterns=[mul(A, smul(c, B))]),
        ForAll([c, d, A], smul(c, smul(d, A)) == smul(c * d, A), patterns=[smul(c, smul(d, A))]),
        ForAll([A], smul(1, A) == A, patterns=[smul(1, A)]),
        ForAll([A, B], add(A, B) == add(B, A), patterns=[add(A, B)]),
        ForAll([A, B, C], add(add(A, B), C) == add(A, add(B, C)), patterns=[add(add(A, B), C)]),
        ForAll([c, A, B], smul(c, add(A, B)) == add(smul(c, A), smul(c, B)), patterns=[smul(c, add(A, B))]),
        ForAll([A], sub(A, A) == Zero(rows(A), cols(A)), patterns=[sub(A, A)]),
        ForAll([A, n, m], Implies(And(rows(A) == n, cols(A) == m), And(add(Zero(n, m), A) == A, add(A, Zero(n, m)) == A)), patterns=[add(Zero(n, m), A)]),
        '$ENTRIES$',
        ForAll([A, B, i, j], at(add(A, B), i, j) == at(A, i, j) + at(B, i, j), patterns=[at(add(A, B), i, j)]),
        ForAll([A, B, i, j], at(sub(A, B), i, j) == at(A, i, j) - at(B, i, j), patterns=[at(sub(A, B), i, j)]),
        ForAll([c, A, i, j], at(smul(c, A), i, j) == c * at(A, i, j), patterns=[at(smul(c, A), i, j)]),
        ForAll([A, i, j], at(T(A), i, j) == at(A, j, i), patterns=[at(T(A), i, j)]),
        ForAll([n, i, j], at(Id(n), i, j) == If(i == j, RealVal(1), RealVal(0)), patterns=[at(Id(n), i, j)]),
        ForAll([n, m, i, j], at(Zero(n, m), i, j) == 0, patterns=[at(Zero(n, m), i, j)]),
        # diagonal factors: entries of a product with a diagonal matrix
        ForAll([A, B, i, j], Implies(isdiag(A), at(mul(A, B), i, j) == at(A, i, i) * at(B, i, j)), patterns=[at(mul(A, B), i, j), isdiag(A)]),
        ForAll([A, B, i, j], Implies(isdiag(B), at(mul(A, B), i, j) == at(A, i, j) * at(B, j, j)), patterns=[at(mul(A, B), i, j), isdiag(B)]),
        ForAll([A, i, j], Implies(And(isdiag(A), i != j), at(A, i, j) == 0), patterns=[at(A, i, j), isdiag(A)]),
        ForAll([A], Implies(isdiag(A), T(A) == A), patterns=[T(A), isdiag(A)]),
        # trace / Frobenius norm
        ForAll([A, B], tr(add(A, B)) == tr(A) + tr(B), patterns=[tr(add(A, B))]),
        ForAll([A, B], tr(sub(A, B)) == tr(A) - tr(B), patterns=[tr(sub(A, B))]),
        ForAll([c, A], tr(smul(c, A)) == c * tr(A), patterns=[tr(smul(c, A))]),
        ForAll([A, B], tr(mul(A, B)) == tr(mul(B, A)), patterns=[tr(mul(A, B))]),
        ForAll([A], tr(T(A)) == tr(A), patterns=[tr(T(A))]),
        ForAll([A], fro2(A) == tr(mul(T(A), A)), patterns=[fro2(A)]),
        ForAll([A], fro2(A) >= 0, patterns=[fro2(A)]),
    ]
    x = z3.Real('x!sq')
    ax.append(ForAll([x], Implies(x >= 0, And(N.SQRT(x) >= 0, N.SQRT(x) * N.SQRT(x) == x)), patterns=[N.SQRT(x)]))
    ax.append(ForAll([x], Implies(x > 0, N.SQRT(x) > 0), patterns=[N.SQRT(x)]))
    # reciprocal facts about square roots (nonlinear; stated once so that the solver need not invent them)
    ax.append(ForAll([x], Implies(x > 0, And((1 / N.SQRT(x)) * N.SQRT(x) == 1, (1 / N.SQRT(x)) * (1 / N.SQRT(x)) * x == 1, (1 / N.SQRT(x)) * x == N.SQRT(x), (1 / N.SQRT(x)) > 0)), patterns=[N.SQRT(x)]))
    ax.append(ForAll([A], smul(0, A) == Zero(rows(A), cols(A)), patterns=[smul(0, A)]))
    i1 = next(i for i, x in enumerate(ax) if isinstance(x, str) and x == '$RING$'); i2 = next(i for i, x in enumerate(ax) if isinstance(x, str) and x == '$ENTRIES$')
    return {'entries': ax[:i1] + ax[i2 + 1:], 'ring': ax[i1 + 1:i2]}

COLOF = z3.Function('COLOF', Mat, IntS, Mat)       # the i-th column as an (n, 1) matrix

def colof_axioms():
    M = z3.Const('M!c', Mat); i, r = z3.Ints('i!c r!c')
    return [ForAll([M, i], And(rows(COLOF(M, i)) == rows(M), cols(COLOF(M, i)) == 1), patterns=[COLOF(M, i)]),
            ForAll([M, i, r], at(COLOF(M, i), r, 0) == at(M, r, i), patterns=[at(COLOF(M, i), r, 0)]),
            ForAll([M], Implies(cols(M) == 1, COLOF(M, 0) == M), patterns=[COLOF(M, 0)])]

def getitem_hook(I, b, ix):
    """M[:, [i]] keeps the matrix-level identity of the column"""
    if not is_mat(I, b) or not isinstance(ix, tuple) or len(ix) != 2: return None
    r0, c0 = ix
    if isinstance(r0, slice) and r0 == slice(None) and isinstance(c0, list) and len(c0) == 1:
        N.norm_index(I, c0[0], I.A(b).shape[1], 'column index')
        return mk(I, COLOF(I.A(b).tag[1], tz(c0[0])), (I.A(b).shape[0], 1))
    return None

def mat_of(I, a):
    """Mat term of a 2-D real array value (created on demand for element-defined arrays: a fresh constant with its entries)"""
    A = I.A(a) if isinstance(a, ArrRef) else a
    if A.tag and A.tag[0] == 'mat': return A.tag[1]
    if A.ndim != 2: raise Unsupported("matrix view of a non-2-D array")
    if A.tag and A.tag[0] == 'const' and z3.is_rational_value(z3.simplify(A.tag[1])) and z3.simplify(A.tag[1]).numerator_as_long() == 0:
        return Zero(tz(A.shape[0]), tz(A.shape[1]))
    I.st.nfresh += 1
    M = z3.Const(f"M!{I.st.nfresh}", Mat)
    i, j = z3.Ints('i!mo j!mo')
    I.assume(And(rows(M) == tz(A.shape[0]), cols(M) == tz(A.shape[1])))
    I.assume(ForAll([i, j], at(M, i, j) == A.elem(i, j), patterns=[at(M, i, j)]))
    if isinstance(a, ArrRef): I.st.heap[a.id] = ArrVal(A.shape, A.elem, A.sort, ('mat', M), A.islist, A.vecs)
    return M

def mk(I, M, shape):
    return I.new_arr(ArrVal(shape, lambda i, j: at(M, tz(i), tz(j)), RealS, ('mat', M)))

def fresh_mat(I, name, shape):
    I.st.nfresh += 1
    M = z3.Const(f"{name}!{I.st.nfresh}", Mat)
    I.assume(And(rows(M) == tz(shape[0]), cols(M) == tz(shape[1])))
    return mk(I, M, shape)

def is_mat(I, a):
    return isinstance(a, ArrRef) and I.A(a).ndim == 2 and I.A(a).sort == RealS and I.A(a).tag is not None and I.A(a).tag[0] == 'mat'

def shape_eq(I, x, y, what):
    sd = N.same_dim(x, y)
    if sd is False: raise RaiseEx('ValueError')
    if sd is None: I.ob(f"shape:{what}", tz(x) == tz(y), kind='shape')

def matmul_hook(I, a, b, what):
    if not (isinstance(a, ArrRef) and isinstance(b, ArrRef)): return None
    A, B = I.A(a), I.A(b)
    if A.ndim == 2 and B.ndim == 2 and A.sort == RealS and B.sort == RealS:
        N.used('np.matmul (matrix layer)')
        shape_eq(I, A.shape[1], B.shape[0], what)
        return mk(I, mul(mat_of(I, a), mat_of(I, b)), (A.shape[0], B.shape[1]))
    return None

def binop_hook(I, op, a, b, what):
    """elementwise + - and scalar * / on matrices stay matrices"""
    is2 = lambda x: isinstance(x, ArrRef) and I.A(x).ndim == 2 and I.A(x).sort == RealS
    am, bm = is2(a), is2(b)       # with the matrix layer installed every 2-D real array is handled as a matrix (entries stay available through `at`)
    if not (am or bm): return None
    if op in (ast.Add, ast.Sub) and isinstance(a, ArrRef) and isinstance(b, ArrRef):
        A, B = I.A(a), I.A(b)
        if A.ndim == 2 and B.ndim == 2:
            shape_eq(I, A.shape[0], B.shape[0], what); shape_eq(I, A.shape[1], B.shape[1], what)
            f = add if op is ast.Add else sub
            return mk(I, f(mat_of(I, a), mat_of(I, b)), A.shape)
    if op is ast.Mult and (not isinstance(a, ArrRef) or not isinstance(b, ArrRef)):
        c, M = (a, b) if not isinstance(a, ArrRef) else (b, a)
        if c is None: return None
        return mk(I, smul(to_real(tz(c)), mat_of(I, M)), I.A(M).shape)
    if op is ast.Div and isinstance(a, ArrRef) and not isinstance(b, ArrRef):
        return mk(I, smul(1 / to_real(tz(b)), mat_of(I, a)), I.A(a).shape)
    return None

def a_T(I, a):
    A = I.A(a)
    if A.ndim == 2 and A.sort == RealS: return mk(I, T(mat_of(I, a)), (A.shape[1], A.shape[0]))
    return None

def np_eye(I, n, *a, **k):
    N.used('np.eye')
    return mk(I, Id(tz(n)), (conc(n), conc(n)))

def multi_dot(I, mats, **k):
    N.used('np.linalg.multi_dot')
    r = mats[0]
    for m in mats[1:]: r = N.matmul(I, r, m, 'multi_dot')
    return r

def np_trace(I, a, **k):
    N.used('np.trace')
    return tr(mat_of(I, a))

def fro_norm(I, a, axis=None, **k):
    """np.linalg.norm of a matrix (Frobenius)"""
    if isinstance(a, ArrRef) and is_mat(I, a) and axis is None:
        N.used('np.linalg.norm (Frobenius)')
        return N.sqrt_(I, fro2(mat_of(I, a)))
    return None

def mat_ext(I, label, Aexpr, Bexpr, nrows, ncols):
    """extensionality as a proof rule: obligation (same dimensions, same entries), then the equality is available"""
    i, j = z3.Ints('i!ext j!ext')
    I.ob(f"ext:{label}", And(rows(Aexpr) == tz(nrows), rows(Bexpr) == tz(nrows), cols(Aexpr) == tz(ncols), cols(Bexpr) == tz(ncols),
                              ForAll([i, j], Implies(And(0 <= i, i < tz(nrows), 0 <= j, j < tz(ncols)), at(Aexpr, i, j) == at(Bexpr, i, j)))), kind='lemma')
    I.assume(Aexpr == Bexpr)

def comp_sym(I, e, g, it, F):
    """[f(s) for s in <1-D symbolic array>] with a scalar body: evaluated once on a bound index"""
    if not isinstance(it, ArrRef) or I.A(it).ndim != 1 or g.ifs: raise Unsupported("comprehension over symbolic iterable")
    A = I.A(it)
    k = I.fresh('k!comp', IntS)
    G = dict(F); I.assign(g.target, A.elem(k), G)
    I.st.guards.append(And(0 <= k, k < tz(A.shape[0])))
    try: body = I.ev(e.elt, G)
    finally: I.st.guards.pop()
    if isinstance(body, ArrRef) or not (is_sym(body) or isinstance(body, (int, float))): raise Unsupported("comprehension body is not a scalar")
    body = tz(body)
    srt = body.sort()
    return I.new_arr(ArrVal((A.shape[0],), (lambda body, k: lambda i: z3.substitute(body, (k, tz(i))))(body, k), srt, None, True))

def np_diagflat(I, v, **kw):
    N.used('np.diagflat')
    if isinstance(v, (list, tuple)): v = N.from_list(I, v)
    V = I.A(v)
    if V.ndim != 1: raise Unsupported("diagflat of nd")
    n = V.shape[0]
    I.st.nfresh += 1
    D = z3.Const(f"D!{I.st.nfresh}", Mat)
    i = z3.Int('i!df')
    I.assume(And(rows(D) == tz(n), cols(D) == tz(n), isdiag(D)))
    I.assume(ForAll([i], at(D, i, i) == to_real(V.elem(i)), patterns=[at(D, i, i)]))
    if isinstance(getattr(I, 'cur', None), dict): I.cur.setdefault('diags', []).append(D)
    return mk(I, D, (n, n))

BINOP_HOOKS = []
def install(ext):
    if matmul_hook not in N.MATMUL_HOOKS: N.MATMUL_HOOKS.insert(0, matmul_hook)
    np = ext['modules']['np']
    np.eye = np_eye; np.identity = np_eye
    np.linalg.multi_dot = multi_dot
    np.trace = np_trace
    np.diagflat = np_diagflat
    ext['comp_sym'] = comp_sym
    prev_norm = getattr(np.linalg, 'norm', None)
    def norm(I, a, *args, **kw):
        r = fro_norm(I, a, *args, **kw)
        if r is not None: return r
        if prev_norm: return prev_norm(I, a, *args, **kw)
        raise Unsupported("np.linalg.norm form")
    np.linalg.norm = norm
    ext['mat_binop'] = binop_hook
    ext['mat_getitem'] = getitem_hook
    ext['mat_T'] = a_T
