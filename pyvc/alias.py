"""C09 frame analysis: a may-alias / may-mutate dataflow over the real AST of every function of skmatter.

It discharges frame obligations ("this in-place write cannot reach an array supplied by the caller", "fit does not assign a constructor
parameter", "every normal return of fit returns self", "fit (re)assigns every learned attribute it or any other method reads", "no value
derived from the wall clock reaches a learned attribute") by a sound over-approximation: an obligation is discharged only if NO flow
exists under the classification of externals below; any flow found is reported with its path (function, line, variable).

Assumptions (listed in the evidence): externals not named in VIEW_FUNCS return fresh arrays; externals never mutate their inputs
(except out=/in-place numpy functions listed in MUTATORS); no reflection (setattr/getattr with computed names) — each use is reported.
"""
import ast, os
from .engine import Repo, ClassV, Func

# externals whose result may alias (view of / same object as) their first array argument(s)
VIEW_FUNCS = {'np.asarray', 'np.asanyarray', 'np.ascontiguousarray', 'np.reshape', 'np.ravel', 'np.real', 'np.imag', 'np.atleast_1d', 'np.atleast_2d', 'np.squeeze',
              'np.transpose', 'np.swapaxes', 'np.flip', 'np.diagonal', 'np.broadcast_to', 'np.expand_dims', 'np.moveaxis', 'np.array_split', 'np.split',
              'check_array', 'check_X_y', 'check_pairwise_arrays', 'column_or_1d', '_check_sample_weight', 'pairwise_kernels', 'check_is_fitted',
              'np.array' , 'as_float_array', 'safe_mask', 'list', 'tuple', 'zip', 'enumerate', 'reversed', 'iter', 'getattr'}
VIEW_METHODS = {'reshape', 'ravel', 'view', 'squeeze', 'transpose', 'swapaxes', 'T', 'real', 'imag', 'flat', '_validate_data', 'get'}
FRESH_METHODS = {'copy', 'astype', 'sum', 'mean', 'dot', 'flatten', 'tolist', 'std', 'var', 'min', 'max', 'argmax', 'argmin', 'cumsum', 'round', 'conj', 'nonzero', 'any', 'all',
                 'fit', 'predict', 'transform', 'fit_transform', 'score', 'split', 'randint', 'items', 'keys', 'values', 'format', 'join', 'inverse_transform', 'get_params', 'set_params'}
MUTATING_METHODS = {'sort', 'fill', 'append', 'extend', 'insert', 'pop', 'remove', 'clear', 'update', 'setdefault', 'resize', 'put', 'itemset', 'partition', 'setflags', 'reverse'}
MUTATORS = {'np.fill_diagonal': [0], 'np.put': [0], 'np.place': [0], 'np.copyto': [0], 'np.putmask': [0], 'np.random.shuffle': [0]}   # plus out= keyword and 3-arg ufuncs
UFUNC3 = {'np.minimum', 'np.maximum', 'np.add', 'np.subtract', 'np.multiply', 'np.divide', 'np.sqrt', 'np.exp', 'np.log', 'np.power', 'np.clip', 'np.abs'}

class Site:
    def __init__(self, qual, line, text, kind): self.qual, self.line, self.text, self.kind = qual, line, text, kind
    def __repr__(self): return f"{self.qual}:{self.line} `{self.text}`"

class Summary:
    def __init__(self):
        self.mutates = {}       # param -> list of Site (in-place writes that may reach it)
        self.ret = set()        # params (or 'A:attr') the return value may alias
        self.attr_store = {}    # attr -> set of params whose object may be stored into self.attr (alias, not copy)
        self.attr_mut = {}      # attr -> list of Site: in-place writes to the object held by self.attr
        self.attr_assigned = set()
        self.reflect = []

class FrameAnalysis:
    def __init__(self, src):
        self.repo = Repo(src)
        self.src = src
        self.funcs = {}         # qual -> (modname, FunctionDef, ClassDef or None)
        self.classes = {}       # qual -> (modname, ClassDef)
        for root, dirs, files in os.walk(os.path.join(src, 'skmatter')):
            for f in files:
                if not f.endswith('.py'): continue
                rel = os.path.relpath(os.path.join(root, f), src)[:-3].replace(os.sep, '.')
                if rel.endswith('.__init__'): rel = rel[:-9]
                mod = self.repo.module(rel)
                for n in mod.body:
                    if isinstance(n, ast.FunctionDef): self.funcs[f"{rel}.{n.name}"] = (rel, n, None)
                    if isinstance(n, ast.ClassDef):
                        self.classes[f"{rel}.{n.name}"] = (rel, n)
                        for m in n.body:
                            if isinstance(m, ast.FunctionDef): self.funcs[f"{rel}.{n.name}.{m.name}"] = (rel, m, n)
        # attributes/parameters that the code itself type-checks as numbers (isinstance(self.x, numbers.Integral/Real/int/float)): scalars
        # are immutable, an augmented assignment on them rebinds the name and cannot write through an alias
        self.scalar_attrs = set()
        for q, (m_, fn_, c_) in self.funcs.items():
            for n_ in ast.walk(fn_):
                if isinstance(n_, ast.Call) and isinstance(n_.func, ast.Name) and n_.func.id == 'isinstance' and len(n_.args) == 2:
                    t_ = ast.unparse(n_.args[1])
                    if any(k in t_ for k in ('Integral', 'Real', 'int', 'float', 'Number')) and 'ndarray' not in t_ and 'list' not in t_:
                        a0 = n_.args[0]
                        if isinstance(a0, ast.Attribute) and isinstance(a0.value, ast.Name) and a0.value.id == 'self': self.scalar_attrs.add(a0.attr)
        self.summaries = {}     # (qual, flags tuple) -> Summary
        self.in_progress = set()

    # ---- class helpers
    def class_of(self, modname, name):
        r = self.repo.lookup(modname, name)
        return r if isinstance(r, ClassV) else None
    def mro(self, cqual):
        out = [cqual]
        mod, node = self.classes[cqual]
        for b in node.bases:
            if isinstance(b, ast.Name):
                c = self.class_of(mod, b.id)
                if c is not None and c.qual in self.classes:
                    for x in self.mro(c.qual):
                        if x not in out: out.append(x)
        return out
    def find_method(self, cqual, name, after=None):
        chain = self.mro(cqual)
        if after is not None and after in chain: chain = chain[chain.index(after) + 1:]
        for c in chain:
            q = f"{c}.{name}"
            if q in self.funcs: return q
        return None
    def attr_types(self, cqual):
        """attr -> repo class qual, for attributes assigned from a repo class constructor anywhere in the class"""
        if not hasattr(self, '_attr_types'): self._attr_types = {}
        if cqual in self._attr_types: return self._attr_types[cqual]
        out = {}
        for c in self.mro(cqual):
            mod, node = self.classes[c]
            for n_ in ast.walk(node):
                if isinstance(n_, ast.Assign) and isinstance(n_.value, ast.Call) and isinstance(n_.value.func, ast.Name):
                    k = self.class_of(mod, n_.value.func.id)
                    if k is not None and k.qual in self.classes:
                        for t in n_.targets:
                            if isinstance(t, ast.Attribute) and isinstance(t.value, ast.Name) and t.value.id == 'self': out.setdefault(t.attr, k.qual)
        self._attr_types[cqual] = out
        return out
    def init_params(self, cqual):
        out = []
        for c in self.mro(cqual):
            q = f"{c}.__init__"
            if q in self.funcs:
                a = self.funcs[q][1].args
                out += [x.arg for x in a.args[1:] + a.kwonlyargs]
        return set(out)

    # ---- call-name helpers
    def call_name(self, f):
        try: return ast.unparse(f)
        except Exception: return ''
    def resolve_call(self, modname, fnode, cls_ctx, local_types=None):
        """-> ('repo', qual, is_method_on_self) | ('ext', dotted name) | None"""
        if isinstance(fnode, ast.Name):
            r = self.repo.lookup(modname, fnode.id)
            if isinstance(r, Func): return ('repo', r.qual, False)
            if isinstance(r, ClassV): return ('ctor', r.qual, False)
            return ('ext', fnode.id)
        if isinstance(fnode, ast.Attribute):
            if isinstance(fnode.value, ast.Name) and fnode.value.id == 'self' and cls_ctx:
                q = self.find_method(cls_ctx[0], fnode.attr)
                if q: return ('repo', q, True)
                return ('selfext', fnode.attr)
            if isinstance(fnode.value, ast.Call) and isinstance(fnode.value.func, ast.Name) and fnode.value.func.id == 'super' and cls_ctx:
                q = self.find_method(cls_ctx[0], fnode.attr, after=cls_ctx[1])
                if q: return ('repo', q, True)
                return ('selfext', fnode.attr)
            # method of another repo object whose class is known: self.<attr> assigned from a repo constructor, or a local so assigned
            tcls = None
            v = fnode.value
            if isinstance(v, ast.Attribute) and isinstance(v.value, ast.Name) and v.value.id == 'self' and cls_ctx:
                tcls = self.attr_types(cls_ctx[0]).get(v.attr)
            elif isinstance(v, ast.Name) and local_types and v.id in local_types:
                tcls = local_types[v.id]
            if tcls:
                q = self.find_method(tcls, fnode.attr)
                if q: return ('repo', q, 'other', tcls)
            return ('ext', self.call_name(fnode))
        return None

    # ---- per function analysis
    def summary(self, qual, flags=(), cls_ctx=None):
        """cls_ctx = (concrete class qual the method is called on, defining class qual)"""
        key = (qual, flags, cls_ctx[0] if cls_ctx else None)
        if key in self.summaries: return self.summaries[key]
        if key in self.in_progress: return Summary()
        self.in_progress.add(key)
        mod, fn, cnode = self.funcs[qual]
        if cnode is not None and cls_ctx is None:
            cq = qual.rsplit('.', 1)[0]; cls_ctx = (cq, cq)
        elif cnode is not None:
            cls_ctx = (cls_ctx[0], qual.rsplit('.', 1)[0])
        S = Summary()
        env = {}
        a = fn.args
        params = [x.arg for x in a.posonlyargs + a.args + a.kwonlyargs]
        if a.vararg: params.append(a.vararg.arg)
        if a.kwarg: params.append(a.kwarg.arg)
        for p in params:
            if p == 'self': env[p] = {'SELF'}
            else: env[p] = {'P:' + p}
        W = _Walker(self, qual, mod, fn, cls_ctx, dict(flags), S, env)
        W.block(fn.body)
        self.in_progress.discard(key)
        self.summaries[key] = S
        return S

class _Walker:
    def __init__(self, A, qual, mod, fn, cls_ctx, flags, S, env):
        self.A, self.qual, self.mod, self.fn, self.cls_ctx, self.flags, self.S, self.env = A, qual, mod, fn, cls_ctx, flags, S, env
        self.attr_env = {}
        self.local_types = {}
    def site(self, node, kind):
        return Site(self.qual, getattr(node, 'lineno', 0), ast.unparse(node)[:100].replace('\n', ' '), kind)
    # origins of an expression
    def orig(self, e):
        if e is None: return set()
        if isinstance(e, ast.Name): return set(self.env.get(e.id, set()))
        if isinstance(e, ast.Constant): return set()
        if isinstance(e, ast.Attribute):
            if isinstance(e.value, ast.Name) and e.value.id == 'self':
                if e.attr in self.A.scalar_attrs: return set()
                if self.cls_ctx:
                    q = self.A.find_method(self.cls_ctx[0], e.attr)
                    if q and any(isinstance(d, ast.Name) and d.id == 'property' for d in self.A.funcs[q][1].decorator_list) and q != self.qual:
                        # property access runs the getter: merge its effects (lazily written caches, in-place writes)
                        S2 = self.A.summary(q, (), (self.cls_ctx[0], q.rsplit('.', 1)[0]))
                        self.S.attr_assigned |= S2.attr_assigned
                        for at, sites in S2.attr_mut.items(): self.S.attr_mut.setdefault(at, []).extend(sites)
                        return {x for x in S2.ret if x.startswith('A:')}
                return {'A:' + e.attr} | self.attr_env.get(e.attr, set())
            if e.attr in VIEW_METHODS or e.attr in ('T', 'real', 'imag', 'flat'): return self.orig(e.value)
            return set()
        if isinstance(e, ast.Subscript):
            sl = e.slice
            fancy = isinstance(sl, ast.List) or (isinstance(sl, ast.Tuple) and any(isinstance(x, ast.List) for x in sl.elts))
            if fancy: return set()
            base = self.orig(e.value)
            return base
        if isinstance(e, ast.Starred): return self.orig(e.value)
        if isinstance(e, ast.IfExp): return self.orig(e.body) | self.orig(e.orelse)
        if isinstance(e, (ast.Tuple, ast.List)):
            out = set()
            for x in e.elts: out |= self.orig(x)
            return out
        if isinstance(e, ast.BoolOp):
            out = set()
            for x in e.values: out |= self.orig(x)
            return out
        if isinstance(e, ast.NamedExpr):
            o = self.orig(e.value); self.env[e.target.id] = o; return o
        if isinstance(e, ast.Call): return self.call(e, stmt=False)
        if isinstance(e, ast.Lambda): return set()
        return set()     # arithmetic, comparisons, comprehensions, f-strings: fresh values
    def elem_orig(self, e):
        """per-element origins for tuple-valued expressions (for unpacking)"""
        if isinstance(e, (ast.Tuple, ast.List)): return [self.orig(x) for x in e.elts]
        return None
    def call(self, c, stmt):
        A = self.A
        name = A.call_name(c.func)
        args = list(c.args); kws = {k.arg: k.value for k in c.keywords if k.arg}
        for x in args:
            if isinstance(x, ast.Call): self.call(x, stmt=False)
        # mutation effects of externals
        if 'out' in kws: self.inplace(kws['out'], c, 'out=')
        if name in UFUNC3 and len(args) == 3: self.inplace(args[2], c, 'ufunc-out')
        if name in MUTATORS:
            for i in MUTATORS[name]:
                if i < len(args): self.inplace(args[i], c, name)
        if isinstance(c.func, ast.Attribute) and c.func.attr in MUTATING_METHODS and not (isinstance(c.func.value, ast.Name) and c.func.value.id in ('np', 'warnings')):
            self.inplace(c.func.value, c, 'method .' + c.func.attr)
        if name in ('setattr', 'delattr', '__setattr__'): self.S.reflect.append(self.site(c, 'reflection'))
        r = A.resolve_call(self.mod, c.func, self.cls_ctx, self.local_types)
        if r and r[0] == 'repo':
            qual = r[1]
            mod2, fn2, cnode2 = A.funcs[qual]
            a2 = fn2.args
            pnames = [x.arg for x in a2.posonlyargs + a2.args]
            other = (r[2] == 'other')
            if r[2] or (cnode2 is not None and pnames and pnames[0] == 'self' and not isinstance(c.func, ast.Name)): pnames = pnames[1:]
            bind = {}
            for i, x in enumerate(args):
                if isinstance(x, ast.Starred): continue
                if i < len(pnames): bind[pnames[i]] = x
            for k, v in kws.items(): bind[k] = v
            # boolean flags (copy=...) select the callee variant
            flags = []
            allp = [x.arg for x in a2.posonlyargs + a2.args + a2.kwonlyargs]
            defaults = {}
            d = a2.defaults
            for nme, dv in zip([x.arg for x in (a2.posonlyargs + a2.args)][len(a2.posonlyargs + a2.args) - len(d):], d): defaults[nme] = dv
            for x, dv in zip(a2.kwonlyargs, a2.kw_defaults):
                if dv is not None: defaults[x.arg] = dv
            for fl in ('copy',):
                if fl in allp:
                    v = bind.get(fl, defaults.get(fl))
                    if isinstance(v, ast.Constant) and isinstance(v.value, bool): flags.append((fl, v.value))
                    elif isinstance(v, ast.Name) and v.id in self.flags: flags.append((fl, self.flags[v.id]))
            variants = [tuple(flags)] if (not any(f in allp for f in ('copy',)) or flags) else [(('copy', True),), (('copy', False),)]
            out = set()
            for fv in variants:
                ctx = None
                if other: ctx = (r[3], qual.rsplit('.', 1)[0])
                elif r[2]: ctx = (self.cls_ctx[0], qual.rsplit('.', 1)[0])
                S2 = A.summary(qual, fv, ctx)
                for p, sites in S2.mutates.items():
                    if p in bind:
                        for s in sites: self.inplace(bind[p], c, 'via ' + repr(s))
                for p in S2.ret:
                    if p.startswith('A:'): out.add(p)
                    elif p in bind: out |= self.orig(bind[p])
                if r[2] and not other:
                    for at, ps in S2.attr_store.items():
                        for p in ps:
                            if p in bind:
                                o = self.orig(bind[p])
                                self.attr_env.setdefault(at, set()).update(o)
                                self.S.attr_store.setdefault(at, set()).update(x[2:] for x in o if x.startswith('P:'))
                    for at, sites in S2.attr_mut.items():
                        self.S.attr_mut.setdefault(at, []).extend(sites)
                        for o in self.attr_env.get(at, set()):
                            if o.startswith('P:'): self.S.mutates.setdefault(o[2:], []).extend(sites)
                    self.S.attr_assigned |= S2.attr_assigned
                    self.S.reflect += S2.reflect
            return out
        if r and r[0] == 'ctor':
            # constructing a repo object: its __init__ may store aliases; the result is a fresh object (not tracked further)
            q = A.find_method(r[1], '__init__')
            if q:
                mod2, fn2, _ = A.funcs[q]
                pnames = [x.arg for x in fn2.args.args][1:]
                bind = {}
                for i, x in enumerate(args):
                    if i < len(pnames): bind[pnames[i]] = x
                bind.update(kws)
                S2 = A.summary(q, (), (r[1], q.rsplit('.', 1)[0]))
                for p, sites in S2.mutates.items():
                    if p in bind:
                        for s in sites: self.inplace(bind[p], c, 'via ' + repr(s))
            return set()
        # externals
        short = name.split('.')[-1]
        if name in VIEW_FUNCS or short in ('check_array', 'check_X_y', 'check_pairwise_arrays', 'column_or_1d', '_check_sample_weight', 'pairwise_kernels', 'as_float_array'):
            if short == 'as_float_array' or name == 'np.array':
                cp = kws.get('copy')
                if not (isinstance(cp, ast.Constant) and cp.value is False): return set()
            if self.copy_kw_true(kws): return set()
            out = set()
            for x in args[:2]: out |= self.orig(x)
            if 'Y' in kws: out |= self.orig(kws['Y'])
            if 'y' in kws: out |= self.orig(kws['y'])
            return out
        if isinstance(c.func, ast.Attribute):
            if c.func.attr in VIEW_METHODS:
                if c.func.attr == '_validate_data' and self.copy_kw_true(kws): return set()
                out = self.orig(c.func.value)
                if c.func.attr in ('_validate_data', 'get'):
                    for x in args[:2]: out |= self.orig(x)
                    for k in ('X', 'y'):
                        if k in kws: out |= self.orig(kws[k])
                return out
            return set()
        return set()
    def copy_kw_true(self, kws):
        cp = kws.get('copy')
        if cp is None: return False
        if isinstance(cp, ast.Constant): return cp.value is True
        if isinstance(cp, ast.Name) and cp.id in self.flags: return self.flags[cp.id] is True
        return False
    def inplace(self, target, node, kind):
        """an in-place write through `target`"""
        base = target
        while isinstance(base, ast.Subscript): base = base.value
        if isinstance(base, ast.Attribute) and base.attr in ('T', 'flat', 'real'): base = base.value
        o = self.orig(base) if not isinstance(base, ast.Call) else self.call(base, stmt=False)
        s = self.site(node, kind)
        for x in o:
            if x.startswith('P:'): self.S.mutates.setdefault(x[2:], []).append(s)
            elif x.startswith('A:'): self.S.attr_mut.setdefault(x[2:], []).append(s)
    def assign_target(self, t, o, value=None):
        if isinstance(t, ast.Name): self.env[t.id] = set(o)
        elif isinstance(t, (ast.Tuple, ast.List)):
            eo = self.elem_orig(value) if value is not None else None
            for k, x in enumerate(t.elts):
                self.assign_target(x, eo[k] if eo and k < len(eo) else o)
        elif isinstance(t, ast.Attribute):
            if isinstance(t.value, ast.Name) and t.value.id == 'self':
                self.attr_env[t.attr] = set(o)
                self.S.attr_assigned.add(t.attr)
                ps = {x[2:] for x in o if x.startswith('P:')}
                if ps: self.S.attr_store.setdefault(t.attr, set()).update(ps)
                # storing an alias of another attribute's object
                for x in o:
                    if x.startswith('A:') and x[2:] != t.attr:
                        for p in self.S.attr_store.get(x[2:], set()): self.S.attr_store.setdefault(t.attr, set()).add(p)
        elif isinstance(t, ast.Subscript):
            self.inplace(t, t, 'subscript store')
        elif isinstance(t, ast.Starred): self.assign_target(t.value, o)
    def block(self, stmts):
        for s in stmts: self.stmt(s)
    def static_test(self, test):
        if isinstance(test, ast.Name) and test.id in self.flags: return self.flags[test.id]
        if isinstance(test, ast.UnaryOp) and isinstance(test.op, ast.Not) and isinstance(test.operand, ast.Name) and test.operand.id in self.flags: return not self.flags[test.operand.id]
        return None
    def touch_properties(self, node):
        """property getters reached anywhere inside an expression run their body: merge their effects"""
        if not self.cls_ctx or node is None: return
        for n_ in ast.walk(node):
            if isinstance(n_, ast.Attribute) and isinstance(n_.value, ast.Name) and n_.value.id == 'self':
                q = self.A.find_method(self.cls_ctx[0], n_.attr)
                if q and q != self.qual and any(isinstance(d, ast.Name) and d.id == 'property' for d in self.A.funcs[q][1].decorator_list):
                    S2 = self.A.summary(q, (), (self.cls_ctx[0], q.rsplit('.', 1)[0]))
                    self.S.attr_assigned |= S2.attr_assigned
                    for at, sites in S2.attr_mut.items(): self.S.attr_mut.setdefault(at, []).extend(sites)
            elif isinstance(n_, ast.Call) and not isinstance(n_.func, ast.Name):
                pass
    def stmt(self, s):
        if isinstance(s, (ast.If, ast.While)): self.touch_properties(s.test)
        elif isinstance(s, ast.For): self.touch_properties(s.iter)
        elif not isinstance(s, (ast.With, ast.Try, ast.FunctionDef, ast.ClassDef)): self.touch_properties(s)
        # calls nested inside arbitrary expressions (arithmetic, subscripts, comprehensions) still have their effects
        if not isinstance(s, (ast.If, ast.While, ast.For, ast.With, ast.Try, ast.FunctionDef, ast.ClassDef)):
            top = s.value if isinstance(s, (ast.Assign, ast.AugAssign, ast.AnnAssign, ast.Expr, ast.Return)) else None
            for n_ in ast.walk(s):
                if isinstance(n_, ast.Call) and n_ is not top: self.call(n_, stmt=False)
        if isinstance(s, ast.Assign):
            if isinstance(s.value, ast.Call) and isinstance(s.value.func, ast.Name):
                k = self.A.class_of(self.mod, s.value.func.id)
                if k is not None and k.qual in self.A.classes:
                    for t in s.targets:
                        if isinstance(t, ast.Name): self.local_types[t.id] = k.qual
            o = self.orig(s.value)
            for t in s.targets: self.assign_target(t, o, s.value)
        elif isinstance(s, ast.AnnAssign):
            if s.value is not None: self.assign_target(s.target, self.orig(s.value), s.value)
        elif isinstance(s, ast.AugAssign):
            self.orig(s.value)
            self.inplace(s.target, s, 'augmented assignment')
            if isinstance(s.target, ast.Attribute) and isinstance(s.target.value, ast.Name) and s.target.value.id == 'self': self.S.attr_assigned.add(s.target.attr)
        elif isinstance(s, ast.Expr):
            if isinstance(s.value, ast.Call): self.call(s.value, stmt=True)
        elif isinstance(s, ast.Return):
            if s.value is not None:
                o = self.orig(s.value)
                for x in o:
                    if x.startswith('P:'): self.S.ret.add(x[2:])
                    elif x.startswith('A:'): self.S.ret.add(x)
        elif isinstance(s, ast.If):
            st = self.static_test(s.test)
            self.orig(s.test)
            if st is True: self.block(s.body)
            elif st is False: self.block(s.orelse)
            else:
                e0 = {k: set(v) for k, v in self.env.items()}; a0 = {k: set(v) for k, v in self.attr_env.items()}
                self.block(s.body)
                e1, a1 = self.env, self.attr_env
                self.env, self.attr_env = {k: set(v) for k, v in e0.items()}, {k: set(v) for k, v in a0.items()}
                self.block(s.orelse)
                for k, v in e1.items(): self.env.setdefault(k, set()).update(v)
                for k, v in a1.items(): self.attr_env.setdefault(k, set()).update(v)
        elif isinstance(s, (ast.For, ast.AsyncFor)):
            o = self.orig(s.iter)
            self.assign_target(s.target, o)
            self.block(s.body); self.block(s.body); self.block(s.orelse)
        elif isinstance(s, ast.While):
            self.orig(s.test); self.block(s.body); self.block(s.body); self.block(s.orelse)
        elif isinstance(s, (ast.With, ast.AsyncWith)):
            for it in s.items:
                o = self.orig(it.context_expr)
                if it.optional_vars is not None: self.assign_target(it.optional_vars, o)
            self.block(s.body)
        elif isinstance(s, ast.Try):
            self.block(s.body)
            for h in s.handlers: self.block(h.body)
            self.block(s.orelse); self.block(s.finalbody)
        elif isinstance(s, ast.FunctionDef):
            # nested function: analysed in the enclosing environment (closures see the same names)
            sub = _Walker(self.A, self.qual + '.' + s.name, self.mod, s, self.cls_ctx, self.flags, self.S, dict(self.env))
            sub.attr_env = self.attr_env
            for p in [x.arg for x in s.args.args]: sub.env[p] = set()
            sub.block(s.body)
        elif isinstance(s, ast.Delete):
            pass
