"""External contracts (trusted base, DESIGN 3.4) for builtins / numpy used by the code under verification,
in their *element-level* form: every stub states shape/index preconditions as obligations and defines the
result through its elements.  Anything not listed here is outside the interpretable subset."""
import ast
import z3
from z3 import And, Or, Not, Implies, If, Exists, IntVal, RealVal, BoolVal
from .engine import (ForAll, ArrVal, ArrRef, ObjRef, RangeV, ExtNS, ExtClass, Opaque, SuperV, Unsupported, RaiseEx, INF, Func, Bound,
                     tz, is_sym, is_int, is_real, conc, to_real, zmin, zmax, ClassV)

IntS, RealS, BoolS = z3.IntSort(), z3.RealSort(), z3.BoolSort()
USED = set()     # names of external contracts exercised in this run (for evidence)

def used(name): USED.add(name)

def same_dim(a, b):
    a, b = conc(a), conc(b)
    if not is_sym(a) and not is_sym(b): return a == b
    return z3.eq(tz(a), tz(b)) or None      # None = unknown syntactically

def promote(sa, sb, op=None):
    if op is ast.Div: return RealS
    if sa == RealS or sb == RealS: return RealS
    if sa == BoolS and sb == BoolS: return BoolS if op in (ast.BitOr, ast.BitAnd, ast.BitXor) else IntS
    return IntS

def coerce(v, sort):
    v = tz(v)
    if v.sort() == sort: return v
    if sort == RealS:
        if v.sort() == IntS: return z3.ToReal(v)
        if v.sort() == BoolS: return If(v, RealVal(1), RealVal(0))
    if sort == IntS:
        if v.sort() == BoolS: return If(v, IntVal(1), IntVal(0))
        if v.sort() == RealS: return z3.ToInt(v)
    if sort == BoolS:
        return v != 0
    raise Unsupported("coerce")

def sort_of_scalar(v):
    if isinstance(v, bool): return BoolS
    if isinstance(v, int): return IntS
    if isinstance(v, float): return RealS
    return v.sort()

def scalar_op(I, op, x, y, node=None):
    """elementwise scalar operation on z3 terms (already sort-promoted by caller where needed)"""
    if op is ast.Add: return x + y
    if op is ast.Sub: return x - y
    if op is ast.Mult: return x * y
    if op is ast.Div: return to_real(x) / to_real(y)
    if op is ast.BitOr: return Or(x, y)
    if op is ast.BitAnd: return And(x, y)
    if op is ast.Pow:
        yy = conc(y)
        if isinstance(yy, float) and yy.is_integer(): yy = int(yy)
        if z3.is_expr(yy):
            sy = z3.simplify(yy)
            if z3.is_int_value(sy): yy = sy.as_long()
            elif z3.is_rational_value(sy) and sy.denominator_as_long() == 1: yy = sy.numerator_as_long()
        if isinstance(yy, int) and not isinstance(yy, bool) and 0 <= yy <= 4:
            r = None
            for _ in range(yy): r = x if r is None else r * x
            return r if r is not None else (IntVal(1) if x.sort() == IntS else RealVal(1))
        s = z3.simplify(y)
        if z3.is_rational_value(s) and s.numerator_as_long() == 1 and s.denominator_as_long() == 2:
            return sqrt_(I, x)
        raise Unsupported("array power")
    raise Unsupported(f"array op {op.__name__}")

SQRT = z3.Function('sqrt', RealS, RealS)
def sqrt_(I, x):
    used('np.sqrt')
    x = to_real(x)
    r = SQRT(x)
    # axioms instantiated at the point of use: sqrt(x) >= 0, sqrt(x)^2 = x for x >= 0
    I.assume(Implies(x >= 0, And(r >= 0, r * r == x)))
    return r

# ------------------------------------------------------------------ broadcasting of elementwise ops
def bshape(I, sa, sb, what):
    """numpy broadcasting of two shapes (tuples of ints / z3 Ints); emits obligations for symbolic dims"""
    la, lb = len(sa), len(sb)
    n = max(la, lb)
    sa2 = (1,) * (n - la) + tuple(sa); sb2 = (1,) * (n - lb) + tuple(sb)
    out = []; ma = []; mb = []
    for x, y in zip(sa2, sb2):
        x, y = conc(x), conc(y)
        if not is_sym(x) and x == 1 and not (not is_sym(y) and y == 1): out.append(y); ma.append(False); mb.append(True)
        elif not is_sym(y) and y == 1: out.append(x); ma.append(True); mb.append(False)
        else:
            sd = same_dim(x, y)
            if sd is False: raise RaiseEx('ValueError')
            if sd is None: I.ob(f"shape:{what}", tz(x) == tz(y), kind='shape')
            out.append(x); ma.append(True); mb.append(True)
    return tuple(out), ma[n - la:], mb[n - lb:], n - la, n - lb

def arr_binop(I, op, a, b, node=None):
    what = ast.unparse(node) if node is not None else op.__name__
    if op is ast.MatMult: return matmul(I, a, b, what)
    h = I.ext.get('mat_binop')
    if h is not None:
        r = h(I, op, a, b, what)
        if r is not None: return r
    if isinstance(a, ArrRef) and isinstance(b, (list, tuple)): b = from_list(I, b)
    if isinstance(b, ArrRef) and isinstance(a, (list, tuple)): a = from_list(I, a)
    A = I.A(a) if isinstance(a, ArrRef) else None
    B = I.A(b) if isinstance(b, ArrRef) else None
    sa = A.sort if A else sort_of_scalar(a); sb = B.sort if B else sort_of_scalar(b)
    rs = promote(sa, sb, op)
    if op is ast.Pow: rs = sa if A is not None and sa != BoolS else RealS
    if A is not None and B is not None:
        shp, ma, mb, offa, offb = bshape(I, A.shape, B.shape, what)
        def elem(*ix):
            ia = [i if m else 0 for i, m in zip(ix[offa:], ma)]
            ib = [i if m else 0 for i, m in zip(ix[offb:], mb)]
            x, y = A.elem(*ia), B.elem(*ib)
            if op not in (ast.BitOr, ast.BitAnd): x, y = coerce(x, rs), coerce(y, rs)
            return scalar_op(I, op, x, y)
    elif A is not None:
        if b is None: raise RaiseEx('TypeError')
        shp = A.shape
        def elem(*ix):
            x, y = A.elem(*ix), tz(b)
            if op is ast.Pow: return scalar_op(I, op, x, y)
            if op not in (ast.BitOr, ast.BitAnd): x, y = coerce(x, rs), coerce(y, rs)
            return scalar_op(I, op, x, y)
    else:
        if a is None: raise RaiseEx('TypeError')
        shp = B.shape
        def elem(*ix):
            x, y = tz(a), B.elem(*ix)
            if op not in (ast.BitOr, ast.BitAnd): x, y = coerce(x, rs), coerce(y, rs)
            return scalar_op(I, op, x, y)
    if op is ast.Div:
        den = B if B is not None else None
        pass
    tag = None
    if op is ast.Mult and A is None and B is not None: tag = ('smul', a, b)
    if op is ast.Mult and B is None and A is not None: tag = ('smul', b, a)
    if op is ast.Pow and A is not None and not isinstance(b, ArrRef) and conc(b) == 2: tag = ('sq', a)
    if op is ast.Div and A is not None and B is None: tag = ('divs', a)
    vecs = None
    if op is ast.Mult and tag and tag[0] == 'smul':
        V_ = I.A(tag[2])
        if V_.ndim == 1 and V_.vecs is not None: vecs = (z3.simplify(to_real(tz(tag[1])) * to_real(tz(V_.vecs[0]))), V_.vecs[1])
    return I.new_arr(ArrVal(shp, elem, rs, tag, False, vecs))

def arr_cmp(I, op, a, b):
    if isinstance(a, ArrRef) and isinstance(b, (list, tuple)): b = from_list(I, b)
    if isinstance(b, ArrRef) and isinstance(a, (list, tuple)): a = from_list(I, a)
    A = I.A(a) if isinstance(a, ArrRef) else None
    B = I.A(b) if isinstance(b, ArrRef) else None
    f = {ast.Lt: lambda x, y: x < y, ast.Gt: lambda x, y: x > y, ast.LtE: lambda x, y: x <= y,
         ast.GtE: lambda x, y: x >= y, ast.Eq: lambda x, y: x == y, ast.NotEq: lambda x, y: x != y}[type(op)]
    def fix(x, y):
        x, y = tz(x), tz(y)
        if x.sort() != y.sort(): x, y = coerce(x, RealS), coerce(y, RealS)
        return f(x, y)
    if A is not None and B is not None:
        shp, ma, mb, offa, offb = bshape(I, A.shape, B.shape, 'compare')
        elem = lambda *ix: fix(A.elem(*[i if m else 0 for i, m in zip(ix[offa:], ma)]), B.elem(*[i if m else 0 for i, m in zip(ix[offb:], mb)]))
    elif A is not None:
        if b is None or isinstance(b, str): return False if isinstance(op, ast.Eq) else True
        shp = A.shape; elem = lambda *ix: fix(A.elem(*ix), b)
    else:
        if a is None or isinstance(a, str): return False if isinstance(op, ast.Eq) else True
        shp = B.shape; elem = lambda *ix: fix(a, B.elem(*ix))
    return I.new_arr(ArrVal(shp, elem, BoolS, ('cmp', type(op).__name__, a, b)))

def arr_unop(kind, I, a):
    A = I.A(a)
    if kind == 'neg': return I.new_arr(ArrVal(A.shape, lambda *ix: -A.elem(*ix), A.sort, ('smul', -1, a), False, (z3.simplify(-to_real(tz(A.vecs[0]))), A.vecs[1]) if (A.ndim == 1 and A.vecs is not None) else None))
    if kind == 'not': return I.new_arr(ArrVal(A.shape, lambda *ix: Not(A.elem(*ix)), BoolS))

# ------------------------------------------------------------------ matmul hook (algebraic layer plugs in here)
MATMUL_HOOKS = []
def matmul(I, a, b, what):
    for h in MATMUL_HOOKS:
        r = h(I, a, b, what)
        if r is not None: return r
    raise Unsupported(f"matmul without algebraic interpretation: {what}")

# ------------------------------------------------------------------ indexing
def norm_index(I, i, n, what, store=False):
    """index i into dimension of size n: concrete negatives wrap, symbolic must be in [0,n) (obligation)"""
    ic = conc(i)
    if not is_sym(ic):
        if isinstance(ic, bool): ic = int(ic)
        if ic < 0:
            I.ob(f"index:{what}", tz(n) + ic >= 0, kind='index')
            return tz(n) + ic
        nc = conc(n)
        if not is_sym(nc):
            if ic >= nc: raise RaiseEx('IndexError')
        else: I.ob(f"index:{what}", ic < tz(n), kind='index')
        return IntVal(ic)
    I.ob(f"index:{what}", And(ic >= 0, ic < tz(n)), kind='index')
    return ic

def slice_bounds(I, sl, n, what):
    """python slice semantics for step None/1: returns (start, length) as z3 terms"""
    if sl.step is not None and conc(sl.step) != 1: raise Unsupported("slice step")
    n = tz(n)
    def clamp(v, default):
        if v is None: return default
        v = tz(v) if not isinstance(v, ArrRef) else v
        vc = conc(v)
        if not is_sym(vc):
            if vc < 0: return zmax(n + vc, 0)
            return zmin(IntVal(vc), n)
        return If(vc < 0, zmax(n + vc, 0), zmin(vc, n))
    lo = clamp(sl.start, IntVal(0)); hi = clamp(sl.stop, n)
    ln = If(hi > lo, hi - lo, IntVal(0))
    return z3.simplify(lo), z3.simplify(ln)

def from_list(I, lst):
    """concrete python list/tuple of scalars (or of equal-length lists) -> array value"""
    if isinstance(lst, ArrRef): return lst
    if len(lst) and isinstance(lst[0], (list, tuple)):
        rows = [list(r) for r in lst]
        m = len(rows[0])
        if any(len(r) != m for r in rows): raise RaiseEx('ValueError')
        srt = RealS if any(is_real(x) for r in rows for x in r) else IntS
        def elem(i, j):
            r = coerce(rows[-1][-1], srt)
            for a in range(len(rows) - 1, -1, -1):
                for b in range(m - 1, -1, -1):
                    r = If(And(tz(i) == a, tz(j) == b), coerce(rows[a][b], srt), r)
            return r
        return I.new_arr(ArrVal((len(rows), m), elem, srt))
    if len(lst) and isinstance(lst[0], ArrRef):
        return stack_rows(I, lst)
    vals = list(lst)
    if any(v is None or isinstance(v, str) for v in vals): raise Unsupported("array of non-numbers")
    srt = RealS if any(is_real(x) for x in vals) else (BoolS if vals and all(isinstance(x, bool) or (is_sym(x) and x.sort() == BoolS) for x in vals) else IntS)
    def elem(i):
        if not vals: return IntVal(0)
        r = coerce(vals[-1], srt)
        for a in range(len(vals) - 2, -1, -1): r = If(tz(i) == a, coerce(vals[a], srt), r)
        return r
    return I.new_arr(ArrVal((len(vals),), elem, srt))

def stack_rows(I, rows):
    As = [I.A(r) for r in rows]
    m = As[0].shape
    def elem(i, *jx):
        r = As[-1].elem(*jx)
        for a in range(len(As) - 2, -1, -1): r = If(tz(i) == a, As[a].elem(*jx), r)
        return r
    return I.new_arr(ArrVal((len(As),) + tuple(m), elem, As[0].sort))

def arr_getitem(I, b, ix, node=None):
    what = ast.unparse(node) if node is not None else 'getitem'
    A = I.A(b)
    h = I.ext.get('mat_getitem')
    if h is not None:
        r = h(I, b, ix)
        if r is not None: return r
    if not isinstance(ix, tuple): ix = (ix,)
    if any(x is Ellipsis for x in ix): raise Unsupported("ellipsis index")
    # np.newaxis (None) handling
    if any(x is None for x in ix):
        rest = tuple(x for x in ix if x is not None)
        inner = arr_getitem(I, b, rest, node) if any(not (isinstance(x, slice) and x == slice(None)) for x in rest) else b
        Ain = I.A(inner)
        # positions of new axes in result
        pos = []; k = 0
        for x in ix:
            if x is None: pos.append(k); k += 1
            elif isinstance(x, slice) or isinstance(x, (ArrRef, list)): k += 1
        shp = list(Ain.shape)
        for p_ in pos: shp.insert(p_, 1)
        def elem(*jx):
            return Ain.elem(*[j for k2, j in enumerate(jx) if k2 not in pos])
        return I.new_arr(ArrVal(tuple(shp), elem, Ain.sort))
    if len(ix) > A.ndim: raise RaiseEx('IndexError')
    if A.islist and len(ix) == 1 and not isinstance(ix[0], (slice, ArrRef, list)):
        i = ix[0]; ic = conc(i)
        if not is_sym(ic) and ic < 0:
            I.ob(f"index:{what}", tz(A.shape[0]) + ic >= 0, kind='index')
            return A.elem(tz(A.shape[0]) + ic)
    ix = ix + (slice(None),) * (A.ndim - len(ix))
    # classify
    fancy = [k for k, x in enumerate(ix) if isinstance(x, (ArrRef, list))]
    if len(fancy) > 1: raise Unsupported("multiple fancy indices")
    if fancy:
        k = fancy[0]
        idx = ix[k] if isinstance(ix[k], ArrRef) else from_list(I, ix[k])
        J = I.A(idx)
        if J.sort == BoolS:
            return bool_mask_select(I, b, idx, k, what)
        if J.ndim != 1: raise Unsupported("fancy index ndim")
        t = z3.Int('t!fi')
        I.ob(f"index:{what}", ForAll([t], Implies(And(0 <= t, t < tz(J.shape[0])), And(J.elem(t) >= 0, J.elem(t) < tz(A.shape[k])))), kind='index')
    pre = []; shp = []; plan = []   # plan: for each base dim: ('fix', term) | ('slice', start, outpos) | ('fancy', J, outpos)
    outpos = 0
    for k, x in enumerate(ix):
        if isinstance(x, slice):
            lo, ln = slice_bounds(I, x, A.shape[k], what)
            full = x.start is None and x.stop is None
            shp.append(A.shape[k] if full else conc(ln)); plan.append(('slice', IntVal(0) if full else lo, outpos)); outpos += 1
        elif k in fancy:
            shp.append(J.shape[0]); plan.append(('fancy', J, outpos)); outpos += 1
        else:
            plan.append(('fix', norm_index(I, x, A.shape[k], what)))
    if not shp:
        return A.elem(*[p_[1] for p_ in plan])
    def elem(*jx):
        src = []
        for p_ in plan:
            if p_[0] == 'fix': src.append(p_[1])
            elif p_[0] == 'slice': src.append(z3.simplify(p_[1] + tz(jx[p_[2]])) if not z3.eq(p_[1], IntVal(0)) else tz(jx[p_[2]]))
            else: src.append(p_[1].elem(tz(jx[p_[2]])))
        return A.elem(*src)
    tag = None
    if A.ndim == 2 and plan[0][0] == 'fix' and plan[1][0] == 'slice' and isinstance(ix[1], slice) and ix[1] == slice(None): tag = ('row', b, plan[0][1])
    if A.ndim == 2 and plan[1][0] == 'fix' and plan[0][0] == 'slice' and isinstance(ix[0], slice) and ix[0] == slice(None): tag = ('col', b, plan[1][1])
    if fancy: tag = ('take', b, idx, fancy[0])
    if tag is None and all(p_[0] == 'slice' for p_ in plan): tag = ('slice', b, tuple((p_[1], s) for p_, s in zip(plan, shp)))
    vecs = None
    if A.vecs is not None and A.ndim == 2:
        ax, fn = A.vecs; other = 1 - ax
        full_other = plan[other][0] == 'slice' and isinstance(ix[other], slice) and ix[other].start is None and ix[other].stop is None
        if full_other:
            pa = plan[ax]
            if pa[0] == 'fix': vecs = (1, fn(pa[1]))
            elif pa[0] == 'slice': vecs = (ax, (lambda lo: (lambda t: fn(z3.simplify(lo + tz(t)))))(pa[1]))
            elif pa[0] == 'fancy': vecs = (ax, (lambda J_: (lambda t: fn(J_.elem(tz(t)))))(pa[1]))
    elif A.vecs is not None and A.ndim == 1 and plan[0][0] == 'slice' and isinstance(ix[0], slice) and ix[0].start is None and ix[0].stop is None:
        vecs = A.vecs
    return I.new_arr(ArrVal(tuple(shp), elem, A.sort, tag, A.islist and len(shp) == 1, vecs))

def bool_mask_select(I, b, mask, axis, what):
    """a[mask] / a[:, mask]: compress along axis; result defined through a strictly increasing index map"""
    used('np.boolean-mask-index')
    A = I.A(b); M = I.A(mask)
    if M.ndim != 1: raise Unsupported("nd boolean mask")
    sd = same_dim(M.shape[0], A.shape[axis])
    if sd is False: raise RaiseEx('IndexError')
    if sd is None: I.ob(f"shape:{what}", tz(M.shape[0]) == tz(A.shape[axis]), kind='shape')
    idx = where_true(I, mask)
    J = I.A(idx)
    shp = list(A.shape); shp[axis] = J.shape[0]
    def elem(*jx):
        src = list(jx); src[axis] = J.elem(tz(jx[axis])); return A.elem(*src)
    return I.new_arr(ArrVal(tuple(shp), elem, A.sort, ('take', b, idx, axis)))

def where_true(I, mask):
    """sorted indices of True entries of a 1-D boolean array (np.flatnonzero / argwhere / boolean indexing);
    existential-free characterisation with a witness function"""
    used('np.flatnonzero')
    M = I.A(mask)
    n = tz(M.shape[0])
    m = I.fresh('nnz', IntS)
    f = I.fresh_fn('nzidx', IntS, IntS)
    w = I.fresh_fn('nzwit', IntS, IntS)
    t, s, p = z3.Int('t!nz'), z3.Int('s!nz'), z3.Int('p!nz')
    I.assume(And(m >= 0, m <= n))
    I.assume(ForAll([t], Implies(And(0 <= t, t < m), And(0 <= f(t), f(t) < n, M.elem(f(t)), w(f(t)) == t), ), patterns=[f(t)]))
    I.assume(ForAll([t, s], Implies(And(0 <= t, t < s, s < m), f(t) < f(s)), patterns=[z3.MultiPattern(f(t), f(s))]))
    I.assume(ForAll([p], Implies(And(0 <= p, p < n, M.elem(p)), And(0 <= w(p), w(p) < m, f(w(p)) == p)), patterns=[w(p)]))
    I.assume(Implies(m == 0, ForAll([p], Implies(And(0 <= p, p < n), Not(M.elem(p))))))      # empty result: the mask is false everywhere (solver-chosen triggers)
    return I.new_arr(ArrVal((m,), lambda t_: f(tz(t_)), IntS, ('where', mask, w)))

def arr_setitem(I, b, ix, v, node=None):
    what = ast.unparse(node) if node is not None else 'setitem'
    A = I.A(b)
    if not isinstance(ix, tuple): ix = (ix,)
    ix = ix + (slice(None),) * (A.ndim - len(ix))
    if len(ix) > A.ndim: raise RaiseEx('IndexError')
    I.event('store', b.id)
    V = I.A(v) if isinstance(v, ArrRef) else None
    if isinstance(v, (list, tuple)): v = from_list(I, v); V = I.A(v)
    fancy = [k for k, x in enumerate(ix) if isinstance(x, (ArrRef, list))]
    if len(fancy) > 1: raise Unsupported("multiple fancy store")
    conds = []   # per base dim: function(j) -> (membership cond, position term in value or None)
    vdims = []
    if fancy:
        k = fancy[0]
        idx = ix[k] if isinstance(ix[k], ArrRef) else from_list(I, ix[k])
        J = I.A(idx)
        if J.sort == BoolS: raise Unsupported("boolean mask store")
        t = z3.Int('t!fs')
        I.ob(f"index:{what}", ForAll([t], Implies(And(0 <= t, t < tz(J.shape[0])), And(J.elem(t) >= 0, J.elem(t) < tz(A.shape[k])))), kind='index')
        fwit = None
        if J.tag and J.tag[0] == 'where':
            # indices produced by np.where/flatnonzero: membership is the mask itself, position is its witness function
            M_ = I.A(J.tag[1]); wfn = J.tag[2]; nM = tz(M_.shape[0])
            inset = (lambda M_, nM: (lambda p: And(0 <= tz(p), tz(p) < nM, M_.elem(p))))(M_, nM)
            fwit = wfn
        elif J.tag and J.tag[0] == 'arange':
            lo_ = J.tag[1]; nJ = tz(J.shape[0])
            inset = (lambda lo_, nJ: (lambda p: And(lo_ <= tz(p), tz(p) < lo_ + nJ)))(lo_, nJ)
            fwit = (lambda lo_: (lambda p: tz(p) - lo_))(lo_)
        else:
            if V is not None: raise Unsupported("fancy store of array value through an index array that is not known to be duplicate-free")
            inset = I.fresh_fn('inset', IntS, BoolS); wit = I.fresh_fn('fswit', IntS, IntS)
            p_ = z3.Int('p!fs')
            I.assume(ForAll([t], Implies(And(0 <= t, t < tz(J.shape[0])), inset(J.elem(t))), patterns=[J.elem(t)]))
            I.assume(ForAll([p_], Implies(inset(p_), And(0 <= wit(p_), wit(p_) < tz(J.shape[0]), J.elem(wit(p_)) == p_)), patterns=[inset(p_)]))
        if V is not None:
            if V.ndim != 1 or A.ndim != 1: raise Unsupported("fancy store of nd array value")
            sd = same_dim(V.shape[0], J.shape[0])
            if sd is False: raise RaiseEx('ValueError')
            if sd is None: I.ob(f"shape:{what}", tz(V.shape[0]) == tz(J.shape[0]), kind='shape')
            oldA = A; V_ = V
            I.st.heap[b.id] = ArrVal(A.shape, lambda p: If(inset(tz(p)), coerce(V_.elem(fwit(tz(p))), oldA.sort), oldA.elem(p)), A.sort, None, A.islist)
            return
    plan = []
    for k, x in enumerate(ix):
        if isinstance(x, slice):
            full = x.start is None and x.stop is None
            if full: plan.append(('all',)); vdims.append(A.shape[k])
            else:
                lo, ln = slice_bounds(I, x, A.shape[k], what)
                plan.append(('range', lo, ln)); vdims.append(conc(ln))
        elif k in fancy: plan.append(('fancy', inset))
        else: plan.append(('fix', norm_index(I, x, A.shape[k], what)))
    if V is not None:
        # value shape must broadcast to the selected region
        vs = tuple(V.shape)
        if len(vs) > len(vdims): raise RaiseEx('ValueError')
        off = len(vdims) - len(vs)
        bmask = []
        for d, (x, y) in enumerate(zip(vdims[off:], vs)):
            yc = conc(y)
            if not is_sym(yc) and yc == 1 and not (not is_sym(conc(x)) and conc(x) == 1): bmask.append(False); continue
            sd = same_dim(x, y)
            if sd is False: raise RaiseEx('ValueError')
            if sd is None: I.ob(f"shape:{what}", tz(x) == tz(y), kind='shape')
            bmask.append(True)
    old = A
    srt = A.sort
    def elem(*jx):
        conds = []; vpos = []
        for p_, j in zip(plan, jx):
            j = tz(j)
            if p_[0] == 'all': vpos.append(j)
            elif p_[0] == 'range': conds.append(And(j >= p_[1], j < p_[1] + p_[2])); vpos.append(j - p_[1])
            elif p_[0] == 'fancy': conds.append(p_[1](j))
            else: conds.append(j == p_[1])
        if V is not None:
            vp = vpos[off:]
            val = V.elem(*[x if m else 0 for x, m in zip(vp, bmask)])
        else: val = tz(v)
        val = coerce(val, srt)
        c = And(*conds) if conds else BoolVal(True)
        return If(c, val, old.elem(*jx))
    vecs = None
    if A.ndim == 2 and A.sort == RealS and not fancy:
        from . import veclayer as VL
        base = A.vecs
        cand_ax = [ax for ax in (0, 1) if plan[ax][0] == 'fix' and plan[1 - ax][0] == 'all']
        if cand_ax:
            ax = cand_ax[0]
            if base is None and A.tag and A.tag[0] == 'const' and z3.is_rational_value(z3.simplify(A.tag[1])) and z3.simplify(A.tag[1]).numerator_as_long() == 0:
                base = (ax, lambda t: VL.ZEROV)
            if base is not None and base[0] == ax and V is not None and V.ndim == 1 and V.vecs is not None and conc(V.vecs[0]) == 1:
                n_ = plan[ax][1]; vt = V.vecs[1]; of = base[1]
                vecs = (ax, lambda t: If(tz(t) == n_, vt, of(t)))
    I.st.heap[b.id] = ArrVal(A.shape, elem, srt, None, A.islist, vecs)

# ------------------------------------------------------------------ array attributes / methods
def a_shape(I, a): return tuple(conc(d) for d in I.A(a).shape)
def a_T(I, a):
    A = I.A(a)
    h = I.ext.get('mat_T')
    if h is not None:
        r = h(I, a)
        if r is not None: return r
    if A.ndim == 1: return a
    if A.ndim != 2: raise Unsupported(".T of nd")
    return I.new_arr(ArrVal((A.shape[1], A.shape[0]), lambda i, j: A.elem(j, i), A.sort, ('T', a), False, (1 - A.vecs[0], A.vecs[1]) if A.vecs is not None else None))
def a_ndim(I, a): return I.A(a).ndim
def a_size(I, a):
    r = IntVal(1)
    for d in I.A(a).shape: r = r * tz(d)
    return conc(z3.simplify(r))
def a_copy(I, a): return lambda I2, *args, **kw: np_copy(I2, a)
def a_sum(I, a): return lambda I2, *args, **kw: np_sum(I2, a, *args, **kw)
def a_append(I, a):
    def f(I2, v):
        A = I2.A(a)
        if not A.islist: raise RaiseEx('AttributeError')
        n = tz(A.shape[0])
        old = A
        I2.st.heap[a.id] = ArrVal((conc(z3.simplify(n + 1)),), lambda i: If(tz(i) == n, coerce(v, old.sort), old.elem(i)), old.sort, None, True)
        I2.event('store', a.id)
    return f
def a_astype(I, a):
    def f(I2, dt, **kw):
        A = I2.A(a); s = dtype_sort(dt)
        if s == A.sort: return np_copy(I2, a)
        return I2.new_arr(ArrVal(A.shape, lambda *ix: coerce(A.elem(*ix), s), s))
    return f
def a_reshape(I, a):
    def f(I2, *shape, **kw):
        return np_reshape(I2, a, shape[0] if len(shape) == 1 and isinstance(shape[0], (tuple, list)) else shape)
    return f
def a_dtype(I, a):
    s = I.A(a).sort
    return {IntS: 'int64', RealS: 'float64', BoolS: 'bool'}[s]
def a_any(I, a): return lambda I2, *args, **kw: np_any(I2, a, *args, **kw)
def a_all(I, a): return lambda I2, *args, **kw: np_all(I2, a, *args, **kw)
def a_fill(I, a):
    def f(I2, v):
        A = I2.A(a); I2.st.heap[a.id] = ArrVal(A.shape, lambda *ix: coerce(v, A.sort), A.sort); I2.event('store', a.id)
    return f
def a_flatten(I, a): return lambda I2, *args, **kw: np_ravel(I2, a)
def a_tolist(I, a):
    def f(I2):
        A = I2.A(a)
        if A.ndim != 1: raise Unsupported("tolist nd")
        return I2.new_arr(ArrVal(A.shape, A.elem, A.sort, A.tag, True))
    return f
def a_max(I, a): return lambda I2, *args, **kw: np_max(I2, a, *args, **kw)
def a_min(I, a): return lambda I2, *args, **kw: np_min(I2, a, *args, **kw)
def a_mean(I, a): return lambda I2, *args, **kw: I2.ext['modules']['np'].mean(I2, a, *args, **kw)
def a_dot(I, a): return lambda I2, b: matmul(I2, a, b, 'dot')

ARR_ATTRS = dict(shape=a_shape, T=a_T, ndim=a_ndim, size=a_size, copy=a_copy, sum=a_sum, append=a_append, astype=a_astype,
                 reshape=a_reshape, dtype=a_dtype, any=a_any, all=a_all, fill=a_fill, flatten=a_flatten, ravel=a_flatten,
                 tolist=a_tolist, max=a_max, min=a_min, mean=a_mean, dot=a_dot)

def dtype_sort(dt):
    if dt in (int, 'int', 'int64', 'i8') or getattr(dt, 'name', None) in ('int', 'int64'): return IntS
    if dt in (bool, 'bool') or getattr(dt, 'name', None) == 'bool': return BoolS
    return RealS

# ------------------------------------------------------------------ numpy functions
def as_shape(shape):
    if isinstance(shape, (tuple, list)): return tuple(shape)
    return (shape,)

def np_full(I, shape, val, dtype=None, **kw):
    used('np.full')
    shape = as_shape(shape)
    for k, d in enumerate(shape):
        if d is None or is_real(d): raise RaiseEx('TypeError')
        dc = conc(d)
        if is_sym(dc): I.ob(f"shape:np.full dim{k} >= 0", dc >= 0, kind='shape')
        elif dc < 0: raise RaiseEx('ValueError')
    s = dtype_sort(dtype) if dtype is not None else sort_of_scalar(val)
    v = coerce(val, s)
    return I.new_arr(ArrVal(shape, lambda *ix: v, s, ('const', v)))
def np_zeros(I, shape, dtype=None, **kw):
    return np_full(I, shape, 0.0 if dtype is None else (False if dtype_sort(dtype) == BoolS else 0), dtype)
def np_ones(I, shape, dtype=None, **kw):
    return np_full(I, shape, 1.0 if dtype is None else (True if dtype_sort(dtype) == BoolS else 1), dtype)
def np_zeros_like(I, a, dtype=None, **kw):
    A = I.A(a); return np_full(I, A.shape, coerce(0, A.sort if dtype is None else dtype_sort(dtype)))
def np_ones_like(I, a, dtype=None, **kw):
    A = I.A(a); return np_full(I, A.shape, coerce(1, A.sort if dtype is None else dtype_sort(dtype)))
def np_copy(I, a, **kw):
    if isinstance(a, (list, tuple)): a = from_list(I, a)
    A = I.A(a); return I.new_arr(ArrVal(A.shape, A.elem, A.sort, A.tag if (A.tag and A.tag[0] == 'mat') else ('copy', a), False, A.vecs))
def np_array(I, a, dtype=None, **kw):
    if isinstance(a, (list, tuple)): a = from_list(I, a)
    if not isinstance(a, ArrRef):
        if a is None or isinstance(a, str): raise Unsupported("np.array of non-number")
        return I.new_arr(ArrVal((), lambda: tz(a), sort_of_scalar(a)))
    A = I.A(a)
    s = A.sort if dtype is None else dtype_sort(dtype)
    if kw.get('copy', True) is False and s == A.sort: return a
    return I.new_arr(ArrVal(A.shape, (lambda *ix: coerce(A.elem(*ix), s)) if s != A.sort else A.elem, s, ('copy', a) if s == A.sort else None, False, A.vecs if s == A.sort else None))
def np_asarray(I, a, dtype=None, **kw):
    if isinstance(a, ArrRef) and (dtype is None or dtype_sort(dtype) == I.A(a).sort) and not I.A(a).islist: return a
    return np_array(I, a, dtype)
def np_arange(I, *args, **kw):
    used('np.arange')
    if len(args) == 1: lo, hi = 0, args[0]
    elif len(args) == 2: lo, hi = args
    else: raise Unsupported("arange step")
    n = z3.simplify(If(tz(hi) > tz(lo), tz(hi) - tz(lo), IntVal(0)))
    lo_ = tz(lo)
    return I.new_arr(ArrVal((conc(n),), lambda i: z3.simplify(lo_ + tz(i)), IntS, ('arange', lo_)))
def np_fill_diagonal(I, a, v, **kw):
    used('np.fill_diagonal')
    A = I.A(a)
    if A.ndim != 2: raise Unsupported("fill_diagonal nd")
    I.st.heap[a.id] = ArrVal(A.shape, lambda i, j: If(tz(i) == tz(j), coerce(v, A.sort), A.elem(i, j)), A.sort)
    I.event('store', a.id)
def np_sum(I, a, axis=None, **kw):
    hook = I.ext.get('sum_hook')
    if hook:
        r = hook(I, a, axis, kw)
        if r is not None: return r
    A = I.A(a)
    if A.sort == BoolS and axis is None and A.ndim == 1:
        used('np.sum(bool)')
        cnt = I.fresh('cnt', IntS)
        k = z3.Int('k!sum')
        I.assume(And(cnt >= 0, cnt <= tz(A.shape[0])))
        I.assume((cnt > 0) == Exists([k], And(0 <= k, k < tz(A.shape[0]), A.elem(k))))
        return cnt
    if A.sort != BoolS and axis is None:
        # sum of numbers without an algebraic interpretation: an arbitrary value (over-approximation; no facts about it are assumed)
        used('np.sum (opaque: result unconstrained)')
        return I.fresh('sum', A.sort if A.sort != BoolS else IntS)
    raise Unsupported("np.sum without algebraic interpretation")
def np_any(I, a, axis=None, **kw):
    A = I.A(a)
    if axis is not None or A.ndim != 1: raise Unsupported("any axis")
    k = z3.Int('k!any')
    return Exists([k], And(0 <= k, k < tz(A.shape[0]), coerce(A.elem(k), BoolS)))
def np_all(I, a, axis=None, **kw):
    A = I.A(a)
    if axis is not None: raise Unsupported("all axis")
    ks = [z3.Int(f'k{d}!all') for d in range(A.ndim)]
    return ForAll(ks, Implies(And(*[And(0 <= k, k < tz(d)) for k, d in zip(ks, A.shape)]), coerce(A.elem(*ks), BoolS)))
def np_argext(kind):
    def f(I, a, axis=None, **kw):
        used('np.arg' + kind)
        A = I.A(a)
        better = (lambda x, y: x > y) if kind == 'max' else (lambda x, y: x < y)
        beq = (lambda x, y: x >= y) if kind == 'max' else (lambda x, y: x <= y)
        j = z3.Int('j!arg')
        if A.ndim == 1 and axis in (None, 0, -1):
            n = tz(A.shape[0])
            I.ob(f"pre:np.arg{kind}:nonempty", n >= 1, kind='pre')
            r = I.fresh('arg' + kind, IntS)
            I.assume(And(0 <= r, r < n))
            I.assume(ForAll([j], Implies(And(0 <= j, j < n), beq(A.elem(r), A.elem(j))), patterns=[A.elem(j)]))
            I.assume(ForAll([j], Implies(And(0 <= j, j < r), better(A.elem(r), A.elem(j))), patterns=[A.elem(j)]))
            return r
        if A.ndim == 2 and axis in (1, -1):
            n, m = tz(A.shape[0]), tz(A.shape[1])
            I.ob(f"pre:np.arg{kind}:nonempty", m >= 1, kind='pre')
            f_ = I.fresh_fn('arg' + kind, IntS, IntS)
            i = z3.Int('i!arg')
            I.assume(ForAll([i], Implies(And(0 <= i, i < n), And(0 <= f_(i), f_(i) < m)), patterns=[f_(i)]))
            I.assume(ForAll([i, j], Implies(And(0 <= i, i < n, 0 <= j, j < m), beq(A.elem(i, f_(i)), A.elem(i, j))), patterns=[A.elem(i, j)]))
            I.assume(ForAll([i, j], Implies(And(0 <= i, i < n, 0 <= j, j < f_(i)), better(A.elem(i, f_(i)), A.elem(i, j))), patterns=[A.elem(i, j)]))
            return I.new_arr(ArrVal((A.shape[0],), lambda i_: f_(tz(i_)), IntS))
        raise Unsupported(f"arg{kind} axis")
    return f
def np_ext(kind):
    def f(I, a, axis=None, **kw):
        used('np.' + kind)
        if isinstance(a, (list, tuple)): a = from_list(I, a)
        A = I.A(a)
        if A.ndim == 1 and axis in (None, 0):
            n = tz(A.shape[0])
            I.ob(f"pre:np.{kind}:nonempty", n >= 1, kind='pre')
            r = I.fresh(kind, A.sort); w = I.fresh(kind + 'wit', IntS)
            j = z3.Int('j!ext')
            beq = (lambda x, y: x >= y) if kind == 'max' else (lambda x, y: x <= y)
            I.assume(And(0 <= w, w < n, A.elem(w) == r))
            I.assume(ForAll([j], Implies(And(0 <= j, j < n), beq(r, A.elem(j))), patterns=[A.elem(j)]))
            return r
        raise Unsupported(f"np.{kind} axis")
    return f
np_max, np_min = np_ext('max'), np_ext('min')
def np_minimum_maximum(kind):
    def f(I, a, b, out=None, **kw):
        used('np.' + kind)
        A = I.A(a) if isinstance(a, ArrRef) else None
        B = I.A(b) if isinstance(b, ArrRef) else None
        if A is None and B is None:
            return zmin(a, b) if kind == 'minimum' else zmax(a, b)
        pick = zmin if kind == 'minimum' else zmax
        if A is not None and B is not None:
            shp, ma, mb, offa, offb = bshape(I, A.shape, B.shape, 'np.' + kind)
            srt = promote(A.sort, B.sort)
            elem = lambda *ix: pick(coerce(A.elem(*[i if m else 0 for i, m in zip(ix[offa:], ma)]), srt), coerce(B.elem(*[i if m else 0 for i, m in zip(ix[offb:], mb)]), srt))
        elif A is not None:
            shp, srt = A.shape, promote(A.sort, sort_of_scalar(b)); elem = lambda *ix: pick(coerce(A.elem(*ix), srt), coerce(b, srt))
        else:
            shp, srt = B.shape, promote(B.sort, sort_of_scalar(a)); elem = lambda *ix: pick(coerce(a, srt), coerce(B.elem(*ix), srt))
        if out is not None:
            O = I.A(out)
            if len(O.shape) != len(shp): raise RaiseEx('ValueError')
            for x, y in zip(O.shape, shp):
                sd = same_dim(x, y)
                if sd is False: raise RaiseEx('ValueError')
                if sd is None: I.ob("shape:np.%s out" % kind, tz(x) == tz(y), kind='shape')
            I.st.heap[out.id] = ArrVal(O.shape, (lambda *ix: coerce(elem(*ix), O.sort)), O.sort)
            I.event('store', out.id)
            return out
        return I.new_arr(ArrVal(shp, elem, srt))
    return f
def np_concatenate(I, seq, axis=0, **kw):
    used('np.concatenate')
    if isinstance(seq, ArrRef):
        A = I.A(seq)
        if A.tag and A.tag[0] == 'argwhere':
            return A.tag[1]
        if A.tag and A.tag[0] == 'rowsdiff':      # np.concatenate([x - Y for x in X])
            return A.tag[1]
        raise Unsupported("concatenate of symbolic sequence")
    parts = [from_list(I, x) if isinstance(x, (list, tuple)) else x for x in seq]
    if not parts: raise RaiseEx('ValueError')
    As = [I.A(x) for x in parts]
    nd = As[0].ndim
    if any(a.ndim != nd for a in As): raise RaiseEx('ValueError')
    ax = axis if axis >= 0 else nd + axis
    for a in As[1:]:
        for d in range(nd):
            if d == ax: continue
            sd = same_dim(a.shape[d], As[0].shape[d])
            if sd is False: raise RaiseEx('ValueError')
            if sd is None: I.ob("shape:np.concatenate", tz(a.shape[d]) == tz(As[0].shape[d]), kind='shape')
    offs = [IntVal(0)]
    for a in As: offs.append(z3.simplify(offs[-1] + tz(a.shape[ax])))
    shp = list(As[0].shape); shp[ax] = conc(offs[-1])
    srt = RealS if any(a.sort == RealS for a in As) else As[0].sort
    def elem(*jx):
        j = tz(jx[ax])
        r = None
        for k in range(len(As) - 1, -1, -1):
            src = list(jx); src[ax] = z3.simplify(j - offs[k])
            v = coerce(As[k].elem(*src), srt)
            r = v if r is None else If(j < offs[k + 1], v, r)
        return r
    return I.new_arr(ArrVal(tuple(shp), elem, srt))
def np_argwhere(I, mask):
    used('np.argwhere')
    M = I.A(mask)
    if M.ndim != 1: raise Unsupported("argwhere nd")
    idx = where_true(I, mask)
    J = I.A(idx)
    return I.new_arr(ArrVal((J.shape[0], 1), lambda t, c: J.elem(t), IntS, ('argwhere', idx)))
def np_flatnonzero(I, mask): return where_true(I, mask)
def np_where(I, c, *args):
    if not args:
        return (where_true(I, c),)
    x, y = args
    C = I.A(c)
    X = I.A(x) if isinstance(x, ArrRef) else None; Y = I.A(y) if isinstance(y, ArrRef) else None
    srt = RealS if (X and X.sort == RealS) or (Y and Y.sort == RealS) or is_real(x) or is_real(y) else IntS
    return I.new_arr(ArrVal(C.shape, lambda *ix: If(C.elem(*ix), coerce(X.elem(*ix) if X else x, srt), coerce(Y.elem(*ix) if Y else y, srt)), srt))
def np_reshape(I, a, shape):
    used('np.reshape')
    A = I.A(a)
    shape = as_shape(shape)
    isneg1 = lambda v: (not is_sym(conc(v))) and conc(v) == -1
    if A.ndim == 2 and len(shape) == 2 and not isneg1(shape[0]) and not isneg1(shape[1]):
        # same-size 2-D -> 2-D: supported when it is the identity (dimension-wise equal), as an obligation when not syntactically so
        for x, y in zip(shape, A.shape):
            sd = same_dim(x, y)
            if sd is False: raise Unsupported("reshape 2-D -> different 2-D")
            if sd is None: I.ob("shape:reshape keeps the dimensions", tz(x) == tz(y), kind='shape')
        return a
    if A.ndim == 1 and len(shape) == 2:
        n, m = shape
        if isneg1(n): raise Unsupported("reshape -1")
        if isneg1(m):
            if (not is_sym(conc(n))) and conc(n) == 1: m = A.shape[0]
            elif same_dim(n, A.shape[0]) is True: m = 1
            else: raise Unsupported("reshape -1")
        I.ob("shape:reshape size", tz(A.shape[0]) == tz(n) * tz(m), kind='shape')
        return I.new_arr(ArrVal((conc(n), conc(m)), lambda i, j: A.elem(tz(i) * tz(m) + tz(j)), A.sort))
    if A.ndim == 2 and len(shape) == 1 and isneg1(shape[0]): return np_ravel(I, a)
    if A.ndim == 2 and len(shape) == 1:
        # (n,1) or (1,n) -> (n,)
        I.ob("shape:reshape size", tz(A.shape[0]) * tz(A.shape[1]) == tz(shape[0]), kind='shape')
        c1 = conc(A.shape[1])
        if not is_sym(c1) and c1 == 1: return I.new_arr(ArrVal((conc(shape[0]),), lambda i: A.elem(i, 0), A.sort))
        r1 = conc(A.shape[0])
        if not is_sym(r1) and r1 == 1: return I.new_arr(ArrVal((conc(shape[0]),), lambda i: A.elem(0, i), A.sort))
        raise Unsupported("reshape 2-D -> 1-D of a general matrix")
    if A.ndim == 1 and len(shape) == 1: return a
    if A.ndim == 2 and len(shape) == 2 and (z3.eq(tz(shape[0]), tz(A.shape[0])) and isneg1(shape[1])): return a
    if A.ndim == 2 and len(shape) == 2 and (isneg1(shape[0]) and (not is_sym(conc(shape[1]))) and conc(shape[1]) == 1 and (not is_sym(conc(A.shape[1]))) and conc(A.shape[1]) == 1): return a
    if A.ndim == 1 and len(shape) == 3:
        p, n, m = shape
        I.ob("shape:reshape size", tz(A.shape[0]) == tz(p) * tz(n) * tz(m), kind='shape')
        return I.new_arr(ArrVal((conc(p), conc(n), conc(m)), lambda q, i, j: A.elem((tz(q) * tz(n) + tz(i)) * tz(m) + tz(j)), A.sort))
    if A.ndim == 2 and len(shape) == 3:
        p, n, m = shape
        I.ob("shape:reshape size", tz(A.shape[0]) == tz(p), kind='shape')
        I.ob("shape:reshape size", tz(A.shape[1]) == tz(n) * tz(m), kind='shape')
        return I.new_arr(ArrVal((conc(p), conc(n), conc(m)), lambda q, i, j: A.elem(q, tz(i) * tz(m) + tz(j)), A.sort))
    raise Unsupported("reshape form")
def np_ravel(I, a):
    A = I.A(a)
    if A.ndim == 1: return a
    if A.ndim == 2:
        m = tz(A.shape[1])
        mc = conc(m)
        if not is_sym(mc) and mc == 1: return I.new_arr(ArrVal((A.shape[0],), lambda i: A.elem(i, 0), A.sort))
        raise Unsupported("ravel of 2-D")
    raise Unsupported("ravel nd")
def np_sqrt(I, a):
    if isinstance(a, ArrRef):
        A = I.A(a)
        return I.new_arr(ArrVal(A.shape, lambda *ix: sqrt_(I, A.elem(*ix)), RealS, ('sqrt', a)))
    return sqrt_(I, a)
def np_abs(I, a):
    if isinstance(a, ArrRef):
        A = I.A(a); return I.new_arr(ArrVal(A.shape, lambda *ix: If(A.elem(*ix) >= 0, A.elem(*ix), -A.elem(*ix)), A.sort))
    if is_sym(a): return If(a >= 0, a, -a)
    return abs(a)
def rne(x):
    """numpy round-half-to-even of a real term, exact"""
    x = to_real(x)
    fl = z3.ToInt(x)
    frac = x - z3.ToReal(fl)
    return If(frac < RealVal('1/2'), fl, If(frac > RealVal('1/2'), fl + 1, If(fl % 2 == 0, fl, fl + 1)))
def np_round(I, a, decimals=0, **kw):
    used('np.round')
    if decimals != 0: raise Unsupported("round decimals")
    if isinstance(a, ArrRef):
        A = I.A(a); return I.new_arr(ArrVal(A.shape, lambda *ix: z3.ToReal(rne(A.elem(*ix))), RealS))
    return z3.ToReal(rne(a)) if is_sym(a) else float(round(a))
def np_isscalar(I, v): return not isinstance(v, (ArrRef, list, tuple, dict)) and v is not None
def np_isinf(I, v):
    if isinstance(v, ArrRef):
        A = I.A(v); return I.new_arr(ArrVal(A.shape, lambda *ix: Or(A.elem(*ix) == INF, A.elem(*ix) == -INF), BoolS))
    return Or(tz(v) == INF, tz(v) == -INF)
def np_isfinite(I, v):
    r = np_isinf(I, v)
    if isinstance(r, ArrRef):
        A = I.A(r); return I.new_arr(ArrVal(A.shape, lambda *ix: Not(A.elem(*ix)), BoolS))
    return Not(r)
def np_floor(I, v):
    if isinstance(v, ArrRef):
        A = I.A(v); return I.new_arr(ArrVal(A.shape, lambda *ix: z3.ToReal(z3.ToInt(to_real(A.elem(*ix)))), RealS))
    return z3.ToReal(z3.ToInt(to_real(v)))
def np_take(I, a, idx, axis=None, **kw):
    if axis is None: raise Unsupported("take axis None")
    A = I.A(a)
    ix = [slice(None)] * A.ndim; ix[axis] = idx
    return arr_getitem(I, a, tuple(ix))
def np_diag(I, a, k=0):
    used('np.diag')
    if k != 0: raise Unsupported("np.diag offset")
    A = I.A(a)
    if A.ndim == 2:
        n = zmin(tz(A.shape[0]), tz(A.shape[1])) if not z3.eq(tz(A.shape[0]), tz(A.shape[1])) else A.shape[0]
        return I.new_arr(ArrVal((conc(n),), lambda i: A.elem(i, i), A.sort, ('diag', a)))
    if A.ndim == 1:
        return I.new_arr(ArrVal((A.shape[0], A.shape[0]), lambda i, j: If(tz(i) == tz(j), A.elem(i), coerce(0, A.sort)), A.sort, ('diagm', a)))
    raise Unsupported("np.diag nd")
def np_mean(I, a, axis=None, **kw):
    hook = I.ext.get('mean_hook')
    if hook:
        r = hook(I, a, axis, kw)
        if r is not None: return r
    used('np.mean (opaque: result unconstrained)')
    A = I.A(a)
    if axis is None: return I.fresh('mean', RealS)
    ax = axis if axis >= 0 else A.ndim + axis
    shp = tuple(d for k_, d in enumerate(A.shape) if k_ != ax)
    return I.fresh_arr('mean', shp)
def np_transpose(I, a, axes=None):
    A = I.A(a)
    if axes is None: return a_T(I, a)
    axes = tuple(axes)
    if len(axes) != A.ndim: raise RaiseEx('ValueError')
    shp = tuple(A.shape[k] for k in axes)
    def elem(*jx):
        src = [None] * A.ndim
        for pos, k in enumerate(axes): src[k] = jx[pos]
        return A.elem(*src)
    return I.new_arr(ArrVal(shp, elem, A.sort))

# ------------------------------------------------------------------ builtins
def b_len(I, v):
    if isinstance(v, ArrRef):
        A = I.A(v)
        if A.ndim == 0: raise RaiseEx('TypeError')
        return conc(A.shape[0])
    if isinstance(v, (list, tuple, dict, str)): return len(v)
    if v is None or is_sym(v) or isinstance(v, (int, float)): raise RaiseEx('TypeError')
    raise Unsupported("len")
def b_range(I, *args):
    if len(args) == 1: return RangeV(0, args[0])
    if len(args) == 2: return RangeV(args[0], args[1])
    raise Unsupported("range step")
def b_min(I, *args, **kw):
    if len(args) == 1:
        v = args[0]
        if isinstance(v, ArrRef): return np_min(I, v)
        args = list(v)
    r = args[0]
    for x in args[1:]:
        r = zmin(r, x) if (is_sym(r) or is_sym(x)) else min(r, x)
    return r
def b_max(I, *args, **kw):
    if len(args) == 1:
        v = args[0]
        if isinstance(v, ArrRef): return np_max(I, v)
        args = list(v)
    r = args[0]
    for x in args[1:]:
        r = zmax(r, x) if (is_sym(r) or is_sym(x)) else max(r, x)
    return r
def b_abs(I, v): return np_abs(I, v)
def b_int(I, v=0):
    if isinstance(v, (int, float, bool)): return int(v)
    if is_sym(v):
        if v.sort() == IntS: return v
        if v.sort() == BoolS: return If(v, IntVal(1), IntVal(0))
        return If(v >= 0, z3.ToInt(v), -z3.ToInt(-v))     # truncation toward zero
    if isinstance(v, ArrRef) and I.A(v).ndim == 0: return b_int(I, I.A(v).elem())
    raise RaiseEx('TypeError')
def b_float(I, v=0.0):
    if isinstance(v, (int, float, bool)): return float(v)
    if is_sym(v): return to_real(v)
    if isinstance(v, str): return float(v)
    raise RaiseEx('TypeError')
def b_bool(I, v): return I.truth(v)
def b_isinstance(I, v, cls): return I.isinstance_(v, cls)
def b_hasattr(I, o, name):
    if isinstance(o, ObjRef):
        ob = I.O(o)
        if name in ob.attrs: return True
        return I.find_method(ob.cls, name) is not None
    if isinstance(o, ArrRef): return name in ARR_ATTRS
    return False
def b_getattr(I, o, name, *default):
    try: return I.getattr_(o, name)
    except RaiseEx:
        if default: return default[0]
        raise
def b_setattr(I, o, name, v):
    I.O(o).attrs[name] = v; I.event('setattr', o.id, name)
def b_enumerate(I, it, start=0):
    if isinstance(it, (list, tuple)): return [(start + k, x) for k, x in enumerate(it)]
    if isinstance(it, ArrRef):
        n = conc(I.A(it).shape[0])
        if not is_sym(n): return [(start + k, arr_getitem(I, it, k)) for k in range(n)]
        from .engine import EnumV
        return EnumV(it, start)
    raise Unsupported("enumerate over symbolic iterable")
def b_zip(I, *its):
    out = []
    for it in its:
        if isinstance(it, ArrRef):
            n = conc(I.A(it).shape[0])
            if is_sym(n): raise Unsupported("zip over symbolic array")
            it = [arr_getitem(I, it, k) for k in range(n)]
        out.append(list(it))
    return list(zip(*out))
def b_list(I, it=()):
    if isinstance(it, ArrRef):
        A = I.A(it); return I.new_arr(ArrVal(A.shape[:1], A.elem, A.sort, A.tag, True)) if A.ndim == 1 else it
    if isinstance(it, RangeV):
        lo, hi = conc(it.lo), conc(it.hi)
        if not is_sym(lo) and not is_sym(hi): return list(range(lo, hi))
        return np_arange(I, lo, hi)
    return list(it)
def b_tuple(I, it=()):
    return tuple(it)
def b_super(I, *args):
    # zero-arg super(): frame lookup is done by the interpreter hook
    raise Unsupported("super() outside method")
def b_sum(I, it, start=0):
    if isinstance(it, (list, tuple)):
        r = start
        for x in it: r = I.binop(ast.Add, r, x)
        return r
    if isinstance(it, ArrRef): return np_sum(I, it)
    raise Unsupported("sum")
def b_round(I, v, nd=None):
    if is_sym(v): return rne(v)
    return round(v)
def b_sorted(I, v, **kw):
    if isinstance(v, (list, tuple)) and not any(is_sym(x) for x in v): return sorted(v)
    if isinstance(v, ArrRef) and I.A(v).ndim == 1 and not kw:
        # sorted(a): ascending rearrangement of a, with explicit permutation witnesses (existential-free)
        used('sorted (ascending permutation of the input)')
        A = I.A(v); n = tz(A.shape[0])
        r = I.fresh_fn('sorted', IntS, A.sort); p = I.fresh_fn('perm', IntS, IntS); q = I.fresh_fn('perminv', IntS, IntS)
        t, u = z3.Int('t!so'), z3.Int('u!so')
        I.assume(ForAll([t], Implies(And(0 <= t, t < n), And(0 <= p(t), p(t) < n, q(p(t)) == t, r(t) == A.elem(p(t)))), patterns=[p(t)]))
        I.assume(ForAll([t], Implies(And(0 <= t, t < n), And(0 <= q(t), q(t) < n, p(q(t)) == t)), patterns=[q(t)]))
        I.assume(ForAll([t, u], Implies(And(0 <= t, t < u, u < n), r(t) <= r(u)), patterns=[z3.MultiPattern(r(t), r(u))]))
        return I.new_arr(ArrVal((A.shape[0],), lambda i: r(tz(i)), A.sort, ('sorted', v, p, q), True))
    raise Unsupported("sorted symbolic")
def b_print(I, *a, **k): return None
def b_callable(I, v): return isinstance(v, (Func, Bound, ClassV)) or callable(v)
def b_all(I, it):
    if isinstance(it, ArrRef): return np_all(I, it)
    vals = [I.truth(x) for x in it]
    if all(isinstance(x, bool) for x in vals): return all(vals)
    return And(*[tz(x) for x in vals])
def b_any(I, it):
    if isinstance(it, ArrRef): return np_any(I, it)
    vals = [I.truth(x) for x in it]
    if all(isinstance(x, bool) for x in vals): return any(vals)
    return Or(*[tz(x) for x in vals])
def b_type(I, v):
    if isinstance(v, ObjRef): return I.O(v).cls
    raise Unsupported("type()")
def b_str(I, v=''): return Opaque('str')
def b_dict(I, *a, **k): return dict(*a, **k)
def b_set(I, it=()):
    if isinstance(it, (list, tuple)) and not any(is_sym(x) for x in it): return set(it)
    raise Unsupported("set of symbolic")
def b_divmod(I, a, b): return (I.binop(ast.FloorDiv, a, b), I.binop(ast.Mod, a, b))

def tqdm_(I, it=None, *a, **k): return it

EXC_NAMES = ['ValueError', 'TypeError', 'AttributeError', 'IndexError', 'KeyError', 'NotImplementedError', 'RuntimeError',
             'Exception', 'ZeroDivisionError', 'NotFittedError', 'Warning', 'UserWarning', 'RuntimeWarning', 'DeprecationWarning',
             'FutureWarning', 'ImportError', 'AssertionError']

def make_ext():
    builtins = dict(len=b_len, range=b_range, min=b_min, max=b_max, abs=b_abs, int=b_int, float=b_float, bool=b_bool,
                    isinstance=b_isinstance, hasattr=b_hasattr, getattr=b_getattr, setattr=b_setattr, enumerate=b_enumerate,
                    zip=b_zip, list=b_list, tuple=b_tuple, sum=b_sum, round=b_round, sorted=b_sorted, print=b_print,
                    callable=b_callable, all=b_all, any=b_any, type=b_type, str=b_str, dict=b_dict, set=b_set, divmod=b_divmod,
                    tqdm=tqdm_)
    for n in EXC_NAMES: builtins[n] = ExtClass(n)
    builtins['True'] = True; builtins['False'] = False; builtins['None'] = None
    # names used with isinstance
    for n in ('int', 'float', 'bool', 'str', 'list', 'tuple', 'dict'):
        builtins[n].name = n
    np = ExtNS('np', inf=float('inf'), pi=3.141592653589793, newaxis=None, nan=Opaque('nan'),
               full=np_full, zeros=np_zeros, ones=np_ones, zeros_like=np_zeros_like, ones_like=np_ones_like, copy=np_copy,
               array=np_array, asarray=np_asarray, arange=np_arange, fill_diagonal=np_fill_diagonal, sum=np_sum,
               any=np_any, all=np_all, argmax=np_argext('max'), argmin=np_argext('min'), max=np_max, min=np_min, amax=np_max, amin=np_min,
               minimum=np_minimum_maximum('minimum'), maximum=np_minimum_maximum('maximum'), concatenate=np_concatenate,
               argwhere=np_argwhere, flatnonzero=np_flatnonzero, where=np_where, reshape=lambda I, a, s, **k: np_reshape(I, a, s),
               sqrt=np_sqrt, abs=np_abs, absolute=np_abs, round=np_round, around=np_round, rint=np_round, isscalar=np_isscalar, isinf=np_isinf,
               isfinite=np_isfinite, floor=np_floor, mean=np_mean, take=np_take, transpose=np_transpose, ravel=np_ravel, diag=np_diag,
               ndarray=ExtClass('ndarray'), integer=ExtClass('Integral'), floating=ExtClass('float'),
               float64='float64', int64='int64', bool_='bool', linalg=ExtNS('np.linalg'), random=ExtNS('np.random'))
    np.float64 = 'float64'
    numbers = ExtNS('numbers', Integral=ExtClass('Integral'), Real=ExtClass('Real'), Number=ExtClass('Real'))
    warnings = ExtNS('warnings', warn=lambda I, *a, **k: I.event('warn'), catch_warnings=lambda I, *a, **k: None,
                     simplefilter=lambda I, *a, **k: None, filterwarnings=lambda I, *a, **k: None)
    ext = dict(builtins=builtins,
               modules=dict(np=np, numpy=np, numbers=numbers, warnings=warnings),
               names={'tqdm.tqdm': tqdm_, 'tqdm': tqdm_, 'typing.Callable': ExtClass('Callable'), 'typing.Optional': None, 'typing.Union': None,
                      'numbers.Integral': ExtClass('Integral'), 'numbers.Real': ExtClass('Real')},
               arr_attrs=ARR_ATTRS, arr_binop=arr_binop, arr_cmp=arr_cmp, arr_unop=arr_unop, arr_getitem=arr_getitem,
               arr_setitem=arr_setitem, num_attrs={}, sqrt=sqrt_, obj_attrs={}, super_methods={})
    return ext
