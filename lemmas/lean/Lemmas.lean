/-
Lemmas cited as axioms by the vector layer of pyvc (contracts C02, C06) and by the metric laws of C15.
Checked by `lean Lemmas.lean` (Lean 4 + Mathlib, both installed offline).
-/
import Mathlib

variable {E : Type*} [NormedAddCommGroup E] [InnerProductSpace ℝ E]

/-- sqd_expand: ‖u - v‖² = ⟨u,u⟩ + ⟨v,v⟩ - 2⟨u,v⟩ (the definition of `sqd` in pyvc/veclayer.py). -/
theorem sqd_expand (u v : E) : ‖u - v‖ ^ 2 = inner ℝ u u + inner ℝ v v - 2 * inner ℝ u v := by
  rw [norm_sub_sq_real, real_inner_self_eq_norm_sq, real_inner_self_eq_norm_sq]
  ring

/-- sqd ≥ 0 -/
theorem sqd_nonneg (u v : E) : 0 ≤ inner ℝ u u + inner ℝ v v - 2 * inner ℝ u v := by
  rw [← sqd_expand]; positivity

/-- voronoi_prune: if ‖s - l‖² / 4 ≥ ‖x - s‖² then ‖x - l‖² ≥ ‖x - s‖²
    (a point x whose cell centre s is closer than half the distance between s and the new selection l cannot be closer to l). -/
theorem voronoi_prune (x s l : E) (h : ‖s - l‖ ^ 2 * (1 / 4) ≥ ‖x - s‖ ^ 2) : ‖x - l‖ ^ 2 ≥ ‖x - s‖ ^ 2 := by
  have ha := norm_nonneg (x - s)
  have hb := norm_nonneg (s - l)
  have hc := norm_nonneg (x - l)
  have h1 : ‖x - s‖ ≤ ‖s - l‖ / 2 := by
    by_contra hcon
    push_neg at hcon
    nlinarith
  have h2 : ‖s - l‖ ≤ ‖x - s‖ + ‖x - l‖ := by
    have : s - l = (x - l) - (x - s) := by abel
    rw [this]
    calc ‖(x - l) - (x - s)‖ ≤ ‖x - l‖ + ‖x - s‖ := norm_sub_le _ _
      _ = ‖x - s‖ + ‖x - l‖ := by ring
  have h3 : ‖x - s‖ ≤ ‖x - l‖ := by linarith
  nlinarith

/-- l2 triangle from the coordinate-wise triangle (the Minkowski step of C15):
    if |a d| ≤ |b d| + |c d| for every coordinate then sqrt(Σ a²) ≤ sqrt(Σ b²) + sqrt(Σ c²). -/
theorem l2_triangle_of_coordinatewise {n : ℕ} (a b c : Fin n → ℝ) (h : ∀ d, |a d| ≤ |b d| + |c d|) :
    Real.sqrt (∑ d, a d ^ 2) ≤ Real.sqrt (∑ d, b d ^ 2) + Real.sqrt (∑ d, c d ^ 2) := by
  -- work in Euclidean space with the vectors of absolute values
  let A : EuclideanSpace ℝ (Fin n) := (WithLp.equiv 2 _).symm (fun d => |a d|)
  let B : EuclideanSpace ℝ (Fin n) := (WithLp.equiv 2 _).symm (fun d => |b d|)
  let C : EuclideanSpace ℝ (Fin n) := (WithLp.equiv 2 _).symm (fun d => |c d|)
  have hn : ∀ (f : Fin n → ℝ), ‖((WithLp.equiv 2 _).symm (fun d => |f d|) : EuclideanSpace ℝ (Fin n))‖ = Real.sqrt (∑ d, f d ^ 2) := by
    intro f
    rw [EuclideanSpace.norm_eq]
    congr 1
    apply Finset.sum_congr rfl
    intro d _
    simp [sq_abs]
  have hBC : ‖B + C‖ ≤ ‖B‖ + ‖C‖ := norm_add_le B C
  have hA : ‖A‖ ≤ ‖B + C‖ := by
    rw [EuclideanSpace.norm_eq, EuclideanSpace.norm_eq]
    apply Real.sqrt_le_sqrt
    apply Finset.sum_le_sum
    intro d _
    have h0 : (0:ℝ) ≤ |a d| := abs_nonneg _
    have h1 : |a d| ≤ |b d| + |c d| := h d
    simp only [A, B, C, Real.norm_eq_abs]
    show |(|a d|)| ^ 2 ≤ |(|b d| + |c d|)| ^ 2
    rw [abs_abs, abs_of_nonneg (by positivity : (0:ℝ) ≤ |b d| + |c d|)]
    exact pow_le_pow_left₀ h0 h1 2
  calc Real.sqrt (∑ d, a d ^ 2) = ‖A‖ := (hn a).symm
    _ ≤ ‖B + C‖ := hA
    _ ≤ ‖B‖ + ‖C‖ := hBC
    _ = Real.sqrt (∑ d, b d ^ 2) + Real.sqrt (∑ d, c d ^ 2) := by rw [hn b, hn c]

/-- Gram layer (C12): averaging the kernel over one index with weights w is the inner product with the weighted mean vector. -/
theorem weighted_mean_inner {n : ℕ} (w : Fin n → ℝ) (φ : Fin n → E) (x : E) :
    ∑ i, w i * inner ℝ (φ i) x = inner ℝ (∑ i, w i • φ i) x := by
  rw [sum_inner]
  apply Finset.sum_congr rfl
  intro i _
  rw [real_inner_smul_left]

/-- Gram layer (C12): the Gram matrix of centred features, expanded (bilinearity). -/
theorem centred_gram (a b μ : E) :
    inner ℝ (a - μ) (b - μ) = inner ℝ a b - inner ℝ a μ - inner ℝ μ b + inner ℝ μ μ := by
  rw [inner_sub_left, inner_sub_right, inner_sub_right]
  ring

/-- finite-sum facts used as instances by the metric laws of C15 -/
theorem sumd_nonneg {n : ℕ} (f : Fin n → ℝ) (h : ∀ d, 0 ≤ f d) : 0 ≤ ∑ d, f d := Finset.sum_nonneg (fun d _ => h d)
theorem sumd_mono {n : ℕ} (f g : Fin n → ℝ) (h : ∀ d, f d ≤ g d) : ∑ d, f d ≤ ∑ d, g d := Finset.sum_le_sum (fun d _ => h d)
theorem sumd_congr {n : ℕ} (f g : Fin n → ℝ) (h : ∀ d, f d = g d) : ∑ d, f d = ∑ d, g d := Finset.sum_congr rfl (fun d _ => h d)
theorem sumd_zero {n : ℕ} (f : Fin n → ℝ) (h : ∀ d, f d = 0) : ∑ d, f d = 0 := Finset.sum_eq_zero (fun d _ => h d)

/-- matrix layer (C07): a 1 x 1 matrix is its trace times the identity -/
theorem one_by_one_eq_trace_smul_one (M : Matrix (Fin 1) (Fin 1) ℝ) : M = M.trace • (1 : Matrix (Fin 1) (Fin 1) ℝ) := by
  ext i j
  fin_cases i; fin_cases j
  simp [Matrix.trace]

/-- matrix layer (C10, C20): two diagonal scalings merge into the scaling by the product -/
theorem diag_scalings_merge {m n : ℕ} (A : Matrix (Fin m) (Fin n) ℝ) (f g : Fin n → ℝ) :
    A * Matrix.diagonal f * Matrix.diagonal g = A * Matrix.diagonal (fun i => f i * g i) := by
  rw [Matrix.mul_assoc, Matrix.diagonal_mul_diagonal]

/-- matrix layer (C10): the first columns of a product are the product with the first columns -/
theorem cols_of_product {m n p k : ℕ} (A : Matrix (Fin m) (Fin n) ℝ) (B : Matrix (Fin n) (Fin p) ℝ) (e : Fin k → Fin p) :
    (A * B).submatrix id e = A * B.submatrix id e := by
  ext i j
  simp [Matrix.mul_apply, Matrix.submatrix]
/-- C16: existence of the root of every ascent. If every step either stays or strictly increases the weight, then on a finite set every point reaches a
    fixed point of `next` after finitely many steps (the spec function ROOT of contracts/c16.py is well defined). -/
theorem ascent_reaches_a_root {α : Type*} [Finite α] (w : α → ℝ) (f : α → α)
    (h : ∀ p, f p = p ∨ w p < w (f p)) (p : α) : ∃ k : ℕ, f (f^[k] p) = f^[k] p := by
  have wf : WellFounded (fun q p : α => w p < w q) := by
    haveI : IsTrans α (fun q p : α => w p < w q) := ⟨fun a b c hab hbc => lt_trans hbc hab⟩
    haveI : IsIrrefl α (fun q p : α => w p < w q) := ⟨fun a => lt_irrefl _⟩
    exact Finite.wellFounded_of_trans_of_irrefl _
  induction p using wf.induction with
  | _ p ih =>
    rcases h p with hfix | hlt
    · exact ⟨0, by simpa using hfix⟩
    · obtain ⟨k, hk⟩ := ih (f p) hlt
      refine ⟨k + 1, ?_⟩
      rw [Function.iterate_succ_apply]
      exact hk

section PartialIsometry
open Matrix
/-- C18: a partial isometry never increases the norm of a row vector: if Ω Ωᵀ Ω = Ω then ‖x Ω‖² ≤ ‖x‖². -/
theorem partial_isometry_norm_le {m n : ℕ} (Om : Matrix (Fin m) (Fin n) ℝ) (h : Om * Omᵀ * Om = Om) (x : Fin m → ℝ) :
    (x ᵥ* Om) ⬝ᵥ (x ᵥ* Om) ≤ x ⬝ᵥ x := by
  set P : Matrix (Fin m) (Fin m) ℝ := Om * Omᵀ with hP
  have hPP : P * P = P := by
    rw [hP, ← Matrix.mul_assoc, h]
  have hPt : Pᵀ = P := by
    rw [hP, Matrix.transpose_mul, Matrix.transpose_transpose]
  set y : Fin m → ℝ := x ᵥ* P with hy
  -- ‖xΩ‖² = (x Ω Ωᵀ) · x = y · x
  have h1 : (x ᵥ* Om) ⬝ᵥ (x ᵥ* Om) = y ⬝ᵥ x := by
    have : (x ᵥ* Om) ⬝ᵥ (x ᵥ* Om) = (x ᵥ* Om) ⬝ᵥ (Omᵀ *ᵥ x) := by rw [Matrix.mulVec_transpose]
    rw [this, Matrix.dotProduct_mulVec, Matrix.vecMul_vecMul]
  -- y · y = y · x   (P symmetric idempotent)
  have h2 : y ⬝ᵥ y = y ⬝ᵥ x := by
    have : y ⬝ᵥ y = y ⬝ᵥ (Pᵀ *ᵥ x) := by rw [Matrix.mulVec_transpose]
    rw [this, Matrix.dotProduct_mulVec, hy, Matrix.vecMul_vecMul, hPt, hPP]
  have h3 : 0 ≤ (x - y) ⬝ᵥ (x - y) := by
    unfold dotProduct
    exact Finset.sum_nonneg (fun i _ => mul_self_nonneg _)
  have h4 : (x - y) ⬝ᵥ (x - y) = x ⬝ᵥ x - y ⬝ᵥ x := by
    rw [sub_dotProduct, dotProduct_sub, dotProduct_sub, h2, dotProduct_comm x y]
    ring
  rw [h1]; linarith
end PartialIsometry

-- ---------------------------------------------------------------- added in the third session
section ThirdSession
open Matrix
/-- C10: the SVD form of regularised least squares on the retained directions. With X = U diag(s) Vᵀ, UᵀU = 1, VᵀV = 1 (k retained directions) and
    D = diag(s/(s²+α)), the matrix W = V D Uᵀ Y satisfies the normal equations (XᵀX + α I) W = Xᵀ Y of Tikhonov-regularised least squares. -/
theorem ridge_svd_normal_equations {n m k p : ℕ} (X : Matrix (Fin n) (Fin m) ℝ) (U : Matrix (Fin n) (Fin k) ℝ) (V : Matrix (Fin m) (Fin k) ℝ)
    (s : Fin k → ℝ) (α : ℝ) (Y : Matrix (Fin n) (Fin p) ℝ)
    (hX : X = U * diagonal s * Vᵀ) (hU : Uᵀ * U = 1) (hV : Vᵀ * V = 1) (hpos : ∀ i, s i ^ 2 + α ≠ 0) :
    (Xᵀ * X + α • (1 : Matrix (Fin m) (Fin m) ℝ)) * (V * diagonal (fun i => s i / (s i ^ 2 + α)) * Uᵀ * Y) = Xᵀ * Y := by
  have hXt : Xᵀ = V * diagonal s * Uᵀ := by
    rw [hX]; simp [transpose_mul, diagonal_transpose, Matrix.mul_assoc]
  have h1 : Xᵀ * X = V * diagonal (fun i => s i * s i) * Vᵀ := by
    rw [hXt, hX]
    calc V * diagonal s * Uᵀ * (U * diagonal s * Vᵀ) = V * diagonal s * (Uᵀ * U) * diagonal s * Vᵀ := by simp only [Matrix.mul_assoc]
      _ = V * (diagonal s * diagonal s) * Vᵀ := by rw [hU]; simp [Matrix.mul_assoc]
      _ = V * diagonal (fun i => s i * s i) * Vᵀ := by rw [diagonal_mul_diagonal]
  set D := diagonal (fun i => s i / (s i ^ 2 + α)) with hD
  have key : (Xᵀ * X + α • (1 : Matrix (Fin m) (Fin m) ℝ)) * (V * D) = V * diagonal s := by
    rw [h1, Matrix.add_mul]
    have e1 : V * diagonal (fun i => s i * s i) * Vᵀ * (V * D) = V * (diagonal (fun i => s i * s i) * D) := by
      calc V * diagonal (fun i => s i * s i) * Vᵀ * (V * D) = V * diagonal (fun i => s i * s i) * (Vᵀ * V) * D := by simp only [Matrix.mul_assoc]
        _ = V * (diagonal (fun i => s i * s i) * D) := by rw [hV]; simp [Matrix.mul_assoc]
    have e2 : (α • (1 : Matrix (Fin m) (Fin m) ℝ)) * (V * D) = V * (α • D) := by
      simp [Matrix.smul_mul, Matrix.mul_smul]
    rw [e1, e2, ← Matrix.mul_add]
    congr 1
    rw [hD, diagonal_mul_diagonal, ← diagonal_smul, diagonal_add]
    congr 1
    funext i
    have := hpos i
    simp only [Pi.smul_apply, smul_eq_mul]
    field_simp
  calc (Xᵀ * X + α • (1 : Matrix (Fin m) (Fin m) ℝ)) * (V * D * Uᵀ * Y)
      = ((Xᵀ * X + α • (1 : Matrix (Fin m) (Fin m) ℝ)) * (V * D)) * Uᵀ * Y := by simp only [Matrix.mul_assoc]
    _ = V * diagonal s * Uᵀ * Y := by rw [key]
    _ = Xᵀ * Y := by rw [hXt]

/-- C10 (thin-SVD contract): for non-increasing singular values the directions above a threshold form a prefix, so `sum(s > t)` is a prefix length -/
theorem above_threshold_is_prefix {k : ℕ} (s : Fin k → ℝ) (hs : Antitone s) (t : ℝ) (i j : Fin k) (hij : i ≤ j) (hj : s j > t) : s i > t :=
  lt_of_lt_of_le hj (hs hij)

/-- C17 (finite-sum functional SUMARR): adding `d` to one entry adds `d` to the sum -/
theorem sum_update_add {n : ℕ} (f : Fin n → ℝ) (r : Fin n) (d : ℝ) :
    ∑ t, (Function.update f r (f r + d)) t = (∑ t, f t) + d := by
  rw [Finset.sum_update_of_mem (Finset.mem_univ r)]
  have h := Finset.add_sum_erase Finset.univ f (Finset.mem_univ r)
  have : (Finset.univ \ {r}) = Finset.univ.erase r := by ext x; simp
  rw [this]; linarith

/-- C17: the grid weights (sums of the weights of the descriptors assigned to each grid point) total the descriptor weights -/
theorem fibre_sums_total {n g : ℕ} (L : Fin n → Fin g) (w : Fin n → ℝ) :
    ∑ j : Fin g, ∑ t : Fin n, (if L t = j then w t else 0) = ∑ t, w t := by
  rw [Finset.sum_comm]
  simp

/-- C07 (Moore–Penrose facts for a Gram matrix): if G⁺ is a generalised inverse of G = AᵀA with G⁺G symmetric (two of the Penrose conditions), then A G⁺ G = A. -/
theorem gram_pinv_absorbs {m n : ℕ} (A : Matrix (Fin m) (Fin n) ℝ) (Gp : Matrix (Fin n) (Fin n) ℝ)
    (h1 : (Aᵀ * A) * Gp * (Aᵀ * A) = Aᵀ * A) (h3 : (Gp * (Aᵀ * A))ᵀ = Gp * (Aᵀ * A)) :
    A * (Gp * (Aᵀ * A)) = A := by
  set G := Aᵀ * A with hG
  set P := Gp * G with hP
  have hGP : G * P = G := by rw [hP, ← Matrix.mul_assoc]; exact h1
  have hE : (A - A * P)ᵀ * (A - A * P) = 0 := by
    have e1 : (A - A * P)ᵀ = Aᵀ - P * Aᵀ := by
      rw [transpose_sub, transpose_mul, h3]
    rw [e1, Matrix.sub_mul, Matrix.mul_sub, Matrix.mul_sub]
    have a1 : Aᵀ * (A * P) = G * P := by rw [← Matrix.mul_assoc]
    have a2 : P * Aᵀ * A = P * G := by rw [Matrix.mul_assoc]
    have a3 : P * Aᵀ * (A * P) = P * (G * P) := by
      rw [Matrix.mul_assoc, ← Matrix.mul_assoc Aᵀ A P]
    rw [a1, a2, a3, hGP]
    simp [hG]
  have hz : A - A * P = 0 := by
    have := (Matrix.conjTranspose_mul_self_eq_zero (A := A - A * P)).mp (by simpa [Matrix.conjTranspose_eq_transpose_of_trivial] using hE)
    exact this
  have := sub_eq_zero.mp hz
  exact this.symm

/-- C07: the companion fact G G⁺ Aᵀ = Aᵀ for G = AᵀA, from G G⁺ G = G and G G⁺ symmetric. -/
theorem gram_pinv_absorbs_left {m n : ℕ} (A : Matrix (Fin m) (Fin n) ℝ) (Gp : Matrix (Fin n) (Fin n) ℝ)
    (h1 : (Aᵀ * A) * Gp * (Aᵀ * A) = Aᵀ * A) (h4 : ((Aᵀ * A) * Gp)ᵀ = (Aᵀ * A) * Gp) :
    (Aᵀ * A) * Gp * Aᵀ = Aᵀ := by
  set G := Aᵀ * A with hG
  set Q := G * Gp with hQ
  have hGs : Gᵀ = G := by rw [hG, transpose_mul, transpose_transpose]
  have hQG : Q * G = G := h1
  have hGQ : G * Q = G := by
    have := congrArg transpose hQG
    rw [transpose_mul, h4, hGs] at this
    exact this
  have hE : (A - A * Q)ᵀ * (A - A * Q) = 0 := by
    have e1 : (A - A * Q)ᵀ = Aᵀ - Q * Aᵀ := by
      rw [transpose_sub, transpose_mul, h4]
    rw [e1, Matrix.sub_mul, Matrix.mul_sub, Matrix.mul_sub]
    have a1 : Aᵀ * (A * Q) = G * Q := by rw [← Matrix.mul_assoc]
    have a2 : Q * Aᵀ * A = Q * G := by rw [Matrix.mul_assoc]
    have a3 : Q * Aᵀ * (A * Q) = Q * (G * Q) := by
      rw [Matrix.mul_assoc, ← Matrix.mul_assoc Aᵀ A Q]
    rw [a1, a2, a3, hGQ, hQG]
    simp [hG]
  have hz : A - A * Q = 0 :=
    (Matrix.conjTranspose_mul_self_eq_zero (A := A - A * Q)).mp (by simpa [Matrix.conjTranspose_eq_transpose_of_trivial] using hE)
  have hAQ : A * Q = A := (sub_eq_zero.mp hz).symm
  have := congrArg transpose hAQ
  rw [transpose_mul, h4] at this
  exact this

/-- C07: Aᵀ A A⁺ = Aᵀ, from the Penrose conditions A A⁺ A = A and (A A⁺)ᵀ = A A⁺. -/
theorem gram_times_pinv {m n : ℕ} (A : Matrix (Fin m) (Fin n) ℝ) (Ap : Matrix (Fin n) (Fin m) ℝ)
    (h1 : A * Ap * A = A) (h3 : (A * Ap)ᵀ = A * Ap) : Aᵀ * A * Ap = Aᵀ := by
  have h : Aᵀ * (A * Ap) = Aᵀ := by
    have := congrArg transpose h1
    rw [transpose_mul, h3] at this
    exact this
  rw [Matrix.mul_assoc]; exact h
end ThirdSession
